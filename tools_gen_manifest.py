#!/usr/bin/env python3
"""Regenerates MANIFEST.json from the table below (kept in one place so that it always validates)."""
import json, os, sys
HERE = os.path.dirname(os.path.abspath(__file__))
sys.path.insert(0, HERE)
from manifest_data import CHECKS, NOT_APPLICABLE, ENGINES   # noqa: E402

BASE = "cd /repo && /venv/bin/python -m pytest -ra -q -p no:cacheprovider --timeout=900 --continue-on-collection-errors"
m = {
    "version": 1,
    "setup_cmd": "sh -c 'test -d /repo/pyplate && (test -x /venv/bin/python || command -v python3 >/dev/null)'",
    "hooks": {"guard": "PYPLATE_VERIF", "enable": "not needed: the checks are static analyses of the source tree and "
              "need no instrumentation; no hook commits exist", "baseline_off_cmd": BASE, "source_commits": [],
              "add_only": True},
    "engines": ENGINES,
    "checks": [],
    "notes": "Static analysis only (stdlib ast). ./check <id> parses /repo/pyplate/*.py on every run; nothing is "
             "imported or executed. Exit 2 + ANALYSIS-ERROR = checker fault / vanished anchor. Known findings: "
             "known_findings.json. See DESIGN.md.",
    "not_applicable": NOT_APPLICABLE,
}
for pid, c in sorted(CHECKS.items()):
    m["checks"].append({
        "property_id": pid,
        "quick_cmd": f"./check {pid}",
        "thorough_cmd": f"./check {pid} --tier thorough",
        "evidence_file": f"/verif/evidence/{pid}.json",
        "replay_cmd_template": "./check --replay {path}",
        "engine": c["engine"],
        "level_claimed": {"category": "other", "text": c["text"], "design_ref": c["design_ref"]},
        "level_note": c["note"],
        "technique": c["technique"],
    })
with open(os.path.join(HERE, "MANIFEST.json"), "w") as fh:
    json.dump(m, fh, indent=1)
print("checks:", len(m["checks"]), "not_applicable:", len(NOT_APPLICABLE))

#!/usr/bin/env python3
"""Evaluate a behaviour-preserving refactoring: usage  tools/rftest.py <refactor.diff> [<equiv.py>] [--props=C01,C02]

Makes a scratch copy of /repo outside /repo and /verif, applies the patch, confirms that the pinned suite still passes
and (if an equivalence script is given) that its output is identical on the unchanged and the refactored copy, then
runs the registered quick checks against the refactored copy (no evidence is written).  Every alarm or analysis error
is a false alarm of the machinery.  The scratch copy is removed afterwards."""
import json, os, shutil, subprocess, sys, tempfile
from concurrent.futures import ThreadPoolExecutor

VERIF = os.path.dirname(os.path.dirname(os.path.abspath(__file__)))
PY = '/venv/bin/python' if os.path.exists('/venv/bin/python') else sys.executable


def run(cmd, cwd=None, env=None, timeout=1800):
    e = dict(os.environ)
    e.update(env or {})
    p = subprocess.run(cmd, cwd=cwd, env=e, capture_output=True, text=True, timeout=timeout)
    return p.returncode, (p.stdout + p.stderr)


def main():
    args = [a for a in sys.argv[1:] if not a.startswith('--')]
    patch = os.path.abspath(args[0])
    equiv = os.path.abspath(args[1]) if len(args) > 1 else None
    props = [f"C{i:02d}" for i in range(1, 20)]
    for a in sys.argv[1:]:
        if a.startswith('--props='):
            props = a.split('=', 1)[1].split(',')
    out = {'patch': patch}
    scratch = tempfile.mkdtemp(prefix='psa_rf_', dir='/tmp')
    try:
        tree = os.path.join(scratch, 'repo')
        shutil.copytree('/repo', tree, ignore=shutil.ignore_patterns('.git', '__pycache__', '*.pyc', 'docs', 'images'))
        env = {'PYTHONPATH': tree, 'PYTHONDONTWRITEBYTECODE': '1'}
        check_env = {'PSA_NO_EVIDENCE': '1'}
        # a refactoring written for an earlier commit whose lines a later repair touched: analyse it on that commit
        base_file = os.path.join(os.path.dirname(patch), 'base.json')
        rc0, _ = run(['patch', '-p1', '--dry-run', '-F0', '-i', patch], cwd=tree)
        if rc0 != 0 and os.path.exists(base_file):
            base = json.load(open(base_file))
            shutil.rmtree(tree)
            os.makedirs(tree)
            p1 = subprocess.Popen(['git', '-C', '/repo', 'archive', base['commit']], stdout=subprocess.PIPE)
            subprocess.run(['tar', '-x', '-C', tree], stdin=p1.stdout, check=True)
            p1.wait()
            out['base'] = base['commit']
            check_env['PSA_OPEN_AT_BASE'] = ','.join(base.get('open_findings', []))
        clean_out = None
        if equiv:
            rc, clean_out = run([PY, equiv], cwd=tree, env=env)
            out['equiv_clean_exit'] = rc
        rc, o = run(['patch', '-p1', '-i', patch], cwd=tree)
        out['patch_applies'] = rc == 0
        if rc != 0:
            out['patch_output'] = o[-400:]
            print(json.dumps(out, indent=1))
            return 2
        rc, o = run([PY, '-m', 'pytest', '-q', '-p', 'no:cacheprovider', '-x'], cwd=tree, env=env)
        tail = [l for l in o.strip().splitlines() if 'passed' in l or 'failed' in l or 'error' in l]
        out['suite'] = tail[-1] if tail else o[-200:]
        out['suite_ok'] = rc == 0
        if equiv:
            rc, ref_out = run([PY, equiv], cwd=tree, env=env)
            out['equiv_refactored_exit'] = rc
            out['equiv_identical'] = ref_out == clean_out
            out['equiv_tail'] = ref_out.strip().splitlines()[-2:]

        def one(p):
            rc, o = run([os.path.join(VERIF, 'check'), p, '--repo', tree], cwd=VERIF, env=check_env)
            return p, rc, o
        alarms, errors = {}, {}
        with ThreadPoolExecutor(max_workers=8) as ex:
            for p, rc, o in ex.map(one, props):
                if rc == 1:
                    alarms[p] = [l.strip()[:300] for l in o.splitlines() if l.startswith('  pyplate')][:4]
                elif rc != 0:
                    errors[p] = [l[:300] for l in o.splitlines() if 'ANALYSIS' in l][:2] or [o[-300:]]
        out['alarms'] = alarms
        out['analysis_errors'] = errors
        print(json.dumps(out, indent=1))
        return 0 if not alarms and not errors else 1
    finally:
        shutil.rmtree(scratch, ignore_errors=True)


if __name__ == '__main__':
    sys.exit(main())

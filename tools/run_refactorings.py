#!/usr/bin/env python3
"""Run every behaviour-preserving refactoring under /verif/refactorings through tools/rftest.py (scratch copies only).
usage: tools/run_refactorings.py [ids...] [--no-equiv]   Exit 0 iff no check alarms or errors on any of them."""
import json, os, subprocess, sys
from concurrent.futures import ThreadPoolExecutor

VERIF = os.path.dirname(os.path.dirname(os.path.abspath(__file__)))


def one(d):
    args = [os.path.join(VERIF, 'tools/rftest.py'), os.path.join(d, 'patch.diff')]
    if '--no-equiv' not in sys.argv and os.path.exists(os.path.join(d, 'equiv.py')):
        args.append(os.path.join(d, 'equiv.py'))
    p = subprocess.run(args, capture_output=True, text=True)
    try:
        return os.path.basename(d), json.loads(p.stdout)
    except Exception:
        return os.path.basename(d), {'error': (p.stdout + p.stderr)[-400:]}


def main():
    ids = [a for a in sys.argv[1:] if not a.startswith('--')]
    root = os.path.join(VERIF, 'refactorings')
    dirs = [os.path.join(root, x) for x in sorted(os.listdir(root)) if not ids or x in ids or x.split('-')[0] in ids]
    bad = 0
    with ThreadPoolExecutor(max_workers=3) as ex:
        for name, o in ex.map(one, dirs):
            if 'error' in o:
                print(name, 'EVAL-ERROR', o['error'])
                bad += 1
                continue
            ok = o.get('suite_ok') and not o.get('alarms') and not o.get('analysis_errors') and o.get('equiv_identical', True)
            print(f"{name} suite={o.get('suite')} equiv_identical={o.get('equiv_identical')} alarms={sorted(o.get('alarms', {}))} "
                  f"errors={sorted(o.get('analysis_errors', {}))}")
            for p, a in o.get('alarms', {}).items():
                for l in a[:3]:
                    print('    ALARM', p, l[:300])
            for p, a in o.get('analysis_errors', {}).items():
                print('    ERROR', p, a[0][:300])
            bad += 0 if ok else 1
    print(f"{len(dirs) - bad}/{len(dirs)} refactorings leave every check silent")
    return 0 if bad == 0 else 1


if __name__ == '__main__':
    sys.exit(main())

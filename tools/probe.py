#!/usr/bin/env python3
"""Probe: apply one in-memory edit to the current sources and report which properties' rules fire.
usage: tools/probe.py <probes.py>     (a file defining PROBES = [(id, qualname, old, new[, module]), ...])
Nothing is written to /repo.  For exploring what the rules see; the catalogue is the regression set."""
import os, sys
from concurrent.futures import ProcessPoolExecutor
sys.path.insert(0, os.path.dirname(os.path.dirname(os.path.abspath(__file__))))
from psa.variants import Variant, apply_variant, current_sources, violations_of      # noqa: E402
from psa.model import AnalysisError      # noqa: E402

PROPS = [f"C{i:02d}" for i in range(1, 20)]
_BASE = {}


def one(args):
    probe, prop = args
    pid, q, old, new = probe[:4]
    module = probe[4] if len(probe) > 4 else 'pyplate/pyplate.py'
    v = Variant(pid, [prop], 'fire', q, old, new, '', module=module, count=probe[5] if len(probe) > 5 else 1)
    src = current_sources()
    mut = apply_variant(v, src)
    if mut is None:
        return pid, prop, 'ANCHOR', ''
    try:
        base = violations_of(prop, src)
        got = violations_of(prop, mut)
    except AnalysisError as exc:
        return pid, prop, 'analysis-error', str(exc)[:160]
    except Exception as exc:
        return pid, prop, 'CRASH', f"{type(exc).__name__}: {exc}"[:160]
    new_ = got - base
    return pid, prop, ('fired' if new_ else ''), '; '.join(f"{r} {f}: {k}" for r, f, k in sorted(new_)[:2])[:200]


def main():
    ns = {}
    exec(open(sys.argv[1]).read(), ns)
    probes = ns['PROBES']
    props = sys.argv[2].split(',') if len(sys.argv) > 2 else PROPS
    jobs = [(p, prop) for p in probes for prop in props]
    res = {}
    with ProcessPoolExecutor(max_workers=16) as ex:
        for pid, prop, verdict, why in ex.map(one, jobs, chunksize=1):
            res.setdefault(pid, []).append((prop, verdict, why))
    for p in probes:
        r = res[p[0]]
        if any(v == 'ANCHOR' for _, v, _ in r):
            print(f"{p[0]}: anchor not found")
            continue
        fired = [f"{prop}" for prop, v, _ in r if v == 'fired']
        errs = [f"{prop}" for prop, v, _ in r if v in ('analysis-error', 'CRASH')]
        print(f"{p[0]}: fired={fired} errors={errs}")
        for prop, v, why in r:
            if v in ('fired', 'CRASH', 'analysis-error'):
                print(f"     {prop} {v}: {why}")


if __name__ == '__main__':
    main()

#!/usr/bin/env python3
"""Regression over /verif/seeded: every seeded change must still be detected by the check of the property it breaks
(and the demo must still pass on the unchanged tree).  usage: tools/run_seeded.py [-j N] [ids...]"""
import json, os, subprocess, sys
from concurrent.futures import ThreadPoolExecutor
HERE = os.path.dirname(os.path.abspath(__file__))
ROOT = os.path.join(os.path.dirname(HERE), 'seeded')


def one(name):
    d = os.path.join(ROOT, name)
    meta = json.load(open(os.path.join(d, 'meta.json')))
    prop = meta['property']
    p = subprocess.run([os.path.join(HERE, 'seedtest.py'), os.path.join(d, 'patch.diff'), os.path.join(d, 'demo.py'),
                        f"--props={prop}"], capture_output=True, text=True)
    try:
        o = json.loads(p.stdout)
    except Exception:
        return name, 'ERROR', p.stdout[-200:] + p.stderr[-200:]
    if not o.get('patch_applies'):
        return name, 'STALE-PATCH', 'patch no longer applies to /repo'
    ok = prop in o.get('alarms', {}) and o.get('demo_clean_exit') == 0 and o.get('demo_mutant_exit') == 1 and o.get('suite_ok')
    why = '' if ok else json.dumps({k: o.get(k) for k in ('demo_clean_exit', 'demo_mutant_exit', 'suite', 'analysis_errors')})
    return name, 'detected' if ok else 'MISSED', why


def main():
    args = sys.argv[1:]
    jobs = 16
    if '-j' in args:
        jobs = int(args[args.index('-j') + 1])
        del args[args.index('-j'):args.index('-j') + 2]
    names = args or sorted(os.listdir(ROOT))
    bad = 0
    with ThreadPoolExecutor(max_workers=jobs) as ex:
        for name, verdict, why in ex.map(one, names):
            if verdict != 'detected':
                bad += 1
                print(f"{name}: {verdict} {why}")
    print(f"{len(names) - bad}/{len(names)} seeded changes detected by their own property")
    return 1 if bad else 0


if __name__ == '__main__':
    sys.exit(main())

#!/usr/bin/env python3
"""Print the DESIGN.md table of one seeding round: tools/round_table.py <round> [run_seeded log]"""
import glob, json, re, sys
rnd = int(sys.argv[1])
log = open(sys.argv[2]).read() if len(sys.argv) > 2 else ''
now = {}
for l in log.splitlines():
    m = re.match(r'(C\d+-\d+): (\S+) (.*)', l)
    if m:
        now[m.group(1)] = 'no verdict (exit 2)' if 'ANALYSIS' in m.group(3) else 'missed'
print('| id | change (first 130 characters of the author\'s summary) | first evaluation | now |')
print('|----|------|------|------|')
own = oth = 0
rows = []
for f in glob.glob('seeded/*/meta.json'):
    m = json.load(open(f))
    if m.get('round') != rnd:
        continue
    sid = f.split('/')[1]
    fe = m.get('first_evaluation', {})
    if isinstance(fe, str):
        fe = eval(fe)
    if fe.get('own_property_detected'):
        first = 'own property'; own += 1
    elif fe.get('detected_by'):
        first = 'other: ' + ', '.join(fe['detected_by'][:4]); oth += 1
    elif m['property'] in fe.get('analysis_errors', []):
        first = 'no verdict (exit 2)'
    else:
        first = 'missed by every check'
    s = m['summary'].replace('|', '/').replace('\n', ' ')
    rows.append((m['property'], int(sid.split('-')[1]), f"| {sid} | {s[:130]}{'...' if len(s) > 130 else ''} | {first} | {now.get(sid, 'caught')} |"))
for _, _, r in sorted(rows):
    print(r)
print(f"\nfirst evaluation: own {own}, other only {oth}, of {len(rows)}; now caught {sum(1 for r in rows if r[2].endswith('| caught |'))}", file=sys.stderr)

#!/usr/bin/env python3
"""Confirm and store the deliverables of one seeding round.
usage: tools/import_round.py <out_dir> <round> <first_index> <origin text file> [ids...]
<out_dir>/<Cnn>/{patchK.diff,demoK.py,metaK.json}, K = 1..; stored as seeded/<Cnn>-<first_index+K-1>/ only when
tools/seedtest.py confirms: demo exits 0 on the unchanged copy, patch applies, suite passes, demo exits 1 with it.
All 19 quick checks are run on the changed copy; the result is recorded as the first evaluation."""
import json, os, shutil, subprocess, sys
from concurrent.futures import ThreadPoolExecutor
HERE = os.path.dirname(os.path.abspath(__file__))
VERIF = os.path.dirname(HERE)


def one(job):
    out_dir, rnd, first, origin, pid, k = job
    src = os.path.join(out_dir, pid)
    patch, demo, meta = (os.path.join(src, f"{n}{k}.{e}") for n, e in (('patch', 'diff'), ('demo', 'py'), ('meta', 'json')))
    if not all(os.path.isfile(p) for p in (patch, demo, meta)):
        return pid, k, 'absent', None
    name = f"{pid}-{first + k - 1}"
    p = subprocess.run([os.path.join(HERE, 'seedtest.py'), patch, demo], capture_output=True, text=True)
    try:
        o = json.loads(p.stdout)
    except Exception:
        return pid, k, 'seedtest failed: ' + (p.stdout + p.stderr)[-300:], None
    ok = o.get('demo_clean_exit') == 0 and o.get('patch_applies') and o.get('suite_ok') and o.get('demo_mutant_exit') == 1
    if not ok:
        return pid, k, 'NOT CONFIRMED ' + json.dumps({x: o.get(x) for x in ('demo_clean_exit', 'patch_applies', 'suite', 'demo_mutant_exit')}), None
    try:
        m = json.load(open(meta))
    except Exception as e:
        m = {'property': pid, 'summary': open(meta, errors='replace').read()[:2000], 'needs': '', 'author_ran': []}
    m['property'] = pid
    m['round'] = rnd
    m['origin'] = origin
    head = subprocess.run(['git', '-C', '/repo', 'rev-parse', '--short', 'HEAD'], capture_output=True, text=True).stdout.strip()
    m['confirmed'] = {'how': f'tools/seedtest.py patch.diff demo.py on a scratch copy of /repo at {head}', 'demo_exit_unchanged': 0,
                      'demo_exit_with_change': 1, 'suite_with_change': o.get('suite')}
    det = sorted(o.get('alarms', {}))
    m['first_evaluation'] = {'detected_by': det, 'own_property_detected': pid in det, 'analysis_errors': sorted(o.get('analysis_errors', {}))}
    m['detected_by'] = det
    m['own_property_detected'] = pid in det
    m['first_report'] = {p_: v[0] for p_, v in o.get('alarms', {}).items() if v}
    d = os.path.join(VERIF, 'seeded', name)
    os.makedirs(d, exist_ok=True)
    shutil.copy(patch, os.path.join(d, 'patch.diff'))
    shutil.copy(demo, os.path.join(d, 'demo.py'))
    json.dump(m, open(os.path.join(d, 'meta.json'), 'w'), indent=1)
    return pid, k, ('own' if pid in det else ('other:' + ','.join(det) if det else ('exit2' if pid in o.get('analysis_errors', {}) else 'MISSED'))), name


def main():
    out_dir, rnd, first, origin_file = sys.argv[1], int(sys.argv[2]), int(sys.argv[3]), sys.argv[4]
    origin = open(origin_file).read().strip()
    ids = sys.argv[5:] or sorted(os.listdir(out_dir))
    jobs = [(out_dir, rnd, first, origin, pid, k) for pid in ids for k in (1, 2, 3)]
    with ThreadPoolExecutor(max_workers=4) as ex:
        for pid, k, verdict, name in ex.map(one, jobs):
            print(f"{pid} #{k} -> {name}: {verdict}", flush=True)


if __name__ == '__main__':
    main()

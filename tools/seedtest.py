#!/usr/bin/env python3
"""Evaluate a seeded change: usage  tools/seedtest.py <patch.diff> <demo.py> [--props C01,C02] [--keep]

Makes a scratch copy of /repo outside /repo and /verif, confirms that (1) the demo passes on the unchanged copy,
(2) the patch applies, (3) the pinned test suite still passes with it, (4) the demo fails with it, then runs the
registered quick checks against the changed copy (no evidence is written) and prints which properties raise an alarm.
The scratch copy is removed afterwards."""
import json, os, shutil, subprocess, sys, tempfile

VERIF = os.path.dirname(os.path.dirname(os.path.abspath(__file__)))
PY = '/venv/bin/python' if os.path.exists('/venv/bin/python') else sys.executable


def run(cmd, cwd=None, env=None, timeout=900):
    e = dict(os.environ)
    e.update(env or {})
    p = subprocess.run(cmd, cwd=cwd, env=e, shell=isinstance(cmd, str), capture_output=True, text=True, timeout=timeout)
    return p.returncode, (p.stdout + p.stderr)


def main():
    args = [a for a in sys.argv[1:] if not a.startswith('--')]
    patch, demo = os.path.abspath(args[0]), os.path.abspath(args[1])
    props = None
    for a in sys.argv[1:]:
        if a.startswith('--props='):
            props = a.split('=', 1)[1].split(',')
    out = {'patch': patch, 'demo': demo}
    scratch = tempfile.mkdtemp(prefix='psa_seed_', dir='/tmp')
    try:
        tree = os.path.join(scratch, 'repo')
        shutil.copytree('/repo', tree, ignore=shutil.ignore_patterns('.git', '__pycache__', '*.pyc', 'docs', 'images'))
        env = {'PYTHONPATH': tree, 'PYTHONDONTWRITEBYTECODE': '1'}
        rc, o = run([PY, demo], cwd=tree, env=env)
        out['demo_clean_exit'] = rc
        rc, o = run(['patch', '-p1', '-i', patch], cwd=tree)
        out['patch_applies'] = rc == 0
        if rc != 0:
            out['patch_output'] = o[-400:]
            print(json.dumps(out, indent=1))
            return 2
        rc, o = run([PY, '-m', 'pytest', '-q', '-p', 'no:cacheprovider', '--timeout=900', '-x'], cwd=tree, env=env)
        tail = [l for l in o.strip().splitlines() if 'passed' in l or 'failed' in l or 'error' in l]
        out['suite'] = tail[-1] if tail else o[-200:]
        out['suite_ok'] = rc == 0
        rc, o = run([PY, demo], cwd=tree, env=env)
        out['demo_mutant_exit'] = rc
        out['demo_mutant_tail'] = o.strip().splitlines()[-3:]
        from_props = props or [f"C{i:02d}" for i in range(1, 20)]
        alarms, errors = {}, {}
        from concurrent.futures import ThreadPoolExecutor

        def one(p):
            rc, o = run([os.path.join(VERIF, 'check'), p, '--repo', tree], cwd=VERIF, env={'PSA_NO_EVIDENCE': '1'})
            return p, rc, o
        with ThreadPoolExecutor(max_workers=6) as ex:
            results = list(ex.map(one, from_props))
        for p, rc, o in results:
            if rc == 1:
                lines = [l.strip() for l in o.splitlines() if l.startswith('  pyplate')]
                alarms[p] = [l[:260] for l in lines[:3]]
            elif rc != 0:
                errors[p] = [l for l in o.splitlines() if 'ANALYSIS' in l][:1]
        out['alarms'] = alarms
        out['analysis_errors'] = errors
        print(json.dumps(out, indent=1))
        return 0
    finally:
        shutil.rmtree(scratch, ignore_errors=True)


if __name__ == '__main__':
    sys.exit(main())

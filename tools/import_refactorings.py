#!/usr/bin/env python3
"""Store the deliverables of a refactoring round and evaluate them.
usage: tools/import_refactorings.py <out_dir> [ids...]   (<out_dir>/<Wk>/{refactorJ.diff,equivJ.py,noteJ.txt})
Each is stored as refactorings/<Wk>-<J>/ (patch.diff, equiv.py, note.txt, base.json) and run through tools/rftest.py
with its equivalence script: suite, identical digest on the unchanged and the refactored copy, all 19 quick checks."""
import json, os, shutil, subprocess, sys
from concurrent.futures import ThreadPoolExecutor
HERE = os.path.dirname(os.path.abspath(__file__))
VERIF = os.path.dirname(HERE)


def one(job):
    out_dir, wid, j = job
    src = os.path.join(out_dir, wid)
    patch, equiv, note = (os.path.join(src, f) for f in (f"refactor{j}.diff", f"equiv{j}.py", f"note{j}.txt"))
    if not os.path.isfile(patch):
        return wid, j, 'absent'
    d = os.path.join(VERIF, 'refactorings', f"{wid}-{j}")
    os.makedirs(d, exist_ok=True)
    shutil.copy(patch, os.path.join(d, 'patch.diff'))
    if os.path.isfile(equiv):
        shutil.copy(equiv, os.path.join(d, 'equiv.py'))
    if os.path.isfile(note):
        shutil.copy(note, os.path.join(d, 'note.txt'))
    head = subprocess.run(['git', '-C', '/repo', 'rev-parse', '--short', 'HEAD'], capture_output=True, text=True).stdout.strip()
    json.dump({"commit": head, "open_findings": [], "note": "written against this commit of /repo; used only when the patch no longer applies to the current tree because a later repair touched the same lines"},
              open(os.path.join(d, 'base.json'), 'w'))
    args = [os.path.join(HERE, 'rftest.py'), os.path.join(d, 'patch.diff')] + ([os.path.join(d, 'equiv.py')] if os.path.isfile(equiv) else [])
    p = subprocess.run(args, capture_output=True, text=True)
    try:
        o = json.loads(p.stdout)
    except Exception:
        return wid, j, 'rftest failed: ' + (p.stdout + p.stderr)[-300:]
    return wid, j, json.dumps({k: o.get(k) for k in ('patch_applies', 'suite', 'equiv_identical', 'alarms', 'analysis_errors')})[:1500]


def main():
    out_dir = sys.argv[1]
    ids = sys.argv[2:] or sorted(os.listdir(out_dir))
    jobs = [(out_dir, w, j) for w in ids for j in (1, 2, 3)]
    with ThreadPoolExecutor(max_workers=3) as ex:
        for wid, j, verdict in ex.map(one, jobs):
            print(f"{wid}-{j}: {verdict}", flush=True)


if __name__ == '__main__':
    main()

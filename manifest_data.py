"""Data for MANIFEST.json (see tools_gen_manifest.py)."""
TB = ("Trusted base: python ast; closed world (only pyplate/*.py define the classes, no monkey-patching); documented "
      "behaviour of numpy.vectorize/frompyfunc, numpy slicing, deepcopy/copy, round, sum. ")
ENGINES = [
    {"name": "M-model", "path": "psa/model.py", "serves_properties": ["all"], "kind_free_text": "program model: modules, classes, functions, closures, signatures, call resolution"},
    {"name": "F-flow", "path": "psa/flow.py", "serves_properties": ["C01", "C02", "C03", "C04", "C07", "C08", "C09", "C10", "C11", "C13", "C15", "C16", "C17"], "kind_free_text": "syntax-directed symbolic dataflow: SSA-like definitions, accumulators, versioned access paths, must-hold branch facts (gates)"},
    {"name": "U-unitai", "path": "psa/unitai.py", "serves_properties": ["C02", "C05", "C06", "C09", "C10", "C11", "C12", "C14", "C15", "C18", "C19"], "kind_free_text": "abstract interpretation over scaled units of measure with symbolic SI prefixes and template strings"},
    {"name": "X-index", "path": "psa/idx.py", "serves_properties": ["C13"], "kind_free_text": "abstract interpretation over index conventions (1-based/0-based/exclusive stop, axis, source)"},
    {"name": "D-dep", "path": "psa/dep.py", "serves_properties": ["C01", "C03", "C09", "C11", "C15", "C17"], "kind_free_text": "signed data dependence on resolved expressions"},
    {"name": "O-effects", "path": "psa/effects.py", "serves_properties": ["C04", "C16", "C01"], "kind_free_text": "effect summaries / receiver mutation, freshness"},
]
CHECKS = {
    "C03": {"engine": "F-flow", "technique": "gate dominance with normalised conditions",
            "design_ref": "DESIGN.md section 4 C03",
            "text": "Static gate analysis: every object that can gain substance leaves its function only after a strict, rounded, same-object capacity gate raising ValueError; each unit branch of the transfer is gated by requested <= available; user amounts are sign-gated; solver unknowns are gated; refusals raise ValueError; bake only calls the gated operations. Decides presence, shape, strictness and exception type of every feasibility gate on all paths - not that the gates suffice for every reachable floating-point state.",
            "note": TB + "Structural necessary conditions only; numerical sufficiency of the gates is not decided."},
    "C06": {"engine": "U-unitai", "technique": "units abstract interpretation of the conversion table",
            "design_ref": "DESIGN.md section 4 C06",
            "text": "All 3 kinds x 4 x 4 cells of Unit.convert_from are interpreted with a symbolic amount and symbolic prefixes; each cell must yield exactly the target unit, the literal 0, or ValueError as the property specifies; wrappers, storage pair, factories and prefix table likewise. The space of cells is finite and enumerated completely; the factor of a cell is determined by its unit.",
            "note": TB + "Units of Substance attributes are taken from the class docstring / yaml comments. IEEE rounding is not decided."},
    "C13": {"engine": "X-index", "technique": "index-convention typing + definite assignment",
            "design_ref": "DESIGN.md section 4 C13",
            "text": "Every selector form of the documented grammar is pushed through Slicer.__init__ and its helpers on every path over an abstract domain of index kinds; accepted paths must produce (0-based start | open, exclusive stop | open) from the right selector component against the labels of its own axis, malformed forms must raise. Plate.__init__ label validation, default column labels and row-major layout are checked with the flow engine.",
            "note": TB + "numpy slicing semantics and row-major order are trusted; default row labels beyond 'Z' (base-26 arithmetic) are not decided."},
    "C14": {"engine": "U-unitai", "technique": "SI table + prefix-strip + direction typing",
            "design_ref": "DESIGN.md section 4 C14",
            "text": "parse_quantity and parse_concentration are interpreted over template strings with symbolic prefixes for every documented spelling; the value must come back in the base-unit ratio the spelling denotes; malformed shapes must raise ValueError; prefix table = SI; every prefix argument is a suffix-strip; capacity strings keep their unit.",
            "note": TB + "Arbitrary malformed strings beyond the enumerated shapes are not decided."},
    "C16": {"engine": "F-flow", "technique": "typestate: gate dominance over effect sets",
            "design_ref": "DESIGN.md section 4 C16",
            "text": "Effect sets of all public Recipe methods are inferred; every effect must be dominated by the locked gate (RuntimeError); locked is set only by bake after the all-used gate; operands must pass a declared-name gate; only uses() adds names; stage gates and bookkeeping; queries have empty effect sets. Exhaustive over methods and paths.",
            "note": TB + "Decides the lifecycle structure, not run-time call sequences (those follow from the gates)."},
    "C18": {"engine": "U-unitai", "technique": "parametricity in symbolic storage prefixes",
            "design_ref": "DESIGN.md section 4 C18",
            "text": "The prefixes of the two storage-unit settings stay symbolic in the units engine; every function touching stored values must type-check with them free, so the result holds for all settings at once: prefix-strips of the config strings, no literal unit labels on stored values, scale-free decisions, observer results free of the storage symbols.",
            "note": TB + "Agreement is within rounding to internal_precision (rounding happens in storage units)."},
}
_PENDING = "check under construction in this round (static rules designed in DESIGN.md section 4; not yet armed)"
NOT_APPLICABLE = [{"property_id": f"C{i:02d}", "reason": _PENDING} for i in range(1, 20) if f"C{i:02d}" not in CHECKS]

"""Obligations, known findings, evidence and violation files (formats: DESIGN.md appendix E)."""
from __future__ import annotations

import json
import os
import time

VERIF = os.path.dirname(os.path.dirname(os.path.abspath(__file__)))


class Ob:
    """One rule instance (obligation) and its verdict."""

    def __init__(self, rule, func, file, line, instance, ok, fact='', why='', key=None, nontrivial=True, extra=None):
        self.rule, self.func, self.file, self.line = rule, func, file, int(line or 0)
        self.instance, self.ok, self.fact, self.why = instance, bool(ok), fact, why
        self.key = key or instance
        self.nontrivial = nontrivial
        self.extra = extra or {}
        self.known = None           # filled by the runner: matching known-findings entry

    def sample(self):
        d = {'rule': self.rule, 'site': f"{self.file}:{self.line}", 'function': self.func, 'instance': self.instance,
             'derived': self.fact, 'verdict': 'ok' if self.ok else ('known-finding' if self.known else 'violation')}
        if not self.ok:
            d['why'] = self.why
        return d


class Ctx:
    """What a rule module gets: the model, memoised engines and an obligation sink."""

    def __init__(self, model, prop, tier='quick'):
        self.model, self.prop, self.tier = model, prop, tier
        self.obs: list[Ob] = []
        self.stats: dict = {}
        self.functions_analysed: set[str] = set()
        self._flows = {}
        self.notes: list[str] = []
        self.assumptions: list[str] = []

    def flow(self, qualname, **kw):
        from .flow import FuncFlow
        from .effects import mutating_call_oracle
        key = qualname
        if key not in self._flows or kw:
            fi = self.model.func(qualname)
            ff = FuncFlow(fi, self.model, is_mutating_call=mutating_call_oracle(self.model), **kw)
            if kw:
                return ff
            self._flows[key] = ff
        self.functions_analysed.add(qualname)
        return self._flows[key]

    def ob(self, rule, fi_or_name, line, instance, ok, fact='', why='', key=None, nontrivial=True, extra=None):
        if hasattr(fi_or_name, 'qualname'):
            func, file = fi_or_name.qualname, fi_or_name.mod.rel
        else:
            func = fi_or_name
            file = self._file_of(func)
        o = Ob(rule, func, file, line, instance, ok, fact, why, key, nontrivial, extra)
        self.obs.append(o)
        return o

    def _file_of(self, func):
        q = func
        while q:
            if q in self.model.funcs:
                return self.model.funcs[q].mod.rel
            if q in self.model.classes:
                return self.model.classes[q].mod.rel
            q = q.rpartition('.')[0]
        return 'pyplate/pyplate.py'

    def count(self, name, n=1):
        self.stats[name] = self.stats.get(name, 0) + n


def load_known():
    path = os.path.join(VERIF, 'known_findings.json')
    if not os.path.isfile(path):
        return []
    with open(path, encoding='utf-8') as fh:
        known = json.load(fh)
    # Regression runs of the checker against a refactoring that was written for an EARLIER commit of /repo analyse that
    # earlier tree (tools/rftest.py): findings that were still open there are named in PSA_OPEN_AT_BASE and treated as
    # known for that run only.  Registered commands never set this variable.
    open_at_base = {x for x in os.environ.get('PSA_OPEN_AT_BASE', '').split(',') if x}
    if open_at_base:
        known = [dict(k, status='known') if k.get('id') in open_at_base else k for k in known]
    return known


def match_known(ob: Ob, prop: str, known):
    for k in known:
        if k.get('status') != 'known':
            continue
        props = k.get('properties') or [k.get('property')]
        if prop not in props:
            continue
        if k.get('rule') != ob.rule:
            continue
        kk = k.get('key', {})
        if kk.get('function') == ob.func and kk.get('construct') == ob.key:
            return k
    return None


def write_violation(prop, n, ob: Ob):
    d = os.path.join(VERIF, 'out', prop)
    os.makedirs(d, exist_ok=True)
    path = os.path.join(d, f"v{n}.json")
    rec = {'property': prop, 'rule': ob.rule, 'file': ob.file, 'line': ob.line, 'function': ob.func,
           'instance': ob.instance, 'construct': ob.extra.get('construct', ob.instance), 'facts': ob.fact,
           'why': ob.why, 'key': {'function': ob.func, 'construct': ob.key}, 'extra': ob.extra}
    with open(path, 'w', encoding='utf-8') as fh:
        json.dump(rec, fh, indent=1, default=str)
    return path


def clear_violations(prop):
    d = os.path.join(VERIF, 'out', prop)
    if os.path.isdir(d):
        for f in os.listdir(d):
            if f.startswith('v') and f.endswith('.json'):
                try:
                    os.remove(os.path.join(d, f))
                except OSError:
                    pass        # another run of the same property removed it first


def write_evidence(prop, tier, seed, ctx: Ctx, explanation, wall_s, violations, known_count, extra_cov=None,
                   exhaustive=False, trusted_base=None):
    obs = ctx.obs
    rule_counts = {}
    for o in obs:
        rule_counts[o.rule] = rule_counts.get(o.rule, 0) + 1
    distinct = {(o.rule, o.func, o.key, o.instance) for o in obs if o.nontrivial}
    samples = []
    seen_rules = set()
    for o in obs:            # one sample per rule first, then every non-ok obligation
        if o.rule not in seen_rules:
            seen_rules.add(o.rule)
            samples.append(o.sample())
    for o in obs:
        if not o.ok:
            s = o.sample()
            if s not in samples:
                samples.append(s)
    cov = {
        'explanation': explanation,
        'exhaustive': bool(exhaustive),
        'obligations': len(obs),
        'discharged': sum(1 for o in obs if o.ok),
        'known_findings': known_count,
        'evaluations': len(obs),
        'distinct_nontrivial': len(distinct),
        'rule': 'one obligation per rule instance enumerated from the current sources (gate, store, call site, '
                'table cell, path); non-trivial = the verdict needed a dataflow / dominance / unit / freshness '
                'derivation, trivial = a constant-table or presence comparison',
        'samples': samples[:60],
        'functions_analysed': sorted(ctx.functions_analysed),
        'rule_instance_counts': rule_counts,
        'trusted_base': trusted_base or ['python ast (stdlib)', 'closed world: only pyplate/*.py define the classes',
                                          'documented behaviour of numpy.vectorize/frompyfunc, deepcopy/copy, round, sum'],
        'stats': ctx.stats,
    }
    if ctx.notes:
        cov['notes'] = ctx.notes
    if extra_cov:
        cov.update(extra_cov)
    ev = {'property_id': prop, 'tier': tier, 'seed': int(seed), 'level': 'other', 'coverage': cov,
          'assumptions': ['closed world (DESIGN 1.9): no subclassing/monkey-patching outside pyplate/*.py',
                          'static analysis of the source tree at run time; nothing is executed'] + ctx.assumptions,
          'wall_s': round(wall_s, 3), 'violations': int(violations)}
    d = os.path.join(VERIF, 'evidence')
    os.makedirs(d, exist_ok=True)
    with open(os.path.join(d, f"{prop}.json"), 'w', encoding='utf-8') as fh:
        json.dump(ev, fh, indent=1, default=str)
    return ev

"""Effect summaries (part of engine O): which attributes of its receiver a method writes, directly, through
in-place container methods, through property setters and transitively through self-calls.  Inferred from the
sources on every run - nothing is listed by hand."""
from __future__ import annotations

import ast

from .flow import MUTATOR_METHODS
from .model import walk_no_nested

_cache = {}


def _self_name(fi):
    if fi.cls is None or fi.is_static or fi.parent is not None:
        return None
    a = fi.node.args
    allp = a.posonlyargs + a.args
    return allp[0].arg if allp else None


def _root_attr(node, selfname):
    """If `node` is an access path rooted at self (self.a.b[c]...), return the first attribute name."""
    chain = []
    n = node
    while isinstance(n, (ast.Attribute, ast.Subscript, ast.Call)):
        if isinstance(n, ast.Attribute):
            chain.append(n.attr)
            n = n.value
        elif isinstance(n, ast.Subscript):
            n = n.value
        else:
            return None
    if isinstance(n, ast.Name) and n.id == selfname and chain:
        return chain[-1]
    return None


def _is_deep(node):
    """self.a.b = .. / self.a[k] = .. / self.a.append(..): written *through* attribute a (a itself keeps its binding)."""
    depth = 0
    n = node
    while isinstance(n, (ast.Attribute, ast.Subscript)):
        depth += 1
        n = n.value
    return depth > 1


def self_aliases(fi):
    """Local names that may denote the receiver (`x = self`, `x = self if .. else ..`)."""
    selfname = _self_name(fi)
    if selfname is None:
        return set()
    names = {selfname}
    changed = True
    while changed:
        changed = False
        for n in ast.walk(fi.node):
            if isinstance(n, ast.Assign) and len(n.targets) == 1 and isinstance(n.targets[0], ast.Name):
                v = n.value
                cands = [v.body, v.orelse] if isinstance(v, ast.IfExp) else [v]
                if any(isinstance(c, ast.Name) and c.id in names for c in cands) and n.targets[0].id not in names:
                    names.add(n.targets[0].id)
                    changed = True
    return names


def _root_attr_any(node, names):
    for nm in names:
        r = _root_attr(node, nm)
        if r is not None:
            return r
    return None


def direct_effects(fi, model):
    """Attributes of self written directly in the body of method `fi` (closures included)."""
    selfname = _self_name(fi)
    out = {}
    if selfname is None:
        return out
    aliases = self_aliases(fi)
    for n in ast.walk(fi.node):
        targets = []
        if isinstance(n, ast.Assign):
            targets = n.targets
        elif isinstance(n, (ast.AugAssign, ast.AnnAssign)):
            targets = [n.target] if getattr(n, 'value', True) is not None else []
        elif isinstance(n, ast.Delete):
            targets = n.targets
        flat = []
        for t in targets:
            flat.extend(t.elts if isinstance(t, (ast.Tuple, ast.List)) else [t])
        for t in flat:
            r = _root_attr_any(t, aliases)
            if r is not None:
                out.setdefault(r + ('*' if _is_deep(t) else ''), []).append(n)
        if isinstance(n, ast.Call) and isinstance(n.func, ast.Attribute) and n.func.attr in MUTATOR_METHODS:
            r = _root_attr_any(n.func.value, aliases)
            if r is not None:
                out.setdefault(r + '*', []).append(n)
    return out


def receiver_effects(model):
    """qualname -> set of receiver attributes the method may write (fixpoint over self-calls; an assignment to a
    property with a setter counts as the setter's effects)."""
    key = model.serial
    if key in _cache:
        return _cache[key]
    eff = {}
    methods = [f for f in model.funcs.values() if f.cls is not None and f.parent is None]
    for fi in methods:
        eff[fi.qualname] = set(direct_effects(fi, model))
    # property setters: `self.p = v` where p has a setter -> setter effects; reading property `p` that returns
    # self.a.b and mutating it in place -> effect on a
    prop_alias = {}
    for ci in model.classes.values():
        for name, m in ci.methods.items():
            if m.is_property:
                rets = [n for n in walk_no_nested(m.node) if isinstance(n, ast.Return) and n.value is not None]
                if len(rets) == 1:
                    r = _root_attr(rets[0].value, _self_name(m) or 'self')
                    if r is not None:
                        prop_alias[(ci.name, name)] = r
    changed = True
    while changed:
        changed = False
        for fi in methods:
            cur = eff[fi.qualname]
            add = set()
            selfname = _self_name(fi)
            if selfname is None:
                continue
            subclasses = [c.name for c in model.classes.values() if fi.cls in model.mro(c.name)]
            for a in [x.rstrip('*') for x in cur]:
                for cn in subclasses:
                    for ci in model.mro(cn):
                        if a in ci.setters:
                            add |= eff.get(ci.setters[a].qualname, set())
                    if (cn, a) in prop_alias:
                        add.add(prop_alias[(cn, a)] + '*')      # written *through* (the attribute itself is not re-bound)
            aliases = self_aliases(fi)
            for n in ast.walk(fi.node):
                if isinstance(n, ast.Call) and isinstance(n.func, ast.Attribute) and \
                        isinstance(n.func.value, ast.Name) and n.func.value.id in aliases:
                    for cn in subclasses:
                        callee = model.lookup_method(cn, n.func.attr)
                        if callee is not None and not callee.is_static:
                            add |= eff.get(callee.qualname, set())
            if not add <= cur:
                cur |= add
                changed = True
    _cache.clear()
    _cache[key] = eff
    return eff


def mutating_method_names(model):
    """Method names all of whose repo definitions mutate their receiver."""
    eff = receiver_effects(model)
    by_name = {}
    for q, e in eff.items():
        fi = model.funcs[q]
        if fi.is_static or fi.name.startswith('__') or fi.is_setter or fi.is_property:
            continue
        by_name.setdefault(fi.name, []).append(bool(e))
    return {n for n, flags in by_name.items() if all(flags)}


def mutating_call_oracle(model):
    names = mutating_method_names(model)
    eff = receiver_effects(model)

    def _rebinds(attrs):
        # starred = written through (kill what lies below the attribute, keep its binding): encoded as 'attr*'
        return frozenset(attrs)

    def oracle(call, flow):
        m = call.func.attr
        recv = call.func.value
        if isinstance(recv, ast.Name) and recv.id == 'self' and flow.fi.cls is not None:
            callee = model.lookup_method(flow.fi.cls.name, m)
            if callee is not None:
                e = eff.get(callee.qualname, ())
                return (_rebinds(e) or True) if e else False
        if m in names:
            out = set()
            for cand in model.methods_named(m):
                out |= eff.get(cand.qualname, set())
            return _rebinds(out) or True
        return False
    return oracle

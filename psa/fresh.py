"""Engine O: freshness / ownership of every mutation (C04, C01.R4, C07.R1).

Every mutation event (attribute / subscript / augmented store, in-place container method, call of a
receiver-mutating repo method, write through a numpy view, and the same inside closures analysed at their registration
sites) is classified by what its target object is, derived from the resolved definition of the target (flow engine):

  FRESH   created in this activation by a value-class constructor, deepcopy, or a public operation
  LOCAL   list / dict / set / ndarray / DataFrame built here
  OWNED   a direct container field of the Recipe / RecipeStep builder reached from self (or from a step of self.steps)
  SHELL   result of copy() or PlateSlicer(..): a new object whose fields alias the original's
  CACHED  value returned by an @cache'd method (shared between callers)
  ARG     a parameter, anything reachable from one, module state, results of unknown calls

A mutation is allowed on FRESH / LOCAL / OWNED and on a *direct field* of a SHELL."""
from __future__ import annotations

import ast

from .effects import receiver_effects
from .flow import (FuncFlow, Ref, Param, LoopVar, Elt, Phi, Acc, Sym, Free, Unknown, FuncRef, MUTATOR_METHODS, pathkey,
                   strip_refs, show, root_of)
from .model import AnalysisError, unparse, walk_no_nested

FRESH, LOCAL, OWNED, SHELL, CACHED, ARG = 'FRESH', 'LOCAL', 'OWNED', 'SHELL', 'CACHED', 'ARG'
WRITABLE = {FRESH, LOCAL, OWNED}
VALUE_CLASSES = ('Substance', 'Container', 'Plate', 'PlateSlicer', 'Slicer')
BUILDER_CLASSES = ('Recipe', 'RecipeStep')
FRESH_OPS = {'transfer', '_transfer', '_transfer_slice', 'create_solution', 'create_solution_from', '_add', 'remove',
             'dilute', 'fill_to', 'solid', 'liquid', 'enzyme'}
LOCAL_FUNCS = {'list', 'dict', 'set', 'sorted', 'tuple', 'zip', 'map', 'enumerate', 'range', 'reversed', 'frozenset',
               'filter', 'str', 'int', 'float', 'round', 'sum', 'len', 'max', 'min', 'abs', 'any', 'all', 'bool'}
LOCAL_METHODS = {'splitlines', 'split', 'items', 'keys', 'values', 'flatten', 'join', 'replace', 'strip', 'format',
                 'round', 'tolist', 'to_html', 'lower', 'upper'}


class Abs(Sym):
    """A closure parameter bound to 'an element of an array whose owner has class cls'."""

    def __init__(self, cls, name, why):
        self.cls, self.name, self.why = cls, name, why


class Event:
    def __init__(self, fi, node, desc, cls, ok, why, target_text, kind):
        self.fi, self.node, self.desc, self.cls, self.ok, self.why = fi, node, desc, cls, ok, why
        self.target_text, self.kind = target_text, kind
        self.line = getattr(node, 'lineno', 0)


def _rank(c):
    return {ARG: 0, CACHED: 0, SHELL: 1, OWNED: 2, LOCAL: 3, FRESH: 4}[c]


def _min(a, b):
    return a if _rank(a) <= _rank(b) else b


def _src(e):
    """Source text of a (possibly resolved) test expression."""
    e = getattr(e, 'orig', e)
    try:
        return ast.unparse(e)
    except Exception:
        try:
            return show(e, 200)
        except Exception:
            return ''


class Fresh:
    def __init__(self, model, oracle=None):
        self.model = model
        self.eff = {k: {a.rstrip('*') for a in v} for k, v in receiver_effects(model).items()}
        self.oracle = oracle
        self.value_attrs = set()
        for c in VALUE_CLASSES:
            if c in model.classes:
                self.value_attrs |= model.instance_attrs(c)
        self.cached_methods = {f.name for f in model.funcs.values() if f.is_cached and f.cls is not None}
        self.summaries = {}           # qualname -> receiver attrs written (methods allowed as mutators)
        self.stats = {'events': 0, 'closures': 0, 'functions': 0}

    # ------------------------------------------------------------------ classification
    def field_state(self, base_key, field, state):
        """Resolved value of `<base_key>.<field>` in `state`, if the path was assigned."""
        if base_key is None:
            return None
        return state.env.get(f"{base_key}.{field}")

    def classify(self, e, state, ff, depth=0):
        """(class, explanation) of the object denoted by resolved expression e."""
        if depth > 40:
            return ARG, 'too deep'
        if isinstance(e, Abs):
            return e.cls, e.why
        if isinstance(e, Ref):
            return self.classify(e.value, self._state_of(e, ff, state), ff, depth + 1)
        if isinstance(e, Param):
            fi = e.func
            if fi is not None and e.name == _selfname(fi):
                if fi.name == '__init__':
                    return FRESH, 'object under construction'
                if fi.cls is not None and fi.cls.name in BUILDER_CLASSES:
                    return OWNED, 'builder object'
            return ARG, f"parameter {e.name}"
        if isinstance(e, Phi):
            best = None
            for o in e.options:
                if isinstance(o, Unknown):
                    continue
                c, w = self.classify(o, state, ff, depth + 1)
                if best is None or _rank(c) < _rank(best[0]):
                    best = (c, w)
            return best or (ARG, 'unknown')
        if isinstance(e, Elt):
            c, w = self.classify(e.value, state, ff, depth + 1)
            return (FRESH if c == FRESH else c), w
        if isinstance(e, LoopVar):
            c, w = self.classify(e.iter, state, ff, depth + 1)
            if c == LOCAL:
                return self.element_class(e.iter, state, ff, depth)
            if c == OWNED:
                # elements of a builder container: the steps of a recipe are builder objects themselves
                if self._is_steps(e.iter):
                    return OWNED, 'step of self.steps'
                return ARG, 'element of a builder container (may be a user object)'
            return c, w
        if isinstance(e, Acc):
            return LOCAL, 'accumulator'
        if isinstance(e, (Free, Unknown, FuncRef)):
            return ARG, 'unresolved'
        if isinstance(e, ast.Call):
            return self.classify_call(e, state, ff, depth)
        if isinstance(e, ast.Attribute):
            bc, bw = self.classify(e.value, state, ff, depth + 1)
            if bc == SHELL and e.attr == '__dict__':
                return LOCAL, 'the attribute dictionary of a shallow copy is its own (copy() copies it)'
            if bc == SHELL:
                return ARG, f"field .{e.attr} of a shallow copy still aliases the original"
            if bc == OWNED:
                # direct container fields of the builder are owned; what they hold is not
                root = strip_refs(e.value)
                if isinstance(root, (Param, LoopVar)) or (isinstance(e.value, Ref)):
                    return OWNED, f"builder field .{e.attr}"
                return ARG, f".{e.attr} reached through a builder container"
            return bc, bw
        if isinstance(e, ast.Subscript):
            bc, bw = self.classify(e.value, state, ff, depth + 1)
            if bc == LOCAL:
                return self.element_class(e.value, state, ff, depth)
            if bc == OWNED:
                if self._is_steps(e.value):
                    return OWNED, 'step of self.steps'
                return ARG, 'element of a builder container (may be a user object)'
            return bc, bw
        if isinstance(e, (ast.List, ast.Dict, ast.Set, ast.ListComp, ast.DictComp, ast.SetComp, ast.GeneratorExp,
                          ast.Tuple, ast.JoinedStr, ast.Constant, ast.BinOp, ast.Compare, ast.BoolOp, ast.UnaryOp)):
            return LOCAL, 'literal / computed value'
        if isinstance(e, ast.IfExp):
            a, aw = self.classify(e.body, state, ff, depth + 1)
            b, bw = self.classify(e.orelse, state, ff, depth + 1)
            return (a, aw) if _rank(a) <= _rank(b) else (b, bw)
        if isinstance(e, ast.Name):
            if e.id in ('numpy', 'np', 'pandas'):
                return LOCAL, 'module'
            return ARG, f"global {e.id}"
        return ARG, 'unknown expression'

    @staticmethod
    def _is_steps(e):
        e = strip_refs(e)
        while isinstance(e, ast.Subscript):
            e = strip_refs(e.value)
        return isinstance(e, ast.Attribute) and e.attr == 'steps'

    def _state_of(self, ref, ff, default):
        return default

    def element_class(self, container, state, ff, depth):
        """Class of the elements of a LOCAL container when they are known (`[to]`, tuple of fresh results)."""
        c = strip_refs(container)
        if isinstance(c, (ast.List, ast.Tuple)) and c.elts:
            best = None
            for x in c.elts:
                k, w = self.classify(x, state, ff, depth + 1)
                if best is None or _rank(k) < _rank(best[0]):
                    best = (k, w)
            return best
        if isinstance(c, ast.Call):
            k, w = self.classify(c, state, ff, depth + 1)
            return k, w
        return ARG, 'element of a local container of unknown content'

    def classify_call(self, c, state, ff, depth):
        f = c.func
        if isinstance(f, ast.Name):
            if f.id == 'deepcopy':
                return FRESH, 'deepcopy'
            if f.id == 'copy':
                return SHELL, 'copy() - a shallow copy'
            if f.id in ('Container', 'Plate', 'Substance', 'Recipe', 'RecipeStep'):
                return FRESH, f"new {f.id}"
            if f.id in ('PlateSlicer', 'Slicer'):
                return SHELL, f"{f.id}(..) refers to the plate it was made from"
            if f.id in LOCAL_FUNCS or f.id in ('defaultdict', 'OrderedDict', 'Counter', 'deque', 'namedtuple'):
                return LOCAL, f.id
            if f.id in self.model.classes:
                return FRESH, f"new {f.id}"            # any class of the library: its constructor makes a new object
            return ARG, f"result of {f.id}()"
        if isinstance(f, ast.Attribute):
            base = f.value
            if isinstance(base, ast.Name) and base.id in ('numpy', 'np', 'pandas'):
                return LOCAL, 'numpy/pandas value'
            if isinstance(base, ast.Attribute) and isinstance(base.value, ast.Name) and base.value.id in ('numpy', 'np', 'pandas'):
                return LOCAL, 'numpy/pandas value'
            if isinstance(base, ast.Name) and base.id in ('dict', 'list', 'set', 'tuple', 'str', 'frozenset', 'collections'):
                return LOCAL, f"{base.id}.{f.attr}()"          # dict.fromkeys(..), collections.defaultdict(..)
            made = self.returns_new_object(f.attr, base)
            if made:
                return FRESH, made
            if f.attr in self.cached_methods:
                return CACHED, f"value returned by the cached method {f.attr}()"
            if f.attr in FRESH_OPS:
                rc, rw = (None, None)
                if not (isinstance(base, ast.Name) and base.id in self.model.classes):
                    rc, rw = self.classify(base, state, ff, depth + 1)
                if rc == OWNED and isinstance(strip_refs(base), Param):
                    return ARG, f"result of builder method {f.attr}"
                return FRESH, f"result of the operation {f.attr}()"
            if f.attr == 'get' and len(c.args) == 0:
                # slicer.get(): a view of slicer.plate.wells
                return self.plate_class(base, state, ff, depth)
            if f.attr == '__getitem__' or (f.attr == 'get' and c.args):
                return self.classify(base, state, ff, depth + 1)
            if f.attr in LOCAL_METHODS or f.attr in ('copy',):
                return LOCAL, f".{f.attr}()"
            if f.attr in ('get_dataframe', 'dataframe', 'applymap', 'apply'):
                return LOCAL, 'dataframe'
            rc, rw = self.classify(base, state, ff, depth + 1)
            return (ARG, f"result of .{f.attr}()") if rc != LOCAL else (LOCAL, rw)
        return ARG, 'result of a call'

    def returns_new_object(self, mname, base):
        """A factory of the library: every method of that name returns a constructor call of a library class (possibly
        through a local that was assigned one), e.g. a classmethod `for_solutes(cls, ..): return cls(..)`."""
        if mname in FRESH_OPS or mname.startswith('__'):
            return None
        cands = self.model.methods_named(mname)
        if not cands:
            return None
        for m in cands:
            rets = [r for r in walk_no_nested(m.node) if isinstance(r, ast.Return)]
            if not rets:
                return None
            for r in rets:
                v = r.value
                if isinstance(v, ast.Name):
                    defs = [a.value for a in walk_no_nested(m.node) if isinstance(a, ast.Assign) and len(a.targets) == 1
                            and isinstance(a.targets[0], ast.Name) and a.targets[0].id == v.id]
                    if len(defs) != 1:
                        return None
                    v = defs[0]
                if not (isinstance(v, ast.Call) and isinstance(v.func, ast.Name) and
                        (v.func.id in self.model.classes or v.func.id == 'cls')):
                    return None
        return f"result of the factory {mname}()"

    def plate_class(self, slicer_expr, state, ff, depth=0):
        """Class of `<slicer>.plate` at `state` (the object whose wells a view / apply / set writes)."""
        key = pathkey(slicer_expr)
        v = self.field_state(key, 'plate', state)
        if v is None:
            # `x = y` (an alias, e.g. the result variable of an expanded helper): the field was set through y
            r = slicer_expr if isinstance(slicer_expr, Ref) else state.env.get(key) if key else None
            hops = 0
            while isinstance(r, Ref) and hops < 10 and v is None:
                v = self.field_state(r.name, 'plate', state)
                if v is not None:
                    key = r.name
                r = r.value if isinstance(r.value, Ref) else None
                hops += 1
        if v is not None:
            c, w = self.classify(v, state, ff, depth + 1)
            return c, f"{key}.plate = {show(v, 50)}: {w}"
        c, w = self.classify(slicer_expr, state, ff, depth + 1)
        if c == SHELL:
            return ARG, f"{show(slicer_expr, 40)} is a shallow copy whose .plate is still the original plate"
        return c, w

    # ------------------------------------------------------------------ events
    def analyse(self, fi, outer_state=None, param_values=None, label=None):
        """All mutation events of function fi (and of the closures it registers)."""
        ff = FuncFlow(fi, self.model, outer_state=outer_state, param_values=param_values, is_mutating_call=self.oracle)
        self.stats['functions' if outer_state is None else 'closures'] += 1
        events = []
        name = label or fi.qualname

        def add(node, desc, cls, ok, why, text, kind):
            self.stats['events'] += 1
            events.append(Event(fi, node, desc, cls, ok, why, text, kind))

        for stmt, target, key, value, before, rt in ff.stores:
            base = rt.value
            cls, why = self.classify(base, before, ff)
            direct_shell_field = cls == SHELL and isinstance(rt, ast.Attribute)
            ok = cls in WRITABLE or direct_shell_field
            text = key or unparse(target)
            add(stmt, f"store to {text}", cls, ok, why, text, 'store')
        for call, stmt, before in ff.calls:
            f = call.func
            if not isinstance(f, ast.Attribute):
                continue
            recv = f.value
            if f.attr in MUTATOR_METHODS:
                if isinstance(recv, ast.Name) and recv.id in ('numpy', 'np', 'pandas'):
                    continue
                cls, why = self.classify(recv, before, ff)
                text = f"{show(recv, 60)}.{f.attr}()"
                add(stmt, f"in-place {text}", cls, cls in WRITABLE, why, text, 'mutcall')
                continue
            if f.attr == '__init__' and isinstance(recv, ast.Call) and getattr(recv.func, 'id', '') == 'super':
                continue        # base-class constructor running on the object under construction
            wr = self.receiver_writes(call, ff)
            if wr:
                wr = {a.rstrip('*') for a in wr}
                if 'array' in wr or 'plate' in wr or wr == {'wells'}:
                    cls, why = self.plate_class(recv, before, ff)
                    text = f"{show(recv, 60)}.{f.attr}() writes {show(recv, 40)}.plate.wells"
                else:
                    cls, why = self.classify(recv, before, ff)
                    text = f"{show(recv, 60)}.{f.attr}() mutates its receiver"
                add(stmt, text, cls, cls in WRITABLE, why, text, 'recvcall')
        # augmented assignment to a name / attribute / item mutates in place when the value is a set / list / dict: `s |= other`
        # on the set a cached method returned changes what every later caller of that method gets
        import copy as _copy
        for stmt in walk_no_nested(fi.node):
            if isinstance(stmt, ast.AugAssign) and isinstance(stmt.target, (ast.Name, ast.Attribute, ast.Subscript)) and \
                    id(stmt) in ff.pre and \
                    isinstance(stmt.op, (ast.BitOr, ast.BitAnd, ast.BitXor, ast.Sub, ast.Add, ast.Mult)):
                before = ff.pre[id(stmt)]
                load = _copy.copy(stmt.target)
                load.ctx = ast.Load()
                cur = ff.resolve(load, before)
                cls, why = self.classify(cur, before, ff)
                if cls == CACHED:
                    text = f"{show(stmt.target, 40)} {type(stmt.op).__name__}= .."
                    add(stmt, f"in-place {text}", cls, False, why, text, 'mutcall')
                elif cls not in WRITABLE and isinstance(stmt.op, (ast.Mult, ast.Add)) and isinstance(stmt.target, ast.Name) and \
                        any((f"len({stmt.target.id})" in _src(f_.test)) or (f"isinstance({stmt.target.id}, list" in _src(f_.test))
                            for f_ in before.facts.values()):
                    # the branch is taken for a sized collection (its len() was tested): `x *= n` / `x += y` repeats or
                    # extends that list in place - the caller's list, when x is a parameter
                    text = f"{stmt.target.id} {type(stmt.op).__name__}= {show(stmt.value, 30)}"
                    add(stmt, f"in-place {text}", cls, False, why, text, 'mutcall')
                elif cls not in WRITABLE and isinstance(stmt.op, (ast.Add, ast.BitOr)) and \
                        isinstance(stmt.value, (ast.List, ast.ListComp, ast.Set, ast.SetComp, ast.Dict, ast.DictComp, ast.Tuple)) and \
                        not isinstance(stmt.value, ast.Tuple):
                    # `x += [..]` / `x |= {..}` extends the object x names in place: with x an alias of a parameter the
                    # caller's list grows (`substances = solute; substances += [solvent]`)
                    text = f"{show(stmt.target, 40)} {type(stmt.op).__name__}= {show(stmt.value, 30)}"
                    add(stmt, f"in-place {text}", cls, False, why, text, 'mutcall')
        # closures at their registration sites
        for call, stmt, before in ff.registrations:
            for a in list(call.args) + [k.value for k in call.keywords]:
                if not isinstance(a, FuncRef):
                    continue
                sub = self.model.func_of_node.get(id(a.node))
                if sub is None:
                    continue
                elem_cls, elem_why = self.registration_element_class(call, before, ff)
                pv = {}
                if not isinstance(sub.node, ast.Lambda):
                    for x in sub.node.args.args:
                        pv[x.arg] = Abs(elem_cls, x.arg, elem_why)
                events.extend(self.analyse(sub, outer_state=before, param_values=pv,
                                           label=f"{name}.{sub.name}@{getattr(stmt, 'lineno', 0)}"))
        # lambdas passed inline
        for call, stmt, before in ff.calls:
            for a in list(call.args):
                if isinstance(a, ast.Lambda):
                    pass    # lambdas in this code base only read (checked by the effect scan of the model)
        return events

    def receiver_writes(self, call, ff):
        """Receiver attributes a repo method call may write (empty set if it does not mutate its receiver)."""
        f = call.func
        name = f.attr
        recv = f.value
        cands = []
        if isinstance(recv, Param) and recv.func is not None and recv.name == _selfname(recv.func) and recv.func.cls:
            m = self.model.lookup_method(recv.func.cls.name, name)
            if m is not None:
                cands = [m]
        if not cands:
            cands = [m for m in self.model.methods_named(name) if not m.is_static]
            if isinstance(recv, ast.Name) and recv.id in self.model.classes:
                return set()
            # names shared with builtins / numpy / pandas are resolved only through a known receiver
            if name in ('get', 'copy', 'set', 'apply', 'remove', 'index', 'transfer', 'dataframe', 'fill_to', 'dilute'):
                cands = [m for m in cands if self._receiver_may_be(recv, m.cls.name, ff)]
        out = set()
        for m in cands:
            out |= self.eff.get(m.qualname, set())
        return out

    def _receiver_may_be(self, recv, clsname, ff):
        r = strip_refs(recv)
        if isinstance(r, ast.Call) and isinstance(r.func, ast.Name):
            if r.func.id in ('copy', 'deepcopy') and r.args:
                return self._receiver_may_be(r.args[0], clsname, ff)
            return r.func.id == clsname or (clsname == 'Slicer' and r.func.id == 'PlateSlicer')
        if isinstance(r, Param) and r.func is not None:
            ann = r.func.annotation(r.name) or ''
            if r.name == _selfname(r.func) and r.func.cls is not None:
                return clsname in [c.name for c in self.model.mro(r.func.cls.name)]
            return clsname in ann or (clsname == 'Slicer' and 'PlateSlicer' in ann)
        if isinstance(r, ast.Subscript):
            # plate[...] -> PlateSlicer
            return clsname in ('PlateSlicer', 'Slicer') and self._receiver_may_be(r.value, 'Plate', ff)
        if isinstance(r, Phi):
            return any(self._receiver_may_be(o, clsname, ff) for o in r.options)
        return False

    def registration_element_class(self, call, state, ff):
        """Class of the elements a registered closure is applied to."""
        f = call.func
        if isinstance(f, ast.Attribute) and f.attr in ('apply', 'applymap', 'map'):
            recv = f.value
            if self._receiver_may_be(recv, 'Slicer', ff) or pathkey(recv) is not None and \
                    self.field_state(pathkey(recv), 'plate', state) is not None:
                return self.plate_class(recv, state, ff)
            return LOCAL, 'elements of a local dataframe/array'
        # numpy.vectorize(f) / numpy.frompyfunc(f, ..): applied later to arrays; elements are wells of whatever plate
        # the array views - conservatively the weakest class of any slicer view in scope
        worst = (FRESH, 'no array in scope')
        for k, v in state.env.items():
            if '.' in k or '[' in k:
                continue
            sv = strip_refs(v)
            if isinstance(sv, ast.Call) and isinstance(sv.func, ast.Attribute) and sv.func.attr == 'get' and not sv.args:
                c, w = self.plate_class(sv.func.value, state, ff)
                if _rank(c) < _rank(worst[0]):
                    worst = (c, w)
        for k, v in state.env.items():
            if k.endswith('.plate'):
                c, w = self.classify(v, state, ff)
                if _rank(c) < _rank(worst[0]):
                    worst = (c, f"{k}: {w}")
        return worst


def _selfname(fi):
    top = fi
    while top.parent is not None:
        top = top.parent
    if top.cls is None or top.is_static:
        return None
    a = top.node.args
    allp = a.posonlyargs + a.args
    return allp[0].arg if allp else None

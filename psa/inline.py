"""Helper inlining (part of engine M): a source-level, semantics-preserving expansion of calls to *private helpers*
so that every rule sees through "extract method" refactorings.

What is expanded (bound: same module, no recursion):
  * calls `self._h(..)`, `Cls._h(..)`, `obj._h(..)` of private (single underscore) methods and module functions that
    are not anchors of the rules (the test-pinned primitives `_transfer`, `_self_add`, `_add`, `_transfer_slice` stay
    calls: the rules treat them as operations);
  * direct calls of closures (`def` nested in the calling function).
How:
  * a helper whose body is a single `return <expr>` is substituted as an expression wherever it is called;
  * any other helper is expanded at statement level: parameters are substituted by simple argument expressions (or
    bound to fresh locals), locals are renamed apart, and `return e` is lowered to an assignment to a fresh result
    variable - early returns (guard clauses) are lowered by moving the rest of the block into the fall-through arm.
    A call is hoisted in front of its statement only from positions that are evaluated unconditionally; calls under
    `and/or`, conditional expressions, comprehensions, lambdas and `while` tests are left alone;
  * returns inside loops, `with` or non-final `try` blocks, *args/**kwargs, decorators other than staticmethod,
    generators, recursion: the call is left as it is (the rules then see a call, as before).
Helpers with no remaining reference after expansion are removed from the tree (dead code), so that no rule analyses
them out of context.  Copied statements keep the line numbers of the helper, which are lines of the same file."""
from __future__ import annotations

import ast
import copy
import itertools

ANCHORS = {'_transfer', '_self_add', '_add', '_transfer_slice', '_repr_html_'}


class NotInlinable(Exception):
    pass


# The method and function names of the library at the pinned version: its API surface (public methods, and the private
# names the tests or the rules use as operations).  A function whose name is NOT in this table is a helper introduced by
# a later change, whatever it is called, and is expanded like a private helper.
API_NAMES = frozenset("""_add _get_slice_string _process_sub_slice _repr_html_ _self_add _transfer _transfer_slice
add_experiment apply array bake calculate_concentration_ratio check_well convert convert_from convert_from_storage
convert_from_storage_to_standard_format convert_prefix_to_multiplier convert_to_storage copy create_container
create_solution create_solution_from dataframe dilute end_stage enzyme fill_to filter_experiments generate_experiments
get get_amount_remaining get_concentration get_container_flows get_dataframe get_factor get_human_readable_unit
get_level_factory get_moles get_substance_used get_substances get_volume get_volumes has_liquid highlight_wells
is_enzyme is_liquid is_solid liquid map_container map_experiments name parse_concentration parse_quantity parse_single
parse_slice parse_tuple register_factor remove resolve_labels set shape size solid start_stage transfer uses
visualize""".split())


def _is_private(name):
    """Eligible for expansion: a private helper that is not a rule anchor, or any function that is not part of the
    API surface of the pinned version."""
    if name.startswith('__'):
        return False
    if name in ANCHORS:
        return False
    return name.startswith('_') or name not in API_NAMES


def _walk_no_defs(node):
    """Walk without entering nested function definitions / lambdas (the root itself is entered)."""
    todo = list(ast.iter_child_nodes(node))
    while todo:
        n = todo.pop()
        yield n
        if not isinstance(n, (ast.FunctionDef, ast.AsyncFunctionDef, ast.Lambda)):
            todo.extend(ast.iter_child_nodes(n))


def _has_return(node):
    if isinstance(node, ast.Return):
        return True
    if isinstance(node, (ast.FunctionDef, ast.AsyncFunctionDef, ast.Lambda)):
        return False
    return any(isinstance(n, ast.Return) for n in _walk_no_defs(node))


def _simple(e):
    if isinstance(e, (ast.Name, ast.Constant)):
        return True
    if isinstance(e, ast.Attribute):
        return _simple(e.value)
    if isinstance(e, ast.Subscript):
        return _simple(e.value) and _simple(e.slice)
    if isinstance(e, ast.UnaryOp) and isinstance(e.op, ast.USub):
        return _simple(e.operand)
    return False


def _bound_names(fn):
    """Names bound in the body of `fn` itself (not in nested functions), minus nonlocal/global declarations."""
    bound, declared = set(), set()
    for n in _walk_no_defs(fn):
        if isinstance(n, ast.Name) and isinstance(n.ctx, (ast.Store, ast.Del)):
            bound.add(n.id)
        elif isinstance(n, (ast.FunctionDef, ast.AsyncFunctionDef, ast.ClassDef)):
            bound.add(n.name)
        elif isinstance(n, ast.ExceptHandler) and n.name:
            bound.add(n.name)
        elif isinstance(n, (ast.Import, ast.ImportFrom)):
            for a in n.names:
                bound.add((a.asname or a.name).split('.')[0])
        elif isinstance(n, (ast.Nonlocal, ast.Global)):
            declared |= set(n.names)
        elif isinstance(n, ast.NamedExpr) and isinstance(n.target, ast.Name):
            bound.add(n.target.id)
    return bound - declared, declared


class _Subst(ast.NodeTransformer):
    def __init__(self, rename, subst):
        self.rename, self.subst = rename, subst

    def visit_Name(self, n):
        if n.id in self.subst and isinstance(n.ctx, ast.Load):
            return ast.copy_location(copy.deepcopy(self.subst[n.id]), n)
        if n.id in self.rename:
            return ast.copy_location(ast.Name(self.rename[n.id], n.ctx), n)
        return n

    def visit_FunctionDef(self, n):
        if n.name in self.rename:
            n.name = self.rename[n.name]
        self.generic_visit(n)
        return n

    def visit_ExceptHandler(self, n):
        if n.name and n.name in self.rename:
            n.name = self.rename[n.name]
        self.generic_visit(n)
        return n

    def visit_Nonlocal(self, n):
        return None

    def visit_Global(self, n):
        return None


class Inliner:
    def __init__(self, tree, other_sources=()):
        self.tree = tree
        self.other_sources = list(other_sources)
        self.counter = itertools.count(1)
        self.classes = {c.name: c for c in tree.body if isinstance(c, ast.ClassDef)}
        self.methods = {}      # (class, name) -> FunctionDef
        self.by_name = {}      # name -> [(class|None, FunctionDef)]
        for c in self.classes.values():
            for m in c.body:
                if isinstance(m, ast.FunctionDef):
                    self.methods[(c.name, m.name)] = m
                    self.by_name.setdefault(m.name, []).append((c.name, m))
        for f in tree.body:
            if isinstance(f, ast.FunctionDef):
                self.by_name.setdefault(f.name, []).append((None, f))
        self.done = set()
        self.in_progress = set()
        self.stats = {'expanded': 0, 'left': []}
        self.expanded_callees = set()
        self.lowered_tables = set()          # dict literals whose calls were lowered to if-chains

    # ------------------------------------------------------------------ driver
    def expand_decorators(self):
        """`@deco` where deco is `def deco(m): [@wraps(m)] def w(self, *a, **k): <prefix>; return m(self, *a, **k); return w`:
        the prefix statements become the first statements of the decorated method."""
        decos = {}
        for f in self.tree.body:
            if not isinstance(f, ast.FunctionDef) or len(f.args.args) != 1:
                continue
            m = f.args.args[0].arg
            body = [x for x in f.body if not (isinstance(x, ast.Expr) and isinstance(x.value, ast.Constant))]
            if len(body) != 2 or not isinstance(body[0], ast.FunctionDef) or not isinstance(body[1], ast.Return) or \
                    not (isinstance(body[1].value, ast.Name) and body[1].value.id == body[0].name):
                continue
            w = body[0]
            wa = w.args
            if not (len(wa.args) == 1 and wa.vararg and wa.kwarg and not wa.kwonlyargs):
                continue
            wbody = [x for x in w.body if not (isinstance(x, ast.Expr) and isinstance(x.value, ast.Constant))]
            last = wbody[-1] if wbody else None
            ok = isinstance(last, ast.Return) and isinstance(last.value, ast.Call) and isinstance(last.value.func, ast.Name) \
                and last.value.func.id == m and len(last.value.args) == 2 and isinstance(last.value.args[0], ast.Name) \
                and last.value.args[0].id == wa.args[0].arg and isinstance(last.value.args[1], ast.Starred) \
                and len(last.value.keywords) == 1 and last.value.keywords[0].arg is None
            prefix = wbody[:-1]
            names = {n.id for x in prefix for n in ast.walk(x) if isinstance(n, ast.Name)}
            if not ok or names & {wa.vararg.arg, wa.kwarg.arg, m} or any(_has_return(x) for x in prefix):
                continue
            decos[f.name] = (wa.args[0].arg, prefix)
        if not decos:
            return
        n = 0
        for c in self.classes.values():
            for fn in c.body:
                if not isinstance(fn, ast.FunctionDef):
                    continue
                keep = []
                for d in fn.decorator_list:
                    if isinstance(d, ast.Name) and d.id in decos and fn.args.args:
                        selfname, prefix = decos[d.id]
                        new = [_Subst({}, {selfname: ast.Name(fn.args.args[0].arg, ast.Load())}).visit(copy.deepcopy(x))
                               for x in prefix]
                        doc = 1 if fn.body and isinstance(fn.body[0], ast.Expr) and isinstance(fn.body[0].value, ast.Constant) else 0
                        fn.body[doc:doc] = new
                        n += 1
                    else:
                        keep.append(d)
                fn.decorator_list = keep
        self.stats['decorators_expanded'] = n

    def run(self):
        self.expand_decorators()
        for c in self.classes.values():
            for m in list(c.body):
                if isinstance(m, ast.FunctionDef):
                    self.expand_function(m, c.name)
        for f in list(self.tree.body):
            if isinstance(f, ast.FunctionDef):
                self.expand_function(f, None)
        self.remove_dead()
        ast.fix_missing_locations(self.tree)
        return self.stats

    def expand_function(self, fn, cls, closures=None, selfname=None):
        if id(fn) in self.done or id(fn) in self.in_progress:
            return
        self.in_progress.add(id(fn))
        try:
            ctx = {'fn': fn, 'cls': cls, 'closures': dict(closures or {}),
                   'selfname': self._selfname(fn, cls) if closures is None else selfname}
            fn.body = self.block(fn.body, ctx)
        finally:
            self.in_progress.discard(id(fn))
            self.done.add(id(fn))

    @staticmethod
    def _selfname(fn, cls):
        if cls is None:
            return None
        decos = {ast.unparse(d) for d in fn.decorator_list}
        if 'staticmethod' in decos or 'classmethod' in decos:
            return None
        a = fn.args.posonlyargs + fn.args.args
        return a[0].arg if a else None

    # ------------------------------------------------------------------ statements
    def block(self, stmts, ctx):
        ctx = dict(ctx, gated=set(ctx.get('gated', ())))     # membership gates hold for the rest of this block only
        stmts = self._sink_method_values(stmts, ctx)
        out = []
        for s in stmts:
            out.extend(self.stmt(s, ctx))
        return out or [ast.Pass()]

    def stmt(self, s, ctx):
        if isinstance(s, (ast.FunctionDef, ast.AsyncFunctionDef)):
            # a closure: expand its own body first (it sees the closures defined so far), then make it callable
            shadow = {x.arg for x in s.args.posonlyargs + s.args.args + s.args.kwonlyargs}
            inner = {k_: v_ for k_, v_ in ctx['closures'].items() if k_ not in shadow}
            self.expand_function(s, ctx['cls'], closures=inner,
                                 selfname=ctx['selfname'] if ctx['selfname'] not in shadow else None)
            ctx['closures'][s.name] = s
            return [s]
        if isinstance(s, ast.ClassDef):
            return [s]
        if isinstance(s, ast.Assign) and len(s.targets) == 1 and isinstance(s.value, ast.BinOp) and \
                isinstance(s.value.op, (ast.Add, ast.Sub)) and isinstance(s.targets[0], (ast.Name, ast.Attribute, ast.Subscript)):
            # `x = x + e` is `x += e` for numbers and strings: one spelling for accumulation.  Not for displays
            # on the right: `x = x + [a]` builds a new list where `x += [a]` extends the old one.
            tgt = ast.unparse(s.targets[0])
            l_, r_ = s.value.left, s.value.right
            other = None
            if ast.unparse(l_) == tgt:
                other = r_          # (not `x = e + x`: for strings that is a prefix, `x += e` would be a suffix)
            if other is not None and not isinstance(other, (ast.List, ast.Tuple, ast.Set, ast.Dict, ast.ListComp, ast.SetComp,
                                                            ast.DictComp, ast.JoinedStr)) and \
                    not (isinstance(other, ast.Constant) and isinstance(other.value, (str, bytes))) and \
                    not any(isinstance(x, (ast.List, ast.ListComp)) for x in ast.walk(other)):
                aug = ast.AugAssign(target=copy.deepcopy(s.targets[0]), op=s.value.op, value=other)
                aug.target.ctx = ast.Store()
                ast.copy_location(aug, s)
                ast.fix_missing_locations(aug)
                s = aug
        pre = []
        self._note_table(s, ctx)
        self._note_lookup(s, ctx)
        if isinstance(s, ast.If):
            self._note_gate(s, ctx)
            s.test = self.expr(s.test, ctx, pre, s)
            c1, c2 = dict(ctx, closures=dict(ctx['closures'])), dict(ctx, closures=dict(ctx['closures']))
            s.body = self.block(s.body, c1)
            s.orelse = self.block(s.orelse, c2) if s.orelse else []
            self._merge_closures(ctx, c1, c2)
            return pre + [s]
        if isinstance(s, ast.For) and self._unrollable(s):
            # `for side in (step.to, step.frm): body` -> one copy of the body per element (exact: no break; `continue`
            # in guard position is lowered to if / else first)
            s.body = self._lower_continue(s.body)
            out = []
            rebound = isinstance(s.target, ast.Name) and any(
                isinstance(n, ast.Name) and n.id == s.target.id and isinstance(n.ctx, (ast.Store, ast.Del))
                for b_ in s.body for n in ast.walk(b_))
            for i, e in enumerate(s.iter.elts):
                bind = ast.copy_location(ast.Assign([copy.deepcopy(s.target)], copy.deepcopy(e)), s)
                body = copy.deepcopy(s.body) if i < len(s.iter.elts) - 1 else s.body
                if isinstance(s.target, ast.Name) and not rebound:
                    # the loop variable is an alias of the element: name the element itself (access paths stay visible)
                    body = [_Subst({}, {s.target.id: e}).visit(b_) for b_ in body]
                for st_ in [bind] + body:
                    out.extend(self.stmt(st_, ctx))
            for st_ in s.orelse:
                out.extend(self.stmt(st_, ctx))
            self.stats['unrolled'] = self.stats.get('unrolled', 0) + 1
            return out
        if isinstance(s, (ast.For, ast.AsyncFor)):
            s.iter = self.expr(s.iter, ctx, pre, s)
            s.body = self.block(s.body, ctx)
            s.orelse = self.block(s.orelse, ctx) if s.orelse else []
            return pre + [s]
        if isinstance(s, ast.While):
            s.test = self.expr(s.test, ctx, None, s)
            s.body = self.block(s.body, ctx)
            s.orelse = self.block(s.orelse, ctx) if s.orelse else []
            return [s]
        if isinstance(s, (ast.With, ast.AsyncWith)):
            for it in s.items:
                it.context_expr = self.expr(it.context_expr, ctx, pre, s)
            s.body = self.block(s.body, ctx)
            return pre + [s]
        if isinstance(s, ast.Try) or s.__class__.__name__ == 'TryStar':
            s.body = self.block(s.body, ctx)
            for h in s.handlers:
                h.body = self.block(h.body, ctx)
            s.orelse = self.block(s.orelse, ctx) if s.orelse else []
            s.finalbody = self.block(s.finalbody, ctx) if s.finalbody else []
            return [s]
        if isinstance(s, ast.Match):
            low = self._lower_match(s)
            if low is not None:
                self.stats['match_lowered'] = self.stats.get('match_lowered', 0) + 1
                out = []
                for st_ in low:
                    out.extend(self.stmt(st_, ctx))
                return out
            s.subject = self.expr(s.subject, ctx, pre, s)
            for c in s.cases:
                c.body = self.block(c.body, ctx)
            return pre + [s]
        # simple statements
        if isinstance(s, ast.Expr) and isinstance(s.value, ast.Call):
            c = s.value
            c.func = self.expr(c.func, ctx, pre, s)
            c.args = [self.expr(v, ctx, pre, s) for v in c.args]
            for kw in c.keywords:
                kw.value = self.expr(kw.value, ctx, pre, s)
            if self.try_dispatch_table(c, ctx, s, pre) is not None:
                return pre              # (the value of the dispatched call is not used)
            blockres = self.try_expand_call(c, ctx, s, want_value=False)
            if blockres is not None:
                return pre + blockres[0]
            return pre + [s]
        for field, value in ast.iter_fields(s):
            if isinstance(value, ast.expr):
                if field in ('target',) or (isinstance(s, ast.Assign) and field == 'targets'):
                    continue
                setattr(s, field, self.expr(value, ctx, pre, s))
            elif isinstance(value, list) and value and isinstance(value[0], ast.expr) and field != 'targets':
                setattr(s, field, [self.expr(v, ctx, pre, s) for v in value])
        return pre + [s]

    @staticmethod
    def _lower_continue(stmts):
        """`if c: ...; continue` followed by `rest`  ->  `if c: ... else: rest` (recursively); None if a `continue`
        sits anywhere else."""
        def has_jump(nodes):
            todo = list(nodes)
            while todo:
                n = todo.pop()
                if isinstance(n, (ast.Break, ast.Continue)):
                    return True
                if isinstance(n, (ast.For, ast.While, ast.FunctionDef, ast.AsyncFunctionDef, ast.Lambda)):
                    continue        # break / continue in there belong to the inner loop
                todo.extend(ast.iter_child_nodes(n))
            return False
        out = []
        for i, st in enumerate(stmts):
            if isinstance(st, ast.Continue):
                return out or [ast.copy_location(ast.Pass(), st)]
            if isinstance(st, ast.If) and has_jump([st]):
                rest = Inliner._lower_continue(stmts[i + 1:])
                if rest is None:
                    return None
                body_jumps = bool(st.body) and isinstance(st.body[-1], ast.Continue)
                else_jumps = bool(st.orelse) and isinstance(st.orelse[-1], ast.Continue)
                if body_jumps and not has_jump(st.body[:-1]) and not has_jump(st.orelse):
                    new = ast.copy_location(ast.If(st.test, st.body[:-1] or [ast.copy_location(ast.Pass(), st)],
                                                   list(st.orelse) + rest), st)
                    return out + [new]
                if else_jumps and not has_jump(st.orelse[:-1]) and not has_jump(st.body):
                    new = ast.copy_location(ast.If(st.test, list(st.body) + rest,
                                                   st.orelse[:-1] or [ast.copy_location(ast.Pass(), st)]), st)
                    return out + [new]
                return None
            if has_jump([st]):
                return None
            out.append(st)
        return out

    @staticmethod
    def _unrollable(s):
        it = s.iter
        if not (isinstance(it, (ast.Tuple, ast.List)) and 1 <= len(it.elts) <= 4):
            return False
        if not all(isinstance(e, (ast.Name, ast.Attribute)) for e in it.elts):
            return False            # only sequences of objects / records; loops over literal constants stay loops
        return Inliner._lower_continue(list(s.body)) is not None

    @staticmethod
    def _merge_closures(ctx, c1, c2):
        names = set(c1['closures']) | set(c2['closures'])
        for n in names:
            a, b = c1['closures'].get(n), c2['closures'].get(n)
            base = ctx['closures'].get(n)
            if a is b:
                ctx['closures'][n] = a
            elif a is base and b is not None and b is not base:
                ctx['closures'][n] = None      # defined in one arm only / differently: ambiguous afterwards
            else:
                ctx['closures'][n] = None

    # ------------------------------------------------------------------ expressions
    def expr(self, e, ctx, pre, stmt, cond=False):
        """Rewrite expression `e`; `pre` (a list, or None when hoisting is not allowed) receives hoisted blocks."""
        if e is None:
            return e
        if isinstance(e, ast.Lambda):
            e.body = self.expr(e.body, ctx, None, stmt, True)
            return e
        if isinstance(e, ast.IfExp):
            e.test = self.expr(e.test, ctx, pre, stmt, cond)
            e.body = self.expr(e.body, ctx, None, stmt, True)
            e.orelse = self.expr(e.orelse, ctx, None, stmt, True)
            return e
        if isinstance(e, ast.BoolOp) and isinstance(e.op, ast.Or) and len(e.values) == 2 and \
                isinstance(e.values[1], ast.Constant) and type(e.values[1].value) in (int, float) and e.values[1].value == 0 and \
                isinstance(e.values[0], ast.Call) and isinstance(e.values[0].func, ast.Attribute) and \
                e.values[0].func.attr == 'get' and len(e.values[0].args) == 1 and not e.values[0].keywords:
            # `d.get(k) or 0` on a mapping of numbers is `d.get(k, 0)` (a stored 0 gives 0 either way): one spelling
            call = e.values[0]
            call.args = [call.args[0], e.values[1]]
            return self.expr(call, ctx, pre, stmt, cond)
        if isinstance(e, ast.BoolOp):
            e.values = [self.expr(v, ctx, pre if i == 0 else None, stmt, cond or i > 0) for i, v in enumerate(e.values)]
            return e
        if isinstance(e, (ast.ListComp, ast.SetComp, ast.GeneratorExp, ast.DictComp)):
            for i, g in enumerate(e.generators):
                g.iter = self.expr(g.iter, ctx, pre if i == 0 else None, stmt, cond or i > 0)
                g.ifs = [self.expr(x, ctx, None, stmt, True) for x in g.ifs]
            if isinstance(e, ast.DictComp):
                e.key = self.expr(e.key, ctx, None, stmt, True)
                e.value = self.expr(e.value, ctx, None, stmt, True)
            else:
                e.elt = self.expr(e.elt, ctx, None, stmt, True)
            return e
        # generic: children first (evaluation order is field order for the node kinds that matter)
        for field, value in ast.iter_fields(e):
            if isinstance(value, ast.expr):
                setattr(e, field, self.expr(value, ctx, pre, stmt, cond))
            elif isinstance(value, list):
                new = []
                for v in value:
                    if isinstance(v, ast.expr):
                        new.append(self.expr(v, ctx, pre, stmt, cond))
                    elif isinstance(v, ast.keyword):
                        v.value = self.expr(v.value, ctx, pre, stmt, cond)
                        new.append(v)
                    else:
                        new.append(v)
                setattr(e, field, new)
        if isinstance(e, ast.Call):
            if pre is not None:
                t = self.try_dispatch_table(e, ctx, stmt, pre)
                if t is not None:
                    return t
            res = self.try_expand_call(e, ctx, stmt, want_value=True, pre=pre)
            if res is not None:
                return res[1]
        return e

    # ------------------------------------------------------------------ match statements
    def _lower_match(self, s):
        """`match x: case 'L': .. case str(): .. case A | B: .. case _:` -> the equivalent if / elif chain (only for the
        pattern kinds whose meaning is exactly a comparison: values, None/True/False, classes without sub-patterns,
        alternatives of those, a final wildcard or capture, guards)."""
        pre = []
        subj = s.subject
        if isinstance(subj, ast.Tuple) and all(_simple(e) for e in subj.elts):
            pass
        elif not _simple(subj):
            k = next(self.counter)
            name = f"_inl{k}_subject"
            pre.append(ast.copy_location(ast.Assign([ast.Name(name, ast.Store())], subj), s))
            subj = ast.Name(name, ast.Load())

        TRUE = ast.Constant(True)

        def test_of(p, subj=subj, binds=None):
            if isinstance(p, ast.MatchValue):
                return ast.Compare(copy.deepcopy(subj), [ast.Eq()], [p.value])
            if isinstance(p, ast.MatchSingleton):
                return ast.Compare(copy.deepcopy(subj), [ast.Is()], [ast.Constant(p.value)])
            if isinstance(p, ast.MatchClass) and not p.patterns and not p.kwd_patterns:
                return ast.Call(ast.Name('isinstance', ast.Load()), [copy.deepcopy(subj), p.cls], [])
            if isinstance(p, ast.MatchOr):
                parts = [test_of(x, subj, None) for x in p.patterns]
                if any(x is None for x in parts):
                    return None
                return ast.BoolOp(ast.Or(), parts)
            if isinstance(p, ast.MatchAs) and p.pattern is None and binds is not None:
                if p.name is not None:
                    binds.append((p.name, subj))
                return TRUE
            if isinstance(p, ast.MatchSequence) and isinstance(subj, ast.Tuple) and len(p.patterns) == len(subj.elts) and \
                    not any(isinstance(x, ast.MatchStar) for x in p.patterns) and binds is not None:
                # a tuple display of n elements always matches a sequence pattern of n sub-patterns element by element
                parts = []
                for sp, el in zip(p.patterns, subj.elts):
                    t = test_of(sp, el, binds)
                    if t is None:
                        return None
                    if t is not TRUE:
                        parts.append(t)
                return TRUE if not parts else parts[0] if len(parts) == 1 else ast.BoolOp(ast.And(), parts)
            return None
        chain, tail = [], None
        for i, c in enumerate(s.cases):
            p = c.pattern
            if isinstance(p, ast.MatchAs) and p.pattern is None:
                # wildcard `_` or a capture of the whole subject
                body = list(c.body)
                if p.name is not None:
                    body.insert(0, ast.copy_location(ast.Assign([ast.Name(p.name, ast.Store())], copy.deepcopy(subj)), c.body[0]))
                if c.guard is None:
                    if i != len(s.cases) - 1:
                        return None
                    tail = body
                    break
                if p.name is not None:
                    return None          # a guard that reads the capture: keep the match statement
                chain.append((c.guard, body))
                continue
            binds = []
            t = test_of(p, subj, binds)
            if t is None:
                return None
            if binds and c.guard is not None:
                return None          # the guard may read the captures: keep the match statement
            if t is TRUE:
                t = ast.Constant(True)
            if c.guard is not None:
                t = ast.BoolOp(ast.And(), [t, c.guard]) if not (isinstance(t, ast.Constant) and t.value is True) else c.guard
            body = list(c.body)
            for name, el in reversed(binds):
                body.insert(0, ast.copy_location(ast.Assign([ast.Name(name, ast.Store())], copy.deepcopy(el)), c.body[0]))
            chain.append((t, body))
        node = tail or []
        for t, body in reversed(chain):
            node = [ast.If(t, body, node)]
        for n in node:
            for x in ast.walk(n):
                if isinstance(x, (ast.stmt, ast.expr)) and not hasattr(x, 'lineno'):
                    ast.copy_location(x, s)
            if not hasattr(n, 'lineno'):
                ast.copy_location(n, s)
        for n in node:
            if isinstance(n, ast.If) and chain:
                self._relocate_chain(n, s)
        return pre + node

    @staticmethod
    def _relocate_chain(n, s):
        # each synthesised `if` takes the line of the first statement of its case (diagnostics point into the case)
        while isinstance(n, ast.If):
            if n.body and hasattr(n.body[0], 'lineno'):
                n.lineno = max(s.lineno, n.body[0].lineno - 1)
                for x in ast.walk(n.test):
                    if hasattr(x, 'lineno'):
                        x.lineno = n.lineno
            n = n.orelse[0] if len(n.orelse) == 1 and isinstance(n.orelse[0], ast.If) else None

    # ------------------------------------------------------------------ method values
    def _sink_method_values(self, stmts, ctx):
        """`if a: f = x.m1 elif b: f = x.m2 else: raise ..` directly followed by the only use `.. f(args) ..`: the
        statement with the call is moved into the arms, naming the method itself (exact: nothing lies in between)."""
        out = list(stmts)
        i = 0
        while i + 1 < len(out):
            a, b = out[i], out[i + 1]
            i += 1
            if not (isinstance(a, ast.If) and isinstance(b, (ast.Return, ast.Assign, ast.Expr, ast.AugAssign))):
                continue
            calls = [n for n in ast.walk(b) if isinstance(n, ast.Call) and isinstance(n.func, ast.Name)]
            for c in calls:
                f = c.func.id
                if f in ctx['closures'] or f in self.by_name:
                    continue
                loads = [n for n in ast.walk(ctx['fn']) if isinstance(n, ast.Name) and n.id == f and isinstance(n.ctx, ast.Load)]
                stores = [n for n in ast.walk(ctx['fn']) if isinstance(n, ast.Name) and n.id == f and
                          isinstance(n.ctx, (ast.Store, ast.Del))]
                if len(loads) != 1 or not stores:
                    continue
                arms = []

                def collect(node):
                    for body in (node.body, node.orelse):
                        if not body:
                            return False            # an arm that falls through without binding f
                        last = body[-1]
                        if isinstance(last, ast.Raise):
                            continue
                        if len(body) == 1 and isinstance(last, ast.If) and body is node.orelse:
                            if not collect(last):
                                return False
                            continue
                        if isinstance(last, ast.Assign) and len(last.targets) == 1 and isinstance(last.targets[0], ast.Name) \
                                and last.targets[0].id == f and isinstance(last.value, (ast.Attribute, ast.Name)):
                            arms.append((body, last))
                            continue
                        return False
                    return True
                if not collect(a) or len(arms) != len(stores):
                    continue
                for body, last in arms:
                    moved = copy.deepcopy(b)
                    for n in ast.walk(moved):
                        if isinstance(n, ast.Call) and isinstance(n.func, ast.Name) and n.func.id == f:
                            n.func = ast.copy_location(copy.deepcopy(last.value), n.func)
                    body[-1] = moved
                out.pop(i)
                self.stats['sunk'] = self.stats.get('sunk', 0) + 1
                break
        return out

    # ------------------------------------------------------------------ dispatch tables
    def _note_table(self, s, ctx):
        """`d = {'a': f, 'b': g}` (the only assignment of d in the function): a dispatch table."""
        tables = ctx.setdefault('tables', {})
        if isinstance(s, ast.Assign) and len(s.targets) == 1 and isinstance(s.targets[0], ast.Name) and \
                isinstance(s.value, ast.Dict) and s.value.keys and \
                all(isinstance(k, ast.Constant) for k in s.value.keys) and \
                all(isinstance(v, (ast.Name, ast.Attribute, ast.Lambda)) for v in s.value.values):
            name = s.targets[0].id
            stores = sum(1 for n in _walk_no_defs(ctx['fn']) if isinstance(n, ast.Name) and n.id == name and
                         isinstance(n.ctx, (ast.Store, ast.Del)))
            mutated = any(isinstance(n, ast.Subscript) and isinstance(n.value, ast.Name) and n.value.id == name and
                          isinstance(n.ctx, (ast.Store, ast.Del)) for n in ast.walk(ctx['fn']))
            if stores == 1 and not mutated:
                tables[name] = s.value

    def _note_lookup(self, s, ctx):
        """`h = d.get(key)` / `h = d.get(key) if cond else None` for a dispatch table d: calling h(..) later (under its
        `is not None` guard) is calling d[key](..) when the key is present."""
        if not (isinstance(s, ast.Assign) and len(s.targets) == 1 and isinstance(s.targets[0], ast.Name)):
            return
        v = s.value
        if isinstance(v, ast.IfExp):
            arms = [v.body, v.orelse]
            nones = [a for a in arms if isinstance(a, ast.Constant) and a.value is None]
            rest = [a for a in arms if a not in nones]
            if len(nones) != 1 or len(rest) != 1:
                return
            v = rest[0]
        if isinstance(v, ast.Call) and isinstance(v.func, ast.Attribute) and v.func.attr == 'get' and \
                isinstance(v.func.value, ast.Name) and v.func.value.id in ctx.get('tables', {}) and \
                1 <= len(v.args) <= 2 and _simple(v.args[0]) and \
                (len(v.args) == 1 or (isinstance(v.args[1], ast.Constant) and v.args[1].value is None)):
            name = s.targets[0].id
            stores = sum(1 for n in _walk_no_defs(ctx['fn']) if isinstance(n, ast.Name) and n.id == name and
                         isinstance(n.ctx, (ast.Store, ast.Del)))
            if stores == 1:
                ctx.setdefault('lookups', {})[name] = (v.func.value.id, v.args[0])

    def _note_gate(self, s, ctx):
        """`if key not in d: raise ..` - afterwards (same block) d[key] cannot fail."""
        t = s.test
        if isinstance(t, ast.Compare) and len(t.ops) == 1 and isinstance(t.ops[0], ast.NotIn) and \
                isinstance(t.comparators[0], ast.Name) and t.comparators[0].id in ctx.get('tables', {}) and \
                s.body and isinstance(s.body[-1], ast.Raise) and not s.orelse:
            ctx['gated'].add((t.comparators[0].id, ast.unparse(t.left)))

    def try_dispatch_table(self, call, ctx, stmt, pre):
        f = call.func
        if isinstance(f, ast.Name) and f.id in ctx.get('lookups', {}):
            tname, keyexpr = ctx['lookups'][f.id]
            gated = True            # a missing key leaves None, and the call sits under its `is not None` guard
        elif isinstance(f, ast.Subscript) and isinstance(f.value, ast.Name) and f.value.id in ctx.get('tables', {}) \
                and _simple(f.slice):
            tname, keyexpr = f.value.id, f.slice
            gated = (tname, ast.unparse(keyexpr)) in ctx.get('gated', ())
        else:
            return None
        table = ctx['tables'][tname]
        k = next(self.counter)
        ret = f"_inl{k}_ret"
        tail = [] if gated else [ast.Raise(ast.Call(ast.Name('KeyError', ast.Load()), [copy.deepcopy(keyexpr)], []), None)]
        for key, target in reversed(list(zip(table.keys, table.values))):
            c = ast.Call(copy.deepcopy(target), [copy.deepcopy(a) for a in call.args], [copy.deepcopy(kw) for kw in call.keywords])
            test = ast.Compare(copy.deepcopy(keyexpr), [ast.Eq()], [copy.deepcopy(key)])
            branch = ast.If(test, [ast.Assign([ast.Name(ret, ast.Store())], c)], tail)
            tail = [branch]
        init = ast.Assign([ast.Name(ret, ast.Store())], ast.Constant(None))
        for n in [init] + tail:
            for x in ast.walk(n):
                if isinstance(x, (ast.stmt, ast.expr)):
                    ast.copy_location(x, call)
        pre.append(init)
        for n in tail:
            pre.extend(self.stmt(n, ctx))
        self.lowered_tables.add(id(table))
        self.stats['expanded'] += 1
        return ast.copy_location(ast.Name(ret, ast.Load()), call)

    # ------------------------------------------------------------------ call expansion
    def resolve(self, call, ctx):
        """-> (callee FunctionDef, class name|None, receiver expr|None, is_closure) or None"""
        f = call.func
        if isinstance(f, ast.Name):
            c = ctx['closures'].get(f.id)
            if isinstance(c, ast.FunctionDef):
                return c, ctx['cls'], None, True
            if f.id in ctx['closures']:
                return None
            cands = [x for x in self.by_name.get(f.id, []) if x[0] is None]
            if len(cands) == 1 and _is_private(f.id):
                return cands[0][1], None, None, False
            return None
        if isinstance(f, ast.Attribute) and _is_private(f.attr):
            recv = f.value
            if isinstance(recv, ast.Name) and recv.id in self.classes and recv.id not in ctx['closures']:
                m = self.lookup(recv.id, f.attr)
                if m is not None:
                    return m[1], m[0], ('<class>', recv), False
                return None
            if isinstance(recv, ast.Name) and recv.id == ctx.get('selfname') and ctx['cls']:
                m = self.lookup(ctx['cls'], f.attr)
                if m is not None:
                    return m[1], m[0], ('<inst>', recv), False
                return None
            cands = [x for x in self.by_name.get(f.attr, []) if x[0] is not None]
            if len(cands) == 1:
                return cands[0][1], cands[0][0], ('<inst>', recv), False
        return None

    def lookup(self, clsname, mname, seen=()):
        if clsname in seen or clsname not in self.classes:
            return None
        if (clsname, mname) in self.methods:
            return clsname, self.methods[(clsname, mname)]
        for b in self.classes[clsname].bases:
            r = self.lookup(ast.unparse(b), mname, seen + (clsname,))
            if r is not None:
                return r
        return None

    def try_expand_call(self, call, ctx, stmt, want_value, pre=None):
        r = self.resolve(call, ctx)
        if r is None:
            return None
        callee, ccls, recv, is_closure = r
        name = callee.name
        try:
            if id(callee) in self.in_progress or callee is ctx['fn']:
                raise NotInlinable('recursion')
            decos = {ast.unparse(d) for d in callee.decorator_list}
            if decos - {'staticmethod'}:
                raise NotInlinable(f"decorators {sorted(decos)}")
            if any(isinstance(n, (ast.Yield, ast.YieldFrom, ast.Await)) for n in _walk_no_defs(callee)):
                raise NotInlinable('generator')
            if not is_closure:
                self.expand_function(callee, ccls)          # callee first (bottom-up)
            a = callee.args
            if a.kwarg:
                raise NotInlinable('**kwargs')
            vararg = a.vararg.arg if a.vararg else None
            if vararg is not None:
                # only a vararg that is handed on as `g(.., *rest)` can be expanded (the extra arguments take its place)
                uses_ = [n for n in ast.walk(callee) if isinstance(n, ast.Name) and n.id == vararg]
                starred = [n for n in ast.walk(callee) if isinstance(n, ast.Starred) and isinstance(n.value, ast.Name)
                           and n.value.id == vararg]
                in_calls = sum(1 for c_ in ast.walk(callee) if isinstance(c_, ast.Call) for x in c_.args if x in starred)
                if len(uses_) != len(starred) or in_calls != len(starred):
                    raise NotInlinable('*args used as a value')
            if any(isinstance(x, ast.Starred) for x in call.args) or any(k.arg is None for k in call.keywords):
                raise NotInlinable('starred call')
            params = [x.arg for x in a.posonlyargs + a.args]
            defaults = dict(zip(params[len(params) - len(a.defaults):], a.defaults)) if a.defaults else {}
            for x, d in zip(a.kwonlyargs, a.kw_defaults):
                if d is not None:
                    defaults[x.arg] = d
            actual = list(call.args)
            if recv is not None and 'staticmethod' not in decos:
                if recv[0] == '<inst>':
                    actual = [recv[1]] + actual
            elif recv is not None and recv[0] == '<inst>' and 'staticmethod' in decos:
                pass
            binding = {}
            extra = []
            if len(actual) > len(params):
                if vararg is None:
                    raise NotInlinable('too many arguments')
                extra = actual[len(params):]
                actual = actual[:len(params)]
            for p, v in zip(params, actual):
                binding[p] = v
            for k in call.keywords:
                if k.arg in binding or k.arg not in params + [x.arg for x in a.kwonlyargs]:
                    raise NotInlinable('keyword mismatch')
                binding[k.arg] = k.value
            for p in params + [x.arg for x in a.kwonlyargs]:
                if p not in binding:
                    if p not in defaults:
                        raise NotInlinable(f"unbound parameter {p}")
                    binding[p] = defaults[p]
            body = [s for s in callee.body]
            if body and isinstance(body[0], ast.Expr) and isinstance(body[0].value, ast.Constant) and \
                    isinstance(body[0].value.value, str):
                body = body[1:]
            bound, declared = _bound_names(callee)
            # nested functions that shadow a renamed local: give up
            for n in ast.walk(callee):
                if n is not callee and isinstance(n, (ast.FunctionDef, ast.Lambda)):
                    inner = {x.arg for x in n.args.posonlyargs + n.args.args + n.args.kwonlyargs}
                    if inner & (bound | set(binding)):
                        raise NotInlinable('nested function shadows a local')
            k = next(self.counter)
            # ---- expression helper (names bound inside it can only belong to comprehensions: renamed apart)
            if len(body) == 1 and isinstance(body[0], ast.Return) and body[0].value is not None and \
                    not any(isinstance(n, ast.NamedExpr) for n in ast.walk(body[0].value)):
                uses = {}
                for n in ast.walk(body[0].value):
                    if isinstance(n, ast.Name) and n.id in binding:
                        uses[n.id] = uses.get(n.id, 0) + 1
                if all(_simple(v) or uses.get(p, 0) <= 1 for p, v in binding.items()) and not (bound & set(binding)):
                    e = _Subst({n: f"_inl{k}_{n}" for n in bound}, binding).visit(
                        self._spread(copy.deepcopy(body[0].value), vararg, extra))
                    self._mark(e, name, call)
                    self.stats['expanded'] += 1
                    self.expanded_callees.add(id(callee))
                    if not want_value:
                        return [ast.copy_location(ast.Expr(e), stmt)], None
                    return [], e
            # ---- statement helper
            if want_value and pre is None:
                raise NotInlinable('call in a conditionally evaluated position')
            rename = {n: f"_inl{k}_{n}" for n in bound}
            subst, binds = {}, []
            nuses = {}
            for n in ast.walk(callee):
                if isinstance(n, ast.Name) and n.id in binding:
                    nuses[n.id] = nuses.get(n.id, 0) + 1
            for p, v in binding.items():
                once_lambda = isinstance(v, ast.Lambda) and nuses.get(p, 0) <= 1     # a function literal handed through
                if p in bound or not (_simple(v) or once_lambda):
                    rename[p] = f"_inl{k}_{p}"
                    binds.append(ast.copy_location(ast.Assign([ast.Name(rename[p], ast.Store())], copy.deepcopy(v)), stmt))
                else:
                    subst[p] = v
            ret = f"_inl{k}_ret"
            new_body = [_Subst(rename, subst).visit(self._spread(copy.deepcopy(s), vararg, extra)) for s in body]
            new_body = [s for s in new_body if s is not None]
            lowered, _ = self.lower(new_body, ret, stmt)
            blockstmts = binds
            if want_value:
                blockstmts = blockstmts + [ast.copy_location(ast.Assign([ast.Name(ret, ast.Store())], ast.Constant(None)), stmt)]
            blockstmts = blockstmts + lowered
            for s in blockstmts:
                self._mark(s, name, call)
            # a function handed over as an argument (`default_name=_number_name`) is called inside the helper: once the
            # parameter is replaced by the function's name those calls can be expanded in their turn
            fn_args = [v for v in binding.values() if (isinstance(v, ast.Name) and v.id in self.by_name) or
                       (isinstance(v, ast.Attribute) and v.attr in self.by_name)]
            if fn_args and ctx.get('reexp', 0) < 2:
                ctx2 = dict(ctx, reexp=ctx.get('reexp', 0) + 1)
                again = []
                for s in blockstmts:
                    again.extend(self.stmt(s, ctx2))
                blockstmts = again
            self.stats['expanded'] += 1
            self.expanded_callees.add(id(callee))
            if want_value:
                pre.extend(blockstmts)
                return blockstmts, ast.copy_location(ast.Name(ret, ast.Load()), call)
            return blockstmts, None
        except NotInlinable as exc:
            self.stats['left'].append((getattr(ctx['fn'], 'name', '?'), name, str(exc)))
            return None

    @staticmethod
    def _spread(node, vararg, extra):
        """Replace `*vararg` in call argument lists by the extra actual arguments."""
        if vararg is None:
            return node
        for c_ in ast.walk(node):
            if isinstance(c_, ast.Call):
                new = []
                for x in c_.args:
                    if isinstance(x, ast.Starred) and isinstance(x.value, ast.Name) and x.value.id == vararg:
                        new.extend(copy.deepcopy(e) for e in extra)
                    else:
                        new.append(x)
                c_.args = new
        return node

    @staticmethod
    def _mark(node, name, call):
        for n in ast.walk(node):
            if not hasattr(n, 'lineno') and isinstance(n, (ast.stmt, ast.expr)):
                ast.copy_location(n, call)
            if isinstance(n, ast.stmt) and not hasattr(n, 'inl'):
                n.inl = (name, getattr(call, 'lineno', 0))

    def lower(self, stmts, ret, at):
        """Replace `return e` by `ret = e`, moving the rest of a block into the arm that falls through."""
        out = []
        for i, s in enumerate(stmts):
            if isinstance(s, ast.Return):
                val = s.value if s.value is not None else ast.copy_location(ast.Constant(None), s)
                tgt = ast.copy_location(ast.Name(ret, ast.Store()), s)
                out.append(ast.copy_location(ast.Assign([tgt], val), s))
                return out, True
            if isinstance(s, ast.Raise):
                out.append(s)
                return out, True
            if not _has_return(s):
                out.append(s)
                continue
            rest = stmts[i + 1:]
            if isinstance(s, ast.If):
                b, bt = self.lower(s.body, ret, at)
                o, ot = self.lower(s.orelse, ret, at) if s.orelse else ([], False)
                if not bt:
                    rb, bt = self.lower(copy.deepcopy(rest) if not ot else rest, ret, at)
                    b = b + rb
                if not ot:
                    ro, ot = self.lower(rest, ret, at)
                    o = o + ro
                s.body, s.orelse = b or [ast.copy_location(ast.Pass(), s)], o
                out.append(s)
                return out, bt and ot
            if isinstance(s, ast.Try):
                b, bt = self.lower(s.body, ret, at)
                hs = [self.lower(h.body, ret, at) for h in s.handlers]
                o, ot = self.lower(s.orelse, ret, at) if s.orelse else ([], bt)
                if s.finalbody and any(_has_return(x) for x in s.finalbody):
                    raise NotInlinable('return in finally')
                allt = (bt or (bool(s.orelse) and ot)) and all(t for _, t in hs)
                if rest and not allt:
                    raise NotInlinable('return inside try followed by more code')
                s.body, s.orelse = b, o
                for h, (hb, _) in zip(s.handlers, hs):
                    h.body = hb
                out.append(s)
                return out, allt
            raise NotInlinable(f"return inside {type(s).__name__}")
        return out, False

    # ------------------------------------------------------------------ dead helpers
    def remove_dead(self):
        in_tables = set()
        for n in ast.walk(self.tree):
            if isinstance(n, ast.Dict) and id(n) in self.lowered_tables:
                for v in n.values:
                    in_tables.update(id(x) for x in ast.walk(v))

        def refs(name, skip):
            n_ = 0
            for n in ast.walk(self.tree):
                if n is skip or id(n) in in_tables:
                    continue
                if isinstance(n, ast.Attribute) and n.attr == name:
                    n_ += 1
                elif isinstance(n, ast.Name) and n.id == name and isinstance(n.ctx, ast.Load):
                    n_ += 1
                elif isinstance(n, ast.Constant) and n.value == name:
                    n_ += 1
            return n_
        removed = []
        for owner in [self.tree] + list(self.classes.values()):
            for f in list(owner.body):
                if isinstance(f, ast.FunctionDef) and id(f) in self.expanded_callees and _is_private(f.name):
                    inside = sum(1 for n in ast.walk(f) if (isinstance(n, ast.Attribute) and n.attr == f.name) or
                                 (isinstance(n, ast.Name) and n.id == f.name))
                    if refs(f.name, None) - inside == 0 and not any(f.name in src for src in self.other_sources):
                        owner.body.remove(f)
                        removed.append(f.name)
        # closures: remove nested defs that are never referenced any more in their enclosing function
        for fn in [n for n in ast.walk(self.tree) if isinstance(n, ast.FunctionDef)]:
            for holder in ast.walk(fn):
                for field in ('body', 'orelse', 'finalbody'):
                    lst = getattr(holder, field, None)
                    if not isinstance(lst, list):
                        continue
                    for s in list(lst):
                        if isinstance(s, ast.FunctionDef) and s is not fn and id(s) in self.expanded_callees:
                            used = sum(1 for n in ast.walk(fn) if isinstance(n, ast.Name) and n.id == s.name and
                                       isinstance(n.ctx, ast.Load))
                            inside = sum(1 for n in ast.walk(s) if isinstance(n, ast.Name) and n.id == s.name and
                                         isinstance(n.ctx, ast.Load))
                            if used - inside == 0:
                                lst.remove(s)
                                removed.append(f"{fn.name}.{s.name}")
                                if not lst:
                                    lst.append(ast.copy_location(ast.Pass(), s))
        self.stats['removed'] = removed


def expand_module(tree, other_sources=()):
    return Inliner(tree, other_sources).run()


# ---------------------------------------------------------------------------------------------- canonical anchor names
def canonical_names(trees):
    """Two rule anchors are private names that no test pins: Container._transfer_slice (the slice branch of
    Container.transfer) and PlateSlicer._transfer (what Plate.transfer delegates to).  If they were renamed, find them
    by their role - the private method the public entry point delegates to - and give them their canonical name in the
    parsed trees, so that every rule keeps its footing.  Returns {old name: canonical name}."""
    renamed = {}
    classes = {}
    for t in trees:
        for c in t.body:
            if isinstance(c, ast.ClassDef):
                classes[c.name] = c

    def methods(cname):
        return {m.name: m for m in classes[cname].body if isinstance(m, ast.FunctionDef)} if cname in classes else {}

    def rename(cname, old, new, class_qualified_only):
        for t in trees:
            for n in ast.walk(t):
                if isinstance(n, ast.Attribute) and n.attr == old:
                    if not class_qualified_only or (isinstance(n.value, ast.Name) and n.value.id == cname):
                        n.attr = new
        methods(cname)[old].name = new
        renamed[f"{cname}.{old}"] = f"{cname}.{new}"

    cm = methods('Container')
    if cm and '_transfer_slice' not in cm and 'transfer' in cm:
        cands = set()
        for n in ast.walk(cm['transfer']):
            if isinstance(n, ast.Attribute) and n.attr in cm and n.attr.startswith('_') and not n.attr.startswith('__') \
                    and n.attr not in ('_transfer', '_add', '_self_add'):
                cands.add(n.attr)
        if len(cands) == 1:
            rename('Container', cands.pop(), '_transfer_slice', False)
    pm = methods('PlateSlicer')
    plm = methods('Plate')
    if pm and '_transfer' not in pm and 'transfer' in plm:
        cands = set()
        for n in ast.walk(plm['transfer']):
            if isinstance(n, ast.Attribute) and isinstance(n.value, ast.Name) and n.value.id == 'PlateSlicer' and \
                    n.attr in pm and n.attr.startswith('_') and not n.attr.startswith('__'):
                cands.add(n.attr)
        if len(cands) == 1:
            rename('PlateSlicer', cands.pop(), '_transfer', True)
    return renamed

"""Engine U - UnitAI: abstract interpretation over scaled units of measure (DESIGN section 2, appendix D).

A numeric expression is abstracted to the unit it is expressed in (units.U); strings that denote units, quantities
and concentrations are template strings (tstr.TStr) with symbolic SI prefixes; substances are abstracted to their
kind; containers to typed fields.  Paths are enumerated by depth-first search over the nondeterministic choices
(finite discriminants; conditions on numeric data are taken both ways).  Every place where a number meets a unit
label is a *sink*: the unit of the number must be the unit the label says.  Nothing is executed and no solver is
used; an uninterpretable construct raises Incomplete (exit 2), never a silent pass."""
from __future__ import annotations

import ast
import math

from .model import AnalysisError, unparse
from .tstr import TStr, unit_of, prefix_of, user_unit
from .units import U, ONE, SI, base, sym, mL, PVS_L, PMS_MOL, AMT, AB, parse_literal_unit

KINDS = ('solid', 'liquid', 'enzyme')
MAX_PATHS = 20000


# ------------------------------------------------------------------------------------------------ abstract values
class Num:
    __slots__ = ('unit',)

    def __init__(self, unit):
        self.unit = unit

    def __repr__(self):
        return f"Num[{self.unit}]"


class RNum(Num):
    """A value that was just rounded to the internal precision (round(x, config.internal_precision)).  The flag is lost
    by any arithmetic; it exists to notice a rescaling by an SI prefix right after the rounding."""
    __slots__ = ()

    def __repr__(self):
        return f"Num[{self.unit}]"


class SNum(Num):
    """A stored amount that was just converted OUT of its storage unit (convert_from / convert_from_storage with a stored
    source).  Rounding it to the internal precision - which is meant for storage units - throws away the digits the
    storage unit still had (1e-10 mol instead of 1e-10 umol)."""
    __slots__ = ()

    def __repr__(self):
        return f"Num[{self.unit}]"


class Lit:
    __slots__ = ('v',)

    def __init__(self, v):
        self.v = float(v)

    def __repr__(self):
        return f"Lit({self.v:g})"


class SymLit:
    """A pure number whose value is symbolic (a prefix multiplier or a product of them): value = u (no dims)."""
    __slots__ = ('u',)

    def __init__(self, u):
        self.u = u

    def __repr__(self):
        return f"SymLit({self.u})"


class S:
    """A string (template)."""
    __slots__ = ('t',)

    def __init__(self, t):
        self.t = t if isinstance(t, TStr) else TStr.lit(t)

    def __repr__(self):
        return f"S{self.t!r}"


class UserQ:
    """An opaque user-supplied quantity string ('10 mL'): parsed lazily, the base unit is a memoised choice."""
    __slots__ = ('name',)

    def __init__(self, name):
        self.name = name

    def __repr__(self):
        return f"UserQ({self.name})"


class UserC:
    """An opaque user-supplied concentration string."""
    __slots__ = ('name',)

    def __init__(self, name):
        self.name = name


class UserStr:
    """A user-supplied string parameter whose role (quantity / concentration / unit) is fixed by its first use on a
    path: parsed as a quantity it behaves like UserQ, as a concentration like UserC, used as a unit it is
    <symbolic prefix><base> with the base a memoised choice."""
    __slots__ = ('name',)

    def __init__(self, name):
        self.name = name

    def __repr__(self):
        return f"UserStr({self.name})"


class UserC1:
    """'1 ' + <user concentration unit>: parses to (scale of the unit, numerator, denominator)."""
    __slots__ = ('name',)

    def __init__(self, name):
        self.name = name


class Subst:
    __slots__ = ('kind', 'ident')

    def __init__(self, kind, ident):
        self.kind, self.ident = kind, ident

    def __repr__(self):
        return f"Subst({self.ident}:{self.kind})"


class Cont:
    def __init__(self, ident, fields=None):
        self.ident = ident
        self.fields = fields if fields is not None else {}

    def __repr__(self):
        return f"Cont({self.ident})"


class Contents:
    def __init__(self, owner, filt=None):
        self.owner = owner
        self.filt = filt          # set of kinds present (None = all)


class Items:
    def __init__(self, owner, what='items', filt=None):
        self.owner, self.what, self.filt = owner, what, filt


class Bool:
    __slots__ = ('v',)

    def __init__(self, v):
        self.v = v


class NoneV:
    def __repr__(self):
        return 'None'


class Tup(list):
    pass


class ListV(list):
    pass


class DictV(dict):
    """Literal keys are real keys; entries stored under abstract keys are kept as (key, value) pairs."""

    def __init__(self, *a, **kw):
        super().__init__(*a, **kw)
        self.pairs = []


class Closure:
    def __init__(self, node, env, name=None):
        self.node, self.env, self.name = node, env, name


class Gen:
    """Values produced by a generator expression / map (one per abstract element)."""

    def __init__(self, values):
        self.values = list(values)


class Other:
    __slots__ = ('d',)

    def __init__(self, d=''):
        self.d = d

    def __repr__(self):
        return f"Other({self.d})"


class Obj:
    """A generic object with abstract attributes (Plate, RecipeStep, Recipe, config...)."""

    def __init__(self, what, attrs=None):
        self.what = what
        self.attrs = attrs if attrs is not None else {}

    def __repr__(self):
        return f"Obj({self.what})"


NONE = NoneV()


class Return(Exception):
    def __init__(self, v):
        self.v = v


class Raised(Exception):
    def __init__(self, t, line=0):
        self.t, self.line = t, line


class BreakLoop(Exception):
    pass


class ContinueLoop(Exception):
    pass


class Incomplete(AnalysisError):
    pass


class Env:
    """Chained environment (closures see the defining scope by reference)."""

    def __init__(self, vars_=None, parent=None):
        self.vars = vars_ if vars_ is not None else {}
        self.parent = parent

    def get(self, k):
        e = self
        while e is not None:
            if k in e.vars:
                return e.vars[k]
            e = e.parent
        raise KeyError(k)

    def has(self, k):
        e = self
        while e is not None:
            if k in e.vars:
                return True
            e = e.parent
        return False

    def set(self, k, v):
        self.vars[k] = v


class Result:
    def __init__(self):
        self.paths = 0
        self.sink_checks = 0
        self.sinks = {}          # (line, category) -> count
        self.flags = {}          # (line, category, message) -> count
        self.outcomes = []       # (kind, value, line)
        self.notes = set()
        self.bound = {}          # (line, variable name) -> set of unit descriptions it was bound to

    def flagged(self, category=None):
        return [(k, n) for k, n in self.flags.items() if category is None or k[1] == category]


def is_num(v):
    return isinstance(v, (Num, Lit, SymLit))


def is_zero(v):
    return isinstance(v, Lit) and v.v == 0


class Interp:
    def __init__(self, model, result: Result, choices, arity, opts=None, fi=None):
        self.model, self.R = model, result
        self.choices, self.arity, self.pos = choices, arity, 0
        self.opts = opts or {}
        self.memo = {}
        self.fresh = 0
        self.fi = fi
        self.depth = 0
        self.pre_bind = {}          # symbolic prefix name -> concrete text chosen on this path
        self.cur_line = 0
        self.try_depth = 0

    # ------------------------------------------------------------------ infrastructure
    def choose(self, n, why):
        if self.pos < len(self.choices):
            c = self.choices[self.pos]
        else:
            c = 0
            self.choices.append(0)
        if self.pos >= len(self.arity):
            self.arity.append(n)
        self.pos += 1
        return c

    def sink(self, node, category, ok, msg=''):
        line = getattr(node, 'lineno', self.cur_line) or self.cur_line
        self.R.sink_checks += 1
        k = (line, category)
        self.R.sinks[k] = self.R.sinks.get(k, 0) + 1
        if not ok:
            fk = (line, category, msg)
            self.R.flags[fk] = self.R.flags.get(fk, 0) + 1

    def new_sym(self, stem):
        self.fresh += 1
        return f"{stem}{self.fresh}"

    def incomplete(self, node, why):
        raise Incomplete(f"{self.fi.qualname if self.fi else '?'} line {getattr(node, 'lineno', '?')}: {why}")

    # ------------------------------------------------------------------ numeric helpers
    def as_unit(self, v, node, additive=False):
        """Unit a numeric value is expressed in; None for zero (compatible with every unit)."""
        if isinstance(v, Num):
            return self.bound_unit(v.unit)
        if isinstance(v, Lit):
            if v.v == 0:
                return None
            if additive or math.isinf(v.v) or math.isnan(v.v):
                return ONE
            return U(1.0 / v.v)
        if isinstance(v, SymLit):
            return ONE if additive else v.u.inv()
        if isinstance(v, Bool):
            return ONE
        self.incomplete(node, f"a number is needed, got {v!r}")

    def bound_unit(self, u):
        """Apply the prefix bindings chosen on this path (P := 'm' ...) to a unit."""
        if not self.pre_bind or not u.syms:
            return u
        coef, syms = u.coef, dict(u.syms)
        for name, text in self.pre_bind.items():
            if name in syms:
                coef *= SI[text] ** syms.pop(name)
        return U(coef, u.dims, syms)

    def check_same(self, ua, ub, node, category, what):
        if ua is None or ub is None:
            self.sink(node, category, True)
            return True
        ok = ua.same(ub)
        cat = category
        if not ok and ua.same_dim(ub) and ua.storage_only_difference(ub):
            cat = 'storage-label'
        self.sink(node, cat, ok, f"{what}: {ua} vs {ub}")
        return ok

    def arith(self, op, a, b, node):
        if isinstance(a, Other) or isinstance(b, Other):
            if self.opts.get('strict_other', True) and (isinstance(a, Num) or isinstance(b, Num)):
                self.incomplete(node, f"arithmetic with an uninterpreted value ({a!r} {type(op).__name__} {b!r})")
            return Other('arith')
        if isinstance(a, NoneV) or isinstance(b, NoneV):
            self.sink(node, 'none-arith', False, 'arithmetic on None (attribute undefined for this substance kind)')
            raise Raised('TypeError', getattr(node, 'lineno', 0))
        if isinstance(a, Bool) and isinstance(b, Bool) and isinstance(op, ast.Add):
            if a.v is None or b.v is None:
                return Other('boolsum')
            return Lit(float(bool(a.v)) + float(bool(b.v)))
        if isinstance(a, Lit) and isinstance(b, Bool) and isinstance(op, ast.Add):
            return Lit(a.v + float(bool(b.v))) if b.v is not None else Other('boolsum')
        if not (is_num(a) and is_num(b)):
            self.incomplete(node, f"arithmetic on {a!r} and {b!r}")
        if isinstance(op, (ast.Mult, ast.Div)):
            mul = isinstance(op, ast.Mult)
            if isinstance(a, Lit) and isinstance(b, Lit):
                if not mul and b.v == 0:
                    raise Raised('ZeroDivisionError', getattr(node, 'lineno', 0))
                return Lit(a.v * b.v if mul else a.v / b.v)
            if (isinstance(a, RNum) and isinstance(b, SymLit)) or (isinstance(b, RNum) and isinstance(a, SymLit)):
                self.sink(node, 'round-then-scale', False,
                          'a value rounded to the internal precision is rescaled by an SI prefix afterwards: the '
                          'rounding error is multiplied by the prefix (digits below the precision of the unscaled unit are lost)')
            if not isinstance(a, Num) and not isinstance(b, Num):       # two pure numbers, one symbolic
                va = a.u if isinstance(a, SymLit) else U(a.v)
                vb = b.u if isinstance(b, SymLit) else U(b.v)
                if isinstance(a, Lit) and a.v == 0:
                    return Lit(0.0)
                return SymLit(va * vb if mul else va / vb)
            ua, ub = self.as_unit(a, node), self.as_unit(b, node)
            if ua is None:
                return Lit(0.0)
            if ub is None:
                if mul:
                    return Lit(0.0)
                raise Raised('ZeroDivisionError', getattr(node, 'lineno', 0))
            return Num(ua * ub if mul else ua / ub)
        if isinstance(op, (ast.Add, ast.Sub)):
            if isinstance(a, Lit) and isinstance(b, Lit):
                return Lit(a.v + b.v if isinstance(op, ast.Add) else a.v - b.v)
            ua, ub = self.as_unit(a, node, True), self.as_unit(b, node, True)
            self.check_same(ua, ub, node, 'add-units', 'adding/subtracting values of different units')
            u = ua if ua is not None else ub
            return Num(u) if u is not None else Lit(0.0)
        if isinstance(op, ast.Pow):
            if isinstance(a, Lit) and isinstance(b, Lit):
                return Lit(a.v ** b.v)
        if isinstance(op, (ast.FloorDiv, ast.Mod)):
            if isinstance(a, Num) or isinstance(b, Num):
                # amounts are continuous: flooring a quotient (or taking a remainder) of a measured value drops the
                # fractional part, whatever the unit
                self.sink(node, 'truncating-division', False,
                          f"`{'//' if isinstance(op, ast.FloorDiv) else '%'}` on a measured amount drops the fractional part "
                          f"of the quotient: the result is a whole number of units")
                ua, ub = self.as_unit(a, node), self.as_unit(b, node)
                if ua is None or ub is None:
                    return Lit(0.0)
                return Num(ua / ub if isinstance(op, ast.FloorDiv) else ua)
            return Other('intarith')
        self.incomplete(node, f"operator {type(op).__name__}")

    # ------------------------------------------------------------------ strings
    def as_tstr(self, v):
        if isinstance(v, UserStr):
            role = self.memo.get(('role', v.name))
            if role == 'unit':
                return TStr([('pre', 'P_' + v.name), ('lit', self.memo[('unitbase', v.name)])])
            return None
        if isinstance(v, S):
            t = v.t
            for name, text in self.pre_bind.items():
                t = t.bind(name, text)
            return t
        return None

    def unit_of_str(self, v, node, what='unit string'):
        """Unit monomial denoted by a unit string value."""
        if isinstance(v, UserStr) and ('role', v.name) not in self.memo:
            bases = self.opts.get('unit_bases', ('L', 'g', 'mol', 'U'))
            self.memo[('role', v.name)] = 'unit'
            self.memo[('unitbase', v.name)] = bases[self.choose(len(bases), f"base of unit {v.name}")]
        if isinstance(v, UserStr) and self.memo.get(('role', v.name)) != 'unit':
            # the same user string was already taken as a quantity / concentration on this path: as a plain unit it
            # is rejected by the prefix table
            raise Raised('ValueError', getattr(node, 'lineno', 0))
        t = self.as_tstr(v)
        if t is None:
            self.incomplete(node, f"{what}: not a string ({v!r})")
        u = unit_of(t)
        if u is None:
            self.incomplete(node, f"{what}: {t!r} does not denote a unit")
        return u[0]

    def quantity_of(self, v, node):
        """(value, unit TStr) of a quantity string template [num ' ' unit]; None if not of that shape."""
        t = self.as_tstr(v)
        if t is None:
            return None
        toks = t.tokens
        if len(toks) >= 2 and toks[0][0] == 'num' and toks[1][0] == 'lit' and toks[1][1].startswith(' '):
            rest = TStr([('lit', toks[1][1][1:])] + toks[2:])
            if unit_of(rest) is not None:
                return toks[0][2], rest
        return None

    def check_pairs(self, t: TStr, node):
        """`{number} {unit}` pairs inside an f-string: the unit printed must be the unit of the number."""
        toks = t.tokens
        whole = self.quantity_of(S(t), node) is not None
        for i, tok in enumerate(toks):
            if tok[0] != 'num' or not is_num(tok[2]) or i + 1 >= len(toks):
                continue
            nxt = toks[i + 1]
            if nxt[0] != 'lit' or not nxt[1].startswith(' '):
                continue
            word_toks = []
            text = nxt[1][1:]
            if text == '' and i + 2 < len(toks):
                # "{v} {unit}" : the unit is the following formatted value(s)
                j = i + 2
                while j < len(toks) and toks[j][0] in ('pre',):
                    word_toks.append(toks[j])
                    j += 1
                if j < len(toks) and toks[j][0] == 'lit':
                    word = toks[j][1].split(' ')[0]
                    word = word.rstrip('.,;:')
                    word_toks.append(('lit', word))
                elif j < len(toks) and toks[j][0] == 'num' and isinstance(toks[j][2], S):
                    word_toks = list(self.as_tstr(toks[j][2]).tokens)
            else:
                word = text.split(' ')[0].rstrip('.,;:')
                word_toks = [('lit', word)]
            if not word_toks:
                continue
            ut = TStr(word_toks)
            u = unit_of(ut)
            if u is None:
                continue
            uv = self.as_unit(tok[2], node, True)
            cat = 'qstr' if whole else 'display'
            if uv is None:
                self.sink(node, cat, True)
                continue
            ok = uv.same(u[0])
            if not ok and uv.same_dim(u[0]) and uv.storage_only_difference(u[0]):
                cat = 'storage-label'
            self.sink(node, cat, ok, f"the number printed is in {uv} but the unit printed after it is {ut!r} = {u[0]}")

    # ------------------------------------------------------------------ expressions
    def ev(self, n):
        self.cur_line = getattr(n, 'lineno', self.cur_line)
        m = getattr(self, 'ev_' + type(n).__name__, None)
        if m is None:
            self.incomplete(n, f"expression {type(n).__name__}")
        return m(n)

    def ev_Constant(self, n):
        v = n.value
        if isinstance(v, bool):
            return Bool(v)
        if isinstance(v, (int, float)):
            return Lit(v)
        if isinstance(v, str):
            return S(v)
        if v is None:
            return NONE
        return Other('const')

    def ev_Name(self, n):
        if self.env.has(n.id):
            return self.env.get(n.id)
        if n.id in self.model.classes:
            return Other('class:' + n.id)
        if n.id in ('int', 'float', 'str', 'list', 'tuple', 'dict', 'set', 'Iterable', 'bool'):
            return Other('type:' + n.id)
        if n.id in ('numpy', 'np', 'pandas', 'math', 'itertools'):
            return Other('module:' + n.id)
        if n.id == 'config':
            return Obj('config')
        if n.id in ('ValueError', 'TypeError', 'Exception', 'RuntimeError'):
            return Other('exc:' + n.id)
        const = self.static_constant(self.fi.mod.tree.body, n.id)
        if const is not None:
            return self.ev(const)
        self.incomplete(n, f"unbound name {n.id}")

    @staticmethod
    def static_constant(body, name):
        """The value expression of a module- or class-level constant: one plain assignment of a literal display."""
        found = [st for st in body if isinstance(st, (ast.Assign, ast.AnnAssign)) and
                 any(isinstance(t, ast.Name) and t.id == name
                     for t in (st.targets if isinstance(st, ast.Assign) else [st.target]))]
        LIT = (ast.Constant, ast.Dict, ast.List, ast.Tuple, ast.Set, ast.UnaryOp, ast.USub, ast.UAdd,
               ast.Load, ast.BinOp, ast.Mult, ast.Div, ast.Pow, ast.Add, ast.Sub)

        def closed_lambda(x):
            # a function of its own parameters alone means the same wherever it is evaluated (a dispatch table of formulas)
            if not isinstance(x, ast.Lambda) or x.args.vararg or x.args.kwarg or x.args.defaults or x.args.kw_defaults:
                return False
            own = {a.arg for a in x.args.args + x.args.posonlyargs + x.args.kwonlyargs}
            return all(y.id in own for y in ast.walk(x.body) if isinstance(y, ast.Name)) and \
                not any(isinstance(y, (ast.Lambda, ast.NamedExpr, ast.Yield, ast.Await)) for y in ast.walk(x.body))

        def literal(x):
            if closed_lambda(x):
                return True
            if not isinstance(x, LIT):
                return False
            return all(literal(c) for c in ast.iter_child_nodes(x))
        if len(found) == 1 and found[0].value is not None and literal(found[0].value):
            return found[0].value
        return None

    def ev_Tuple(self, n):
        out = Tup()
        for e in n.elts:
            if isinstance(e, ast.Starred):
                v = self.ev(e.value)
                out.extend(v if isinstance(v, list) else [Other('starred')])
            else:
                out.append(self.ev(e))
        return out

    def ev_List(self, n):
        return ListV(self.ev(e) for e in n.elts)

    def ev_Set(self, n):
        r = ListV(self.ev(e) for e in n.elts)
        r.is_set = True         # equality of set displays does not look at the order
        return r

    def ev_Dict(self, n):
        d = DictV()
        for k, v in zip(n.keys, n.values):
            kv = self.ev(k) if k is not None else None
            key = kv.v if isinstance(kv, Lit) else kv.t.text() if isinstance(kv, S) and kv.t.is_literal() else None
            if key is None and isinstance(kv, Tup) and all(isinstance(e, Lit) or (isinstance(e, S) and e.t.is_literal()) for e in kv):
                key = tuple(e.v if isinstance(e, Lit) else e.t.text() for e in kv)     # a table keyed by pairs of literals
            if key is None:
                key = repr(kv)
            d[key] = self.ev(v)
        return d

    def config_attr(self, name, node):
        if name == 'volume_storage_unit':
            return S(user_unit('PVS', 'L'))
        if name == 'moles_storage_unit':
            return S(user_unit('PMS', 'mol'))
        if name == 'volume_display_unit':
            return S(user_unit('PVD', 'L'))
        if name == 'moles_display_unit':
            return S(user_unit('PMD', 'mol'))
        if name == 'default_solid_density':
            return Num(base('g') / mL)
        if name == 'default_enzyme_density':
            return Num(base('U') / mL)
        if name == 'default_weight_volume_units':
            return S(self.opts.get('weight_volume_units', 'g/mL'))
        # an attribute the configuration object derives from its settings in its constructor
        # (`self.moles_storage_prefix = self.moles_storage_unit[:-3]`): evaluate that expression on the symbolic settings
        derived = self._config_derived(name)
        if derived is not None:
            return derived
        return Other('config.' + name)

    def _config_derived(self, name):
        ci = self.model.classes.get('Config') if getattr(self, 'model', None) is not None else None
        if ci is None or name in getattr(self, '_cfg_busy', ()):
            return None
        init = next((m for m in ci.node.body if isinstance(m, ast.FunctionDef) and m.name == '__init__'), None)
        if init is None:
            return None
        found = [st for st in ast.walk(init) if isinstance(st, ast.Assign) and len(st.targets) == 1 and
                 isinstance(st.targets[0], ast.Attribute) and isinstance(st.targets[0].value, ast.Name) and
                 st.targets[0].value.id == 'self' and st.targets[0].attr == name]
        if len(found) != 1:
            return None
        expr = found[0].value
        # only expressions over the object's own settings and literals
        if not all(isinstance(x, (ast.Attribute, ast.Name, ast.Constant, ast.Subscript, ast.Slice, ast.UnaryOp, ast.USub, ast.Call,
                                  ast.Load, ast.BinOp, ast.Add, ast.Sub, ast.Mult, ast.Div)) for x in ast.walk(expr)) or \
                any(isinstance(x, ast.Name) and x.id != 'self' and x.id != 'len' for x in ast.walk(expr)):
            return None
        self._cfg_busy = tuple(getattr(self, '_cfg_busy', ())) + (name,)
        saved = self.env
        self.env = Env({'self': Obj('config')}, None)
        try:
            return self.ev(expr)
        finally:
            self.env = saved
            self._cfg_busy = self._cfg_busy[:-1]

    def subst_attr(self, o: Subst, attr, node):
        k = o.kind
        if attr == 'mol_weight':
            return NONE if k == 'enzyme' else Num(base('g') / base('mol'))
        if attr == 'density':
            return Num((base('U') if k == 'enzyme' else base('g')) / mL)
        if attr == 'specific_activity':
            return Num(base('U') / base('g')) if k == 'enzyme' else NONE
        if attr == 'concentration':
            return Num(base('mol') / mL) if k == 'liquid' else NONE
        if attr == 'name':
            return Other('name')
        if attr == '_type':
            return Other('type-of:' + k)
        return Other('subst.' + attr)

    def cont_attr(self, o: Cont, attr, node):
        if attr in o.fields:
            return o.fields[attr]
        if attr in ('volume', 'max_volume'):
            return Num(PVS_L)
        if attr == 'contents':
            return Contents(o)
        if attr in ('name', 'instructions'):
            return Other(attr)
        return Other('cont.' + attr)

    def ev_Attribute(self, n):
        if isinstance(n.value, ast.Name) and n.value.id == 'config' and not self.env.has('config'):
            return self.config_attr(n.attr, n)
        o = self.ev(n.value)
        if isinstance(o, Subst):
            return self.subst_attr(o, n.attr, n)
        if isinstance(o, Cont):
            return self.cont_attr(o, n.attr, n)
        if isinstance(o, Obj):
            if o.what == 'config':
                return self.config_attr(n.attr, n)
            if n.attr in o.attrs:
                return o.attrs[n.attr]
            return self.obj_default_attr(o, n.attr)
        if isinstance(o, Other):
            if o.d.startswith('class:') and o.d[6:] in self.model.classes:
                const = self.static_constant(self.model.classes[o.d[6:]].node.body, n.attr)
                if const is not None:
                    return self.ev(const)
            return Other(f"{o.d}.{n.attr}")
        if isinstance(o, NoneV):
            raise Raised('AttributeError', n.lineno)
        return Other('attr.' + n.attr)

    def obj_default_attr(self, o, attr):
        if o.what in ('Plate',) and attr == 'wells':
            return Obj('wells')
        if o.what in ('Plate',) and attr == 'max_volume_per_well':
            return Num(PVS_L)
        if o.what == 'PlateSlicer' and attr == 'plate':
            return Obj('Plate')
        if o.what == 'PlateSlicer' and attr == 'array':
            return Obj('wells')
        return Other(f"{o.what}.{attr}")

    def truth(self, v):
        if isinstance(v, Bool):
            return v.v
        if isinstance(v, NoneV):
            return False
        if isinstance(v, Lit):
            return v.v != 0
        if isinstance(v, S) and v.t.is_literal():
            return v.t.text() != ''
        if isinstance(v, DictV) and v.pairs:
            return True
        if isinstance(v, (Tup, ListV, DictV)):
            return len(v) > 0 if not getattr(v, 'open', False) else None
        if isinstance(v, Contents):
            return None
        if isinstance(v, (Subst, Cont, Closure, UserQ, UserC, UserStr)):
            return True
        return None

    def decide(self, v, why):
        b = self.truth(v)
        if b is None:
            b = self.choose(2, why) == 0
        return b

    def ev_UnaryOp(self, n):
        v = self.ev(n.operand)
        if isinstance(n.op, ast.Not):
            b = self.truth(v)
            return Bool(None if b is None else not b)
        if isinstance(n.op, ast.USub):
            if isinstance(v, Lit):
                return Lit(-v.v)
            return v
        if isinstance(n.op, ast.UAdd):
            return v
        return Other('unary')

    def ev_BoolOp(self, n):
        is_and = isinstance(n.op, ast.And)
        last = None
        for x in n.values:
            last = self.ev(x)
            b = self.truth(last)
            if b is None:
                b = self.choose(2, f"boolop line {n.lineno}") == 0
            if is_and and not b:
                return last if isinstance(last, (NoneV,)) else Bool(False)
            if not is_and and b:
                return last if not isinstance(last, Bool) else Bool(True)
        return last if not isinstance(last, Bool) else Bool(is_and)

    def ev_IfExp(self, n):
        src = getattr(n, '_psa_src', None)
        if src is None:
            src = n._psa_src = unparse(n.test)
        if 'config.precisions' in src:
            return Other('precision')
        b = self.decide(self.ev(n.test), f"ifexp line {n.lineno}")
        return self.ev(n.body if b else n.orelse)

    def ev_BinOp(self, n):
        a, b = self.ev(n.left), self.ev(n.right)
        hook = self.opts.get('binop_hook')
        if hook is not None:
            r = hook(self, n, a, b)
            if r is not None:
                return r
        if isinstance(n.op, ast.Add):
            ta, tb = self.as_tstr(a), self.as_tstr(b)
            if ta is not None and ta.is_literal() and ta.text() == '1 ' and isinstance(b, UserStr) and tb is None:
                self.memo.setdefault(('role', b.name), 'concentration')
                return UserC1(b.name)
            if ta is not None and tb is not None:
                return S(ta.concat(tb))
            if (ta is not None or tb is not None) and (isinstance(a, Other) or isinstance(b, Other)):
                return Other('strcat')
            if isinstance(a, list) and isinstance(b, list):
                r = type(a)(list(a) + list(b))
                return r
        if isinstance(n.op, ast.Mult) and isinstance(a, list) and not is_num(a):
            r = ListV(a)
            r.open = True
            r.elem = a[0] if a else Other('elem')
            return r
        if isinstance(n.op, ast.BitOr):
            if isinstance(a, DictV) and isinstance(b, DictV):
                # dict union: on a key collision the RIGHT operand wins
                d = DictV()
                d.update(a)
                d.update(b)
                d.pairs = list(a.pairs) + list(b.pairs)
                if getattr(a, 'open', False) or getattr(b, 'open', False):
                    d.open = True
                return d
            return Other('union')
        return self.arith(n.op, a, b, n)

    def ev_Compare(self, n):
        left = self.ev(n.left)
        res = True
        unknown = False
        prev_node = n.left
        for op, rn in zip(n.ops, n.comparators):
            right = self.ev(rn)
            # a threshold built from the internal precision (`abs(x) < 10 ** -config.internal_precision`) is meant for values
            # in storage units (that is what the precision counts digits of): in base units it is a million times coarser
            if isinstance(op, (ast.Lt, ast.LtE, ast.Gt, ast.GtE)):
                for val, node, other in ((left, prev_node, rn), (right, rn, prev_node)):
                    if isinstance(val, Num) and 'internal_precision' in ast.unparse(other) and \
                            not any(isinstance(y, ast.Call) and isinstance(y.func, ast.Name) and y.func.id == 'round' for y in ast.walk(other)):
                        self.sink(n, 'storage-compare', val.unit.has_storage_symbol(),
                                  f"a value in {val.unit} is compared with a threshold of the internal precision, which counts digits "
                                  f"of storage units: amounts representable in storage are treated as nothing")
            prev_node = rn
            r = self.compare(left, op, right, n)
            if r is False:
                return Bool(False)
            if r is None:
                unknown = True
            left = right
        return Bool(None if unknown else True)

    def compare(self, a, op, b, n):
        # identity / None
        if isinstance(op, (ast.Is, ast.IsNot)):
            if isinstance(b, NoneV) or isinstance(a, NoneV):
                r = isinstance(a, NoneV) and isinstance(b, NoneV)
                return r if isinstance(op, ast.Is) else not r
            return None
        if isinstance(op, (ast.In, ast.NotIn)):
            r = self.member(a, b, n)
            if r is None:
                return None
            return r if isinstance(op, ast.In) else not r
        # set displays: equal when they have the same members, in any order (decided for literal members)
        if isinstance(op, (ast.Eq, ast.NotEq)) and getattr(a, 'is_set', False) and getattr(b, 'is_set', False):
            def key(v):
                if isinstance(v, S) and v.t.is_literal():
                    return ('s', v.t.text())
                if isinstance(v, Lit):
                    return ('n', v.v)
                return None
            ka, kb = [key(v) for v in a], [key(v) for v in b]
            if None in ka or None in kb:
                return None
            r = set(ka) == set(kb)
            return r if isinstance(op, ast.Eq) else not r
        # sequences: element-wise, three-valued
        if isinstance(op, (ast.Eq, ast.NotEq)) and isinstance(a, (Tup, ListV)) and isinstance(b, (Tup, ListV)) and \
                not getattr(a, 'open', False) and not getattr(b, 'open', False) and \
                not isinstance(a, DictV) and not isinstance(b, DictV):
            if type(a) is not type(b) or len(a) != len(b):
                r = False
            else:
                r = True
                for x, y in zip(a, b):
                    e = self.compare(x, ast.Eq(), y, n)
                    if e is False:
                        r = False
                        break
                    if e is None:
                        r = None
            if r is None:
                return None
            return r if isinstance(op, ast.Eq) else not r
        # strings
        ta, tb = self.as_tstr(a), self.as_tstr(b)
        if isinstance(op, (ast.Eq, ast.NotEq)) and ta is not None and tb is not None:
            r = None
            if tb.is_literal():
                r = self.str_equals(ta, tb.text(), n)
            elif ta.is_literal():
                r = self.str_equals(tb, ta.text(), n)
            elif ta.key() == tb.key():
                r = True
            if r is None:
                return None
            return r if isinstance(op, ast.Eq) else not r
        if isinstance(op, (ast.Eq, ast.NotEq)) and (ta is not None or tb is not None) and (is_num(a) or is_num(b)):
            self.sink(n, 'type-compare', False, 'a number is compared with a string: the test is constantly false')
            return isinstance(op, ast.NotEq)
        if isinstance(a, Subst) and isinstance(b, Subst) and isinstance(op, (ast.Eq, ast.NotEq)):
            if a.ident == b.ident:
                r = True
            elif a.kind != b.kind:
                r = False
            else:
                return None
            return r if isinstance(op, ast.Eq) else not r
        if isinstance(a, NoneV) or isinstance(b, NoneV):
            if isinstance(op, (ast.Eq, ast.NotEq)):
                r = isinstance(a, NoneV) and isinstance(b, NoneV)
                return r if isinstance(op, ast.Eq) else not r
            raise Raised('TypeError', n.lineno)
        if is_num(a) and is_num(b):
            if isinstance(a, Lit) and isinstance(b, Lit):
                return {ast.Lt: a.v < b.v, ast.LtE: a.v <= b.v, ast.Gt: a.v > b.v, ast.GtE: a.v >= b.v,
                        ast.Eq: a.v == b.v, ast.NotEq: a.v != b.v}[type(op)]
            self.compare_sink(a, b, n)
            return None
        return None

    def compare_sink(self, a, b, n):
        """C18.R3: a comparison must be scale-free - same units, or a storage-independent value against a constant."""
        if isinstance(a, Num) and isinstance(b, Num):
            self.check_same(a.unit, b.unit, n, 'compare-units', 'comparison of values of different units')
            return
        x, k = (a, b) if isinstance(a, Num) else (b, a)
        if isinstance(x, Num) and isinstance(k, Lit):
            if k.v == 0 or math.isinf(k.v):
                self.sink(n, 'compare-units', True)
            else:
                self.sink(n, 'storage-compare', not x.unit.has_storage_symbol(),
                          f"a stored value ({x.unit}) is compared with the constant {k.v:g}: the decision depends on "
                          f"the storage configuration")
        else:
            self.sink(n, 'compare-units', True)

    def str_equals(self, t: TStr, lit, n):
        if len(t.tokens) == 1 and t.tokens[0][0] == 'tail':
            k, parent = t.tokens[0][1], t.tokens[0][2]
            if len(lit) != k:
                return False
            return parent.endswith(lit)
        if any(tok[0] == 'pre' and tok[1] in ('PVS', 'PMS') for tok in t.tokens):
            self.sink(n, 'config-compare', False, f"a storage-unit configuration string is compared with the "
                                                  f"literal {lit!r}: behaviour depends on the storage setting")
        verdict, binding = t.equals(lit)
        if verdict is not None:
            return verdict
        if binding is None:
            return None
        # the comparison holds iff the symbolic prefix is a particular text: explore both
        if self.choose(2, f"string equality line {getattr(n, 'lineno', 0)}") == 0:
            self.pre_bind.update(binding)
            return True
        return False

    def member(self, a, b, n):
        ta = self.as_tstr(a)
        if isinstance(b, (Tup, ListV)) and not getattr(b, 'open', False):
            if ta is not None:
                res = False
                for x in b:
                    tx = self.as_tstr(x)
                    if tx is not None and tx.is_literal():
                        r = self.str_equals(ta, tx.text(), n)
                        if r is True:
                            return True
                        if r is None:
                            res = None
                return res
            if isinstance(a, Subst):
                return None
            if isinstance(a, Other) and a.d.startswith('type-of:'):
                return None
            return None
        if isinstance(b, DictV) and b.pairs and not (ta is not None and ta.is_literal()) and not isinstance(a, Lit):
            return None
        if isinstance(b, DictV):
            if ta is not None and ta.is_literal():
                return ta.text() in b
            if isinstance(a, Lit):
                return a.v in b
            if ta is not None:
                res = False
                for k in b:
                    if isinstance(k, str):
                        r = self.str_equals(ta, k, n)
                        if r is True:
                            return True
                        if r is None:
                            res = None
                return res
            return None
        tb = self.as_tstr(b)
        if ta is not None and tb is not None and ta.is_literal():
            return tb.contains(ta.text())
        if isinstance(b, Contents):
            return None
        if isinstance(b, Obj) or isinstance(b, Other):
            return None
        return None

    def ev_JoinedStr(self, n):
        # f"1 {units}" is '1 ' + units: one unit of the user's concentration spelling
        if len(n.values) == 2 and isinstance(n.values[0], ast.Constant) and n.values[0].value == '1 ' and \
                isinstance(n.values[1], ast.FormattedValue) and n.values[1].format_spec is None and n.values[1].conversion == -1:
            b = self.ev(n.values[1].value)
            if isinstance(b, UserStr) and self.as_tstr(b) is None:
                self.memo.setdefault(('role', b.name), 'concentration')
                return UserC1(b.name)
        toks = []
        formatted = []
        for v in n.values:
            if isinstance(v, ast.Constant):
                toks.append(('lit', str(v.value)))
            elif isinstance(v, ast.FormattedValue):
                x = self.ev(v.value)
                tx = self.as_tstr(x)
                if tx is not None:
                    toks.extend(tx.tokens)
                else:
                    toks.append(('num', self.new_sym('v'), x))
                    if v.format_spec is not None and is_num(x) and not isinstance(x, Lit):
                        formatted.append(unparse(v.format_spec))
        t = TStr(toks)
        self.check_pairs(t, n)
        if formatted and self.quantity_of(S(t), n) is not None:
            # a quantity string is read again by the library: a format specification writes a fixed number of digits
            # (':f' keeps six decimals), so the amount that is parsed back is not the amount that was computed
            self.sink(n, 'qstr-format', False, f"the number of a quantity string that is parsed again is written with the "
                                               f"format {formatted[0]}: digits beyond it are dropped")
        return S(t)

    def ev_FormattedValue(self, n):
        return self.ev(n.value)

    def ev_Subscript(self, n):
        o = self.ev(n.value)
        sl = n.slice
        t = self.as_tstr(o)
        if t is not None:
            return self.str_subscript(t, sl, n)
        if isinstance(sl, ast.Slice):
            if isinstance(o, (Tup, ListV)):
                lo = self.ev(sl.lower) if sl.lower is not None else None
                hi = self.ev(sl.upper) if sl.upper is not None else None
                if (lo is None or isinstance(lo, Lit)) and (hi is None or isinstance(hi, Lit)) and sl.step is None:
                    r = type(o)(o[(int(lo.v) if lo else None):(int(hi.v) if hi else None)])
                    return r
            hook = self.opts.get('subscript_hook')
            if hook is not None:
                r = hook(self, n, o, None)
                if r is not None:
                    return r
            return Other('slice-of')
        i = self.ev(sl)
        hook = self.opts.get('subscript_hook')
        if hook is not None:
            r = hook(self, n, o, i)
            if r is not None:
                return r
        if isinstance(o, Contents):
            if isinstance(i, Subst):
                return Num(AMT(i.kind))
            self.incomplete(n, f"contents[{i!r}]")
        if isinstance(o, (Tup, ListV)) and isinstance(i, Lit):
            k = int(i.v)
            if getattr(o, 'open', False):
                return o.elem
            if -len(o) <= k < len(o):
                return o[k]
            raise Raised('IndexError', n.lineno)
        if isinstance(o, DictV) and isinstance(i, Tup) and any(isinstance(k, tuple) for k in o):
            # a table keyed by tuples of literals, looked up with a tuple of (possibly symbolic) strings / numbers
            for k, v in o.items():
                if not (isinstance(k, tuple) and len(k) == len(i)):
                    continue
                hit = True
                for kc, ic in zip(k, i):
                    if isinstance(ic, Lit):
                        hit = hit and ic.v == kc
                    else:
                        ti_ = self.as_tstr(ic)
                        if ti_ is None or not isinstance(kc, str):
                            return Other('dict-lookup')
                        hit = hit and self.str_equals(ti_, kc, n)
                    if not hit:
                        break
                if hit:
                    return v
            raise Raised('KeyError', n.lineno)
        if isinstance(o, DictV) and o.pairs and not (isinstance(i, Lit) or (isinstance(i, S) and i.t.is_literal())):
            return o.pairs[-1][1]
        if isinstance(o, Obj) and 'elem' in o.attrs:
            return o.attrs['elem']
        if isinstance(o, DictV):
            key = i.v if isinstance(i, Lit) else i.t.text() if isinstance(i, S) and i.t.is_literal() else None
            if key is not None:
                if key in o:
                    return o[key]
                for k in o:     # float keys: tolerate representation noise
                    if isinstance(k, float) and isinstance(key, float) and math.isclose(k, key, rel_tol=1e-9):
                        return o[k]
                raise Raised('KeyError', n.lineno)
            ti = self.as_tstr(i)
            if ti is not None:
                for k, v in o.items():
                    if isinstance(k, str) and self.str_equals(ti, k, n):
                        return v
                raise Raised('KeyError', n.lineno)
            return Other('dict-lookup')
        if isinstance(o, Obj) and o.what == 'wells':
            return Cont(self.new_sym('well'))
        if isinstance(o, Obj) and o.what == 'Plate':
            return Obj('PlateSlicer', {'plate': o})
        if isinstance(o, (Tup, ListV)) and getattr(o, 'open', False):
            return o            # a slice / selection of an open sequence
        if isinstance(o, Other) or isinstance(o, Obj):
            return Other('subscript')
        return Other('subscript')

    def str_subscript(self, t: TStr, sl, n):
        if isinstance(sl, ast.Slice):
            if sl.step is not None:
                self.incomplete(n, 'stepped string slice')
            lo = self.ev(sl.lower) if sl.lower is not None else None
            hi = self.ev(sl.upper) if sl.upper is not None else None
            if lo is None and isinstance(hi, Lit) and hi.v < 0:
                return S(t.strip_tail(int(-hi.v)))
            if hi is None and isinstance(lo, Lit) and lo.v < 0:
                r = t.tail(int(-lo.v))
                if r is not None:
                    return S(r)
                return S(TStr([('tail', int(-lo.v), t)]))
            return S(TStr([('bad', f"slice [{unparse(sl)}] of a unit string is not a suffix operation")]))
        i = self.ev(sl)
        if isinstance(i, Lit):
            return S(t.char_at(int(i.v)))
        self.incomplete(n, 'string index')

    # ------------------------------------------------------------------ comprehension / iteration
    def iterate(self, it, node):
        """Abstract elements of an iterable: list of values (one per abstract element)."""
        if isinstance(it, Items):
            kinds = [k for k in KINDS if it.filt is None or k in it.filt]
            if it.what == 'items':
                return [Tup([Subst(k, f"item:{k}"), Num(AMT(k))]) for k in kinds]
            if it.what == 'keys':
                return [Subst(k, f"item:{k}") for k in kinds]
            return [Num(AMT(k)) for k in kinds]
        if isinstance(it, Contents):
            return [Subst(k, f"item:{k}") for k in KINDS if it.filt is None or k in it.filt]
        if isinstance(it, Gen):
            return list(it.values)
        if isinstance(it, (Tup, ListV)):
            if getattr(it, 'open', False):
                return [it.elem]
            return list(it)
        if isinstance(it, DictV):
            return [S(k) if isinstance(k, str) else Lit(k) for k in it] + [k for k, v in it.pairs]
        hook = self.opts.get('iter_hook')
        if hook is not None:
            r = hook(self, it, node)
            if r is not None:
                return r
        if isinstance(it, Other) and it.d == 'range':
            return [Other('index')]
        if isinstance(it, Other) and not self.opts.get('strict_other', True):
            return [Other('elem')]
        self.incomplete(node, f"iteration over {it!r}")

    def comp(self, n, elt_fn):
        out = []

        def rec(gi):
            if gi == len(n.generators):
                out.append(elt_fn())
                return
            g = n.generators[gi]
            for e in self.iterate(self.ev(g.iter), n):
                self.bind(g.target, e, n)
                ok = True
                for c in g.ifs:
                    if not self.decide(self.ev(c), f"comprehension filter line {n.lineno}"):
                        ok = False
                        break
                if ok:
                    rec(gi + 1)
        saved = self.env
        self.env = Env({}, saved)
        try:
            rec(0)
        finally:
            self.env = saved
        return out

    def ev_GeneratorExp(self, n):
        return Gen(self.comp(n, lambda: self.ev(n.elt)))

    def ev_ListComp(self, n):
        return ListV(self.comp(n, lambda: self.ev(n.elt)))

    def ev_SetComp(self, n):
        return ListV(self.comp(n, lambda: self.ev(n.elt)))

    def ev_DictComp(self, n):
        # {k: v for k, v in X.contents.items() if ...}: a filtered copy of contents
        g = n.generators[0]
        it = self.ev(g.iter)
        if isinstance(it, Items) and it.what == 'items':
            kept = set()
            saved = self.env
            self.env = Env({}, saved)
            try:
                for e in self.iterate(it, n):
                    self.bind(g.target, e, n)
                    keep = True
                    for c in g.ifs:
                        b = self.truth(self.ev(c))
                        if b is False:
                            keep = False
                    if keep:
                        k, v = self.ev(n.key), self.ev(n.value)
                        if not isinstance(v, (Num, Lit)):
                            # not a copy of contents: a table derived from them (substance -> (value, unit), ..)
                            derived = derived if 'derived' in locals() else DictV()
                            derived.pairs.append((k, v))
                            continue
                        if isinstance(k, Subst):
                            self.check_same(self.as_unit(v, n, True), AMT(k.kind), n, 'store-contents',
                                            f"value kept for a {k.kind} is not in its storage unit")
                            kept.add(k.kind)
            finally:
                self.env = saved
            if 'derived' in locals():
                return derived
            return Contents(Cont('filtered'), filt=kept)
        pairs = self.comp(n, lambda: (self.ev(n.key), self.ev(n.value)))
        d = DictV()
        literal = True
        for k, v in pairs:
            key = k.t.text() if isinstance(k, S) and k.t.is_literal() else k.v if isinstance(k, Lit) else None
            if key is None:
                literal = False
                d[repr(k)] = v
            else:
                d[key] = v
        if not literal:
            d.open = True
        return d

    def ev_Lambda(self, n):
        return Closure(n, self.env, '<lambda>')

    def ev_Starred(self, n):
        return self.ev(n.value)

    def ev_NamedExpr(self, n):
        v = self.ev(n.value)
        self.bind(n.target, v, n)
        return v

    # ------------------------------------------------------------------ calls
    def ev_Call(self, n):
        from . import unitai_calls
        return unitai_calls.call(self, n)

    # ------------------------------------------------------------------ binding
    def bind(self, target, v, node):
        if isinstance(target, ast.Name):
            self.env.set(target.id, v)
            if isinstance(v, Num):
                self.R.bound.setdefault((getattr(target, 'lineno', 0), target.id), set()).add(repr(self.bound_unit(v.unit)))
            elif isinstance(v, Lit):
                self.R.bound.setdefault((getattr(target, 'lineno', 0), target.id), set()).add('0' if v.v == 0 else 'literal')
        elif isinstance(target, (ast.Tuple, ast.List)):
            elts = target.elts
            if any(isinstance(e, ast.Starred) for e in elts):
                if isinstance(v, list):
                    idx = [i for i, e in enumerate(elts) if isinstance(e, ast.Starred)][0]
                    after = len(elts) - idx - 1
                    for e, x in zip(elts[:idx], v[:idx]):
                        self.bind(e, x, node)
                    self.bind(elts[idx].value, ListV(v[idx:len(v) - after]), node)
                    for e, x in zip(elts[idx + 1:], v[len(v) - after:]):
                        self.bind(e, x, node)
                    return
                self.incomplete(node, 'starred unpacking of a non-sequence')
            if isinstance(v, Gen):
                v = ListV(v.values)
            if isinstance(v, list) and not getattr(v, 'open', False):
                if len(v) != len(elts):
                    raise Raised('ValueError', getattr(node, 'lineno', 0))
                for e, x in zip(elts, v):
                    self.bind(e, x, node)
            elif isinstance(v, Other):
                for e in elts:
                    self.bind(e, Other('unpacked:' + v.d), node)
            else:
                hook = self.opts.get('unpack_hook')
                r = hook(self, v, len(elts), node) if hook is not None else None
                if r is None:
                    self.incomplete(node, f"unpacking of {v!r}")
                for e, x in zip(elts, r):
                    self.bind(e, x, node)
        elif isinstance(target, ast.Attribute):
            o = self.ev(target.value)
            if isinstance(o, Cont):
                if target.attr in ('volume', 'max_volume'):
                    self.check_same(self.as_unit(v, target, True) if is_num(v) else None, PVS_L, target,
                                    'store-volume', f"store to .{target.attr} of a value that is not a stored volume")
                    o.fields[target.attr] = Num(PVS_L) if not is_zero(v) else Num(PVS_L)
                elif target.attr == 'contents':
                    o.fields['contents'] = v if isinstance(v, Contents) else Contents(o)
                    if isinstance(v, Contents):
                        v.owner = o
                else:
                    if target.attr == 'instructions':
                        pass
                    o.fields[target.attr] = v
            elif isinstance(o, Obj):
                o.attrs[target.attr] = v
            elif isinstance(o, Subst):
                pass
        elif isinstance(target, ast.Subscript):
            o = self.ev(target.value)
            hook = self.opts.get('store_hook')
            if hook is not None and hook(self, target, o, v):
                return
            if isinstance(o, Contents):
                k = self.ev(target.slice)
                if not isinstance(k, Subst):
                    self.incomplete(target, f"store to contents[{k!r}]")
                self.check_same(self.as_unit(v, target, True), AMT(k.kind), target, 'store-contents',
                                f"store to contents of a {k.kind}: value is not in its storage unit")
            elif isinstance(o, (ListV, Tup)):
                i = self.ev(target.slice)
                if isinstance(i, Lit) and not getattr(o, 'open', False) and -len(o) <= int(i.v) < len(o):
                    o[int(i.v)] = v
            elif isinstance(o, DictV):
                i = self.ev(target.slice)
                key = i.v if isinstance(i, Lit) else i.t.text() if isinstance(i, S) and i.t.is_literal() else None
                if key is not None:
                    o[key] = v
                else:
                    o.pairs.append((i, v))
        else:
            self.incomplete(node, 'assignment target')

    # ------------------------------------------------------------------ statements
    def run(self, body):
        for s in body:
            self.st(s)

    def st(self, n):
        self.cur_line = getattr(n, 'lineno', self.cur_line)
        m = getattr(self, 'st_' + type(n).__name__, None)
        if m is None:
            self.incomplete(n, f"statement {type(n).__name__}")
        m(n)

    def st_Expr(self, n):
        if not isinstance(n.value, ast.Constant):
            self.ev(n.value)

    def st_Pass(self, n):
        pass

    def st_Assign(self, n):
        v = self.ev(n.value)
        for t in n.targets:
            self.bind(t, v, n)

    def st_AnnAssign(self, n):
        if n.value is not None:
            self.bind(n.target, self.ev(n.value), n)

    def st_AugAssign(self, n):
        import copy as _copy
        load = _copy.copy(n.target)
        load.ctx = ast.Load()
        cur = self.ev(load)
        v = self.ev(n.value)
        if isinstance(n.target, ast.Attribute) and n.target.attr == 'instructions':
            return
        tc, tv = self.as_tstr(cur), self.as_tstr(v)
        if isinstance(n.op, ast.Add) and (tc is not None or tv is not None or isinstance(cur, Other) and isinstance(v, (S, Other))):
            self.bind(n.target, S(tc.concat(tv)) if tc is not None and tv is not None else Other('strcat'), n)
            return
        hook = self.opts.get('binop_hook')
        r = hook(self, n, cur, v) if hook is not None else None
        if r is None:
            r = self.arith(n.op, cur, v, n)
        self.bind(n.target, r, n)

    def st_If(self, n):
        t = self.ev(n.test)
        b = self.truth(t)
        if b is None and self.try_depth == 0:
            # a refusing branch (`if <data test>: raise E`): record the refusal and go on with the passing side
            # instead of forking the whole exploration - the state after a raise is never used
            for arm, other, val in ((n.body, n.orelse, False), (n.orelse, n.body, True)):
                if len(arm) == 1 and isinstance(arm[0], ast.Raise) and not (len(other) == 1 and isinstance(other[0], ast.Raise)):
                    self.note_raise(arm[0])
                    b = val
                    break
        if b is None:
            b = self.choose(2, f"if line {n.lineno}") == 0
            if b and isinstance(n.test, ast.Compare) and len(n.test.ops) == 1 and isinstance(n.test.ops[0], ast.Eq) and \
                    isinstance(n.test.left, ast.Name) and isinstance(n.test.comparators[0], ast.Constant) and \
                    n.test.comparators[0].value == 0 and isinstance(self.env.get(n.test.left.id), Num):
                self.env.set(n.test.left.id, Lit(0.0))      # on this arm the variable is zero
        self.run(n.body if b else n.orelse)

    def note_raise(self, r):
        try:
            self.st_Raise(r)
        except Raised as exc:
            self.R.outcomes.append(('raise', exc.t, exc.line, self))
        except Incomplete:
            raise

    def st_For(self, n):
        it = self.ev(n.iter)
        elems = self.iterate(it, n)
        broke = False
        for e in elems:
            self.bind(n.target, e, n)
            try:
                self.run(n.body)
            except BreakLoop:
                broke = True
                break
            except ContinueLoop:
                continue
        if not broke:
            self.run(n.orelse)

    def st_While(self, n):
        limit = self.opts.get('while_unroll', 8)
        for it in range(limit + 1):
            t = self.ev(n.test)
            b = self.truth(t)
            if b is False:
                break
            if b is None:
                if self.choose(2, f"while line {n.lineno} iteration {it}") == 1:
                    break
            if it == limit:
                self.sink(n, 'unbounded-loop', False,
                          f"loop is not bounded by a constant condition ({limit} unrollings)")
                break
            try:
                self.run(n.body)
            except BreakLoop:
                return
            except ContinueLoop:
                continue
        self.run(n.orelse)

    def st_Break(self, n):
        raise BreakLoop()

    def st_Continue(self, n):
        raise ContinueLoop()

    def st_Return(self, n):
        raise Return(self.ev(n.value) if n.value is not None else NONE)

    def st_Raise(self, n):
        e = n.exc
        if e is None:
            raise Raised('re-raise', n.lineno)
        if isinstance(e, ast.Call):
            for a in e.args:
                try:
                    self.ev(a)
                except (Incomplete, Raised):
                    pass
            e = e.func
        name = e.id if isinstance(e, ast.Name) else e.attr if isinstance(e, ast.Attribute) else '?'
        raise Raised(name, n.lineno)

    def st_Assert(self, n):
        t = self.ev(n.test)
        b = self.truth(t)
        if b is False:
            self.sink(n, 'assert', False, 'assertion can fail on this path')
            raise Raised('AssertionError', n.lineno)
        else:
            self.sink(n, 'assert', True)

    def st_FunctionDef(self, n):
        src = getattr(n, '_psa_src', None)
        if src is None:
            src = n._psa_src = unparse(n, 100000)
        if not any(k in src for k in ('Unit.', '.contents', 'get_volume', 'get_concentration', '.transfer(', '.volume',
                                      '.remove(', '.fill_to(', '.dilute(', '_add(')):
            # a helper without any unit content (string formatting, address arithmetic): kept opaque
            self.env.set(n.name, Other('opaque-closure:' + n.name))
            return
        self.env.set(n.name, Closure(n, self.env, n.name))

    def st_Try(self, n):
        self.try_depth += 1
        try:
            try:
                self.run(n.body)
            finally:
                self.try_depth -= 1
        except Raised as r:
            for h in n.handlers:
                names = []
                if h.type is None:
                    names = ['*']
                else:
                    names = [unparse(x) for x in (h.type.elts if isinstance(h.type, ast.Tuple) else [h.type])]
                if '*' in names or r.t in names or 'Exception' in names or \
                        (r.t == 'LinAlgError' and 'ValueError' in names):
                    if h.name:
                        self.env.set(h.name, Other('exception'))
                    self.run(h.body)
                    break
            else:
                self.run(n.finalbody)
                raise
        else:
            self.run(n.orelse)
        self.run(n.finalbody)

    def st_With(self, n):
        for item in n.items:
            v = self.ev(item.context_expr)
            if item.optional_vars is not None:
                self.bind(item.optional_vars, v, n)
        self.run(n.body)

    def st_Delete(self, n):
        pass

    def st_Global(self, n):
        pass

    st_Nonlocal = st_Global
    st_Import = st_Global
    st_ImportFrom = st_Global

    # ------------------------------------------------------------------ invoking repo code
    def invoke(self, fnode, args, kwargs, closure_env=None, fi=None, node=None):
        """Interpret the body of a repo function / closure with abstract arguments (inlining)."""
        if self.depth > 12:
            self.incomplete(node, 'inlining too deep')
        a = fnode.args
        params = [x.arg for x in a.posonlyargs + a.args]
        env = Env({}, closure_env)
        defaults = a.defaults
        nd = len(defaults)
        for i, p in enumerate(params):
            if i < len(args):
                env.set(p, args[i])
            elif p in kwargs:
                env.set(p, kwargs[p])
            else:
                di = i - (len(params) - nd)
                if di < 0:
                    raise Raised('TypeError', getattr(node, 'lineno', 0))
                saved_env = self.env
                self.env = env
                try:
                    env.set(p, self.ev(defaults[di]))
                finally:
                    self.env = saved_env
        if len(args) > len(params):
            if a.vararg is None:
                raise Raised('TypeError', getattr(node, 'lineno', 0))
            env.set(a.vararg.arg, Tup(args[len(params):]))
        elif a.vararg is not None:
            env.set(a.vararg.arg, Tup())
        for x, d in zip(a.kwonlyargs, a.kw_defaults):
            if x.arg in kwargs:
                env.set(x.arg, kwargs[x.arg])
            elif d is not None:
                env.set(x.arg, Other('default'))
        if a.kwarg is not None:
            d = DictV({k: v for k, v in kwargs.items() if k not in params})
            env.set(a.kwarg.arg, d)
        saved_env, saved_fi = self.env, self.fi
        self.env = env
        if fi is not None:
            self.fi = fi
        self.depth += 1
        try:
            if isinstance(fnode, ast.Lambda):
                return self.ev(fnode.body)
            self.run(fnode.body)
            return NONE
        except Return as r:
            return r.v
        finally:
            self.depth -= 1
            self.env, self.fi = saved_env, saved_fi


def explore(model, fi, make_env, opts=None, body=None, result=None):
    """Depth-first exploration of all choice sequences of function `fi` (or of the statement list `body`)."""
    R = result if result is not None else Result()
    stack = [[]]
    stmts = body if body is not None else (fi.node.body if not isinstance(fi.node, ast.Lambda) else None)
    local_paths = 0
    while stack:
        prefix = stack.pop()
        arity = []
        it = Interp(model, R, list(prefix), arity, opts, fi)
        it.env = Env(make_env(it))
        try:
            if stmts is None:
                v = it.ev(fi.node.body)
                R.outcomes.append(('return', v, fi.node.lineno, it))
            else:
                it.run(stmts)
                R.outcomes.append(('fallthrough', NONE, 0, it))
        except Return as r:
            R.outcomes.append(('return', r.v, it.cur_line, it))
        except Raised as r:
            R.outcomes.append(('raise', r.t, r.line, it))
        except (BreakLoop, ContinueLoop):
            raise Incomplete(f"{fi.qualname}: break/continue outside a loop")
        R.paths += 1
        local_paths += 1
        if local_paths > MAX_PATHS:
            raise Incomplete(f"{fi.qualname}: more than {MAX_PATHS} paths")
        for i in range(len(prefix), len(it.choices)):
            for alt in range(1, arity[i] if i < len(arity) else 2):
                stack.append(it.choices[:i] + [alt])
    return R

"""Self-validation of the checker (DESIGN section 3): seeded variants of the *current* sources, built in memory.

A variant rewrites one function: the function is located by qualified name in the current tree, its body is
normalised with ast.unparse (so that formatting and comments do not matter), a snippet is replaced, and the
function's line range in the file is spliced with the result.  Nothing is written to /repo.  A *firing* variant
breaks one obligation in a way that still parses; the named property's rules must report a new violation.  A
*silent* variant is a behaviour-preserving edit; no rule of the named properties may report anything new.  A variant
whose anchor (function or snippet) no longer exists is reported as skipped."""
from __future__ import annotations

import ast
import importlib
import os
import sys
import textwrap
import time
from concurrent.futures import ProcessPoolExecutor

from .model import Model, MODULES, AnalysisError


class Variant:
    def __init__(self, vid, props, kind, qualname, old, new, why, module='pyplate/pyplate.py', count=1):
        self.vid, self.props, self.kind = vid, props, kind            # kind: 'fire' | 'silent'
        self.qualname, self.old, self.new, self.why, self.module, self.count = qualname, old, new, why, module, count


def _find_function(tree, qualname):
    parts = qualname.split('.')
    nodes = tree.body
    node = None
    for p in parts:
        found = None
        for n in nodes:
            if isinstance(n, (ast.ClassDef, ast.FunctionDef)) and n.name == p:
                found = n
                break
        if found is None:
            return None
        node = found
        nodes = found.body
    return node if isinstance(node, ast.FunctionDef) else None


def apply_variant(v: Variant, sources):
    """Returns mutated sources, or None if the anchor is missing."""
    src = sources[v.module]
    tree = ast.parse(src)
    fn = _find_function(tree, v.qualname)
    if fn is None:
        return None
    text = ast.unparse(fn)
    if text.count(v.old) < 1:
        return None
    new_text = text.replace(v.old, v.new, v.count)
    if new_text == text:
        return None
    try:
        ast.parse(new_text)
    except SyntaxError:
        return None
    lines = src.splitlines(keepends=True)
    start = min([fn.lineno] + [d.lineno for d in fn.decorator_list]) - 1
    end = fn.end_lineno
    indent = ' ' * fn.col_offset
    block = textwrap.indent(new_text, indent) + '\n'
    out = dict(sources)
    out[v.module] = ''.join(lines[:start]) + block + ''.join(lines[end:])
    return out


def current_sources(root=None):
    root = root or os.environ.get('PSA_REPO', '/repo')
    out = {}
    for rel in MODULES + ['pyplate/pyplate.yaml']:
        with open(os.path.join(root, rel), encoding='utf-8') as fh:
            out[rel] = fh.read()
    return out


def violations_of(prop, sources):
    """Set of (rule, function, key) of unlisted violations of property `prop` on the given sources."""
    from . import report
    from . import uscan
    uscan._cache.clear()
    model = Model(sources=sources)
    ctx = report.Ctx(model, prop, 'quick')
    mod = importlib.import_module(f"psa.rules.{prop.lower()}")
    mod.run(ctx)
    known = report.load_known()
    out = set()
    for o in ctx.obs:
        if o.ok or report.match_known(o, prop, known) is not None:
            continue
        out.add((o.rule, o.func, o.key))
    return out


def _eval(args):
    vid, prop, kind = args
    v = CATALOGUE_BY_ID[vid]
    try:
        base_src = current_sources()
        mutated = apply_variant(v, base_src)
        if mutated is None:
            return vid, prop, 'skipped', 'anchor not found'
        base = _BASELINE.get(prop)
        if base is None:
            base = violations_of(prop, base_src)
        try:
            got = violations_of(prop, mutated)
        except AnalysisError as exc:
            # an uninterpretable variant counts as detected for firing variants (fail-closed), as a failure for silent
            return vid, prop, ('fired' if kind == 'fire' else 'FAILED'), f"analysis error: {exc}"[:200]
        new = got - base
        if kind == 'fire':
            return vid, prop, ('fired' if new else 'FAILED'), '; '.join(f"{r} {f}: {k}" for r, f, k in sorted(new)[:2])[:240]
        return vid, prop, ('silent' if not new else 'FAILED'), '; '.join(f"{r} {f}: {k}" for r, f, k in sorted(new)[:2])[:240]
    except Exception as exc:      # checker fault
        return vid, prop, 'FAILED', f"{type(exc).__name__}: {exc}"[:200]


_BASELINE = {}


def run_for(prop, seed=0, jobs=None, only=None):
    from .variants_catalogue import CATALOGUE
    global CATALOGUE_BY_ID
    CATALOGUE_BY_ID = {v.vid: v for v in CATALOGUE}
    todo = [(v.vid, prop, v.kind) for v in CATALOGUE if prop in v.props and (only is None or v.vid in only)]
    if seed:
        import random
        random.Random(seed).shuffle(todo)
    _BASELINE[prop] = violations_of(prop, current_sources())
    results = []
    jobs = jobs or min(16, max(1, len(todo)))
    if len(todo) <= 1 or jobs == 1:
        results = [_eval(t) for t in todo]
    else:
        with ProcessPoolExecutor(max_workers=jobs) as ex:
            results = list(ex.map(_eval, todo))
    fired = [r for r in results if r[2] == 'fired']
    silent = [r for r in results if r[2] == 'silent']
    skipped = [r for r in results if r[2] == 'skipped']
    failed = [r for r in results if r[2] == 'FAILED']
    nfire = sum(1 for t in todo if t[2] == 'fire') - sum(1 for r in skipped if CATALOGUE_BY_ID[r[0]].kind == 'fire')
    nsil = sum(1 for t in todo if t[2] == 'silent') - sum(1 for r in skipped if CATALOGUE_BY_ID[r[0]].kind == 'silent')
    return {'fired': f"{len(fired)}/{nfire}", 'silent': f"{len(silent)}/{nsil}", 'skipped': len(skipped),
            'failed': [f"{r[0]}: {r[3]}" for r in failed],
            'details': [{'variant': r[0], 'outcome': r[2], 'report': r[3]} for r in results]}


def main(argv):
    from .cli import PROPS
    props = [a.upper() for a in argv if not a.startswith('-')] or PROPS
    verbose = '-v' in argv
    rc = 0
    t0 = time.time()
    for p in props:
        r = run_for(p)
        print(f"{p}: fired {r['fired']} silent {r['silent']} skipped {r['skipped']} failed {len(r['failed'])}")
        for f in r['failed']:
            print('   FAILED', f)
            rc = 2
        if verbose:
            for d in r['details']:
                print(f"   {d['outcome']:8s} {d['variant']}: {d['report']}")
    print(f"self-validation wall {time.time() - t0:.1f}s")
    return rc


CATALOGUE_BY_ID = {}

"""Template strings: the abstract domain for unit / quantity / concentration strings.

A template is a sequence of tokens:
  ('lit', text)            known characters
  ('pre', name)            a symbolic SI prefix: some key of the prefix table, text unknown (possibly empty)
  ('num', name, meaning)   a numeric token (digits, sign, '.', exponent; non-empty, no spaces); `meaning` says what the
                           number denotes (filled in by the interpreter: the unit the written value is expressed in,
                           or a pure symbolic scale)
  ('bad', why)             result of a character operation that cut into a symbolic prefix
String operations are evaluated exactly where the characters involved are known and three-valued otherwise."""
from __future__ import annotations

from .units import SI, U, base, sym

PREFIX_CHARS = set(''.join(SI.keys()))
NUM_CHARS = set('0123456789.+-eEinfa')      # float() also accepts 'inf' / 'nan'


class TStr:
    __slots__ = ('tokens',)

    def __init__(self, tokens):
        out = []
        for t in tokens:
            if t[0] == 'lit':
                if t[1] == '':
                    continue
                if out and out[-1][0] == 'lit':
                    out[-1] = ('lit', out[-1][1] + t[1])
                    continue
            out.append(tuple(t))
        self.tokens = out

    @staticmethod
    def lit(text):
        return TStr([('lit', text)])

    def is_literal(self):
        return all(t[0] == 'lit' for t in self.tokens)

    def text(self):
        return ''.join(t[1] for t in self.tokens)

    def key(self):
        return tuple((t[0], t[1]) for t in self.tokens)

    def outcome_unit_bindings(self):
        return None

    def concat(self, other):
        return TStr(self.tokens + other.tokens)

    def bind(self, name, text):
        return TStr([('lit', text) if (t[0] == 'pre' and t[1] == name) else t for t in self.tokens])

    def __repr__(self):
        parts = []
        for t in self.tokens:
            parts.append(t[1] if t[0] == 'lit' else '{' + t[1] + '}' if t[0] == 'pre' else '<' + t[1] + '>')
        return "'" + ''.join(parts) + "'"

    # ------------------------------------------------------------------ character level
    def _rev_chars(self, k):
        """The last k characters, last first: each a str (known), or a set of possible characters with a flag that the
        position may not exist ('pre' may be shorter); None when nothing can be said."""
        out = []
        for t in reversed(self.tokens):
            if len(out) >= k:
                break
            if t[0] == 'lit':
                for ch in reversed(t[1]):
                    out.append(ch)
                    if len(out) >= k:
                        break
            elif t[0] == 'num':
                out.append(('num',))
                while len(out) < k:
                    out.append(None)
            else:
                out.append(('pre', t[1]))
                while len(out) < k:
                    out.append(None)
        while len(out) < k:
            out.append(('end',))
        return out[:k]

    def endswith(self, lit):
        """True / False / None."""
        chars = self._rev_chars(len(lit))
        unknown = False
        for got, want in zip(chars, reversed(lit)):
            if isinstance(got, str):
                if got != want:
                    return False
            elif got is None:
                unknown = True
            elif got[0] == 'end':
                return False
            elif got[0] == 'num':
                if want not in NUM_CHARS:
                    return False
                unknown = True
            elif got[0] == 'pre':
                if want not in PREFIX_CHARS:
                    return False
                unknown = True
        return None if unknown else True

    def last_char(self):
        c = self._rev_chars(1)[0]
        return c if isinstance(c, str) else None

    def tail(self, k):
        """t[-k:] as a TStr if those characters are known literally, else None."""
        chars = self._rev_chars(k)
        if all(isinstance(c, str) for c in chars):
            return TStr.lit(''.join(reversed(chars)))
        return None

    def strip_tail(self, k):
        """t[:-k]: exact if the last k characters are literal."""
        if k == 0:
            return TStr([])
        toks = list(self.tokens)
        need = k
        while need > 0 and toks:
            t = toks[-1]
            if t[0] != 'lit':
                return TStr([('bad', f"strip of {k} characters cuts into {t[0]} token {t[1]}")])
            if len(t[1]) > need:
                toks[-1] = ('lit', t[1][:-need])
                need = 0
            else:
                need -= len(t[1])
                toks.pop()
        if need > 0:
            return TStr([('bad', f"strip of {k} characters from a shorter string")])
        return TStr(toks)

    def rstrip_chars(self, chars):
        """t.rstrip(chars): a *set* of characters is removed from the end, not a suffix.  Exact on literal tails; when
        the stripping reaches a symbolic prefix that can consist of characters of the set ('m' in 'mol'), the prefix is
        removed with it for that value: 'bad'."""
        cs = set(chars)
        toks = list(self.tokens)
        while toks:
            t = toks[-1]
            if t[0] == 'lit':
                rest = t[1].rstrip(chars)
                if rest:
                    toks[-1] = ('lit', rest)
                    break
                toks.pop()
                continue
            if t[0] == 'pre':
                common = sorted(p_ for p_ in SI if p_ and set(p_) <= cs)
                if common:
                    return TStr([('bad', f"rstrip({chars!r}) removes every trailing character of that set, not the "
                                         f"suffix: the prefix {common[0]!r} is stripped with it")])
                break
            if t[0] == 'num':
                if cs & NUM_CHARS:
                    return TStr([('bad', f"rstrip({chars!r}) can remove characters of the number")])
                break
            break
        return TStr(toks)

    def replace_all(self, old, new):
        """t.replace(old, new): EVERY occurrence is replaced.  Exact inside literal parts; a symbolic prefix that can
        contain `old` ('m' is a prefix) is rewritten too for that value: 'bad'."""
        out = []
        for t in self.tokens:
            if t[0] == 'lit':
                out.append(('lit', t[1].replace(old, new)))
            elif t[0] == 'pre':
                hit = sorted(p_ for p_ in SI if p_ and old in p_)
                if hit:
                    return TStr([('bad', f"replace({old!r}, {new!r}) rewrites every occurrence: also the prefix "
                                         f"{hit[0]!r} in front of the unit")])
                out.append(t)
            elif t[0] == 'num':
                if set(old) & NUM_CHARS:
                    return TStr([('bad', f"replace({old!r}, ..) can rewrite characters of the number")])
                out.append(t)
            else:
                out.append(t)
        return TStr(out)

    def removesuffix(self, suffix):
        """t.removesuffix(lit): exact when endswith is decided."""
        r = self.endswith(suffix)
        if r is True:
            return self.strip_tail(len(suffix))
        if r is False:
            return self
        return None

    def char_at(self, i):
        """t[i] for small literal |i|: a literal TStr, or a 'bad' token if the position is inside a symbolic token."""
        if i < 0:
            c = self._rev_chars(-i)[-1]
            if isinstance(c, str):
                return TStr.lit(c)
            return TStr([('bad', f"index [{i}] reaches into a symbolic part of the string")])
        pos = 0
        for t in self.tokens:
            if t[0] != 'lit':
                return TStr([('bad', f"index [{i}] reaches into a symbolic part of the string")])
            if pos + len(t[1]) > i:
                return TStr.lit(t[1][i - pos])
            pos += len(t[1])
        return TStr([('bad', f"index [{i}] out of range")])

    def count(self, ch):
        return sum(t[1].count(ch) for t in self.tokens if t[0] == 'lit')

    def contains(self, sub):
        for t in self.tokens:
            if t[0] == 'lit' and sub in t[1]:
                return True
        if self.is_literal():
            return False
        if len(sub) == 1 and sub not in PREFIX_CHARS and sub not in NUM_CHARS:
            return False
        return None

    def split(self, sep):
        """Split at a literal separator (only found inside literal tokens)."""
        parts = [[]]
        for t in self.tokens:
            if t[0] == 'lit' and sep in t[1]:
                pieces = t[1].split(sep)
                parts[-1].append(('lit', pieces[0]))
                for p in pieces[1:]:
                    parts.append([('lit', p)])
            else:
                parts[-1].append(t)
        return [TStr(p) for p in parts]

    def split_ws(self):
        return [p for p in self.split(' ') if p.tokens]

    def equals(self, lit):
        """(verdict, binding): verdict True/False/None; if None, `binding` gives prefix bindings that make it true."""
        if self.is_literal():
            return self.text() == lit, None
        # [pre(P), lit(X)]: equal iff P + X == lit  -> P = lit[:-len(X)] if lit ends with X and that is an SI prefix
        if len(self.tokens) == 2 and self.tokens[0][0] == 'pre' and self.tokens[1][0] == 'lit':
            x = self.tokens[1][1]
            if lit.endswith(x) and lit[:len(lit) - len(x)] in SI:
                return None, {self.tokens[0][1]: lit[:len(lit) - len(x)]}
            return False, None
        if len(self.tokens) == 1 and self.tokens[0][0] == 'pre':
            if lit in SI:
                return None, {self.tokens[0][1]: lit}
            return False, None
        if any(t[0] == 'num' for t in self.tokens):
            return False, None
        return None, None

    def has_bad(self):
        for t in self.tokens:
            if t[0] == 'bad':
                return t[1]
            if t[0] == 'tail':
                return f"[-{t[1]}:] of a string whose tail is symbolic"
        return None


def unit_of(t: TStr, bases=('mol', 'g', 'L', 'U', 'M')):
    """Meaning of a unit string: (unit monomial, base text) or None.  Literal: <SI prefix><base>; symbolic:
    [pre(P), lit(base)]."""
    if t.has_bad():
        return None
    if t.is_literal():
        text = t.text()
        for b in bases:
            if text.endswith(b) and text[:-len(b)] in SI:
                return base(b).scaled(SI[text[:-len(b)]]), b
        return None
    if len(t.tokens) == 2 and t.tokens[0][0] == 'pre' and t.tokens[1][0] == 'lit' and t.tokens[1][1] in bases:
        return sym(t.tokens[0][1]) * base(t.tokens[1][1]), t.tokens[1][1]
    return None


def prefix_of(t: TStr):
    """Meaning of a string passed as an SI prefix: ('sym', name) | ('lit', text) | ('bad', why)."""
    b = t.has_bad()
    if b:
        return 'bad', b
    if t.is_literal():
        return 'lit', t.text()
    if len(t.tokens) == 1 and t.tokens[0][0] == 'pre':
        return 'sym', t.tokens[0][1]
    return 'bad', f"{t!r} is not the prefix part of a unit string"


def user_unit(pname, basetext):
    return TStr([('pre', pname), ('lit', basetext)])

"""Index-convention typing for pyplate/slicer.py (C13): an abstract interpreter whose values are *kinds of index*.

  U1   user-supplied 1-based integer, with two flags: lo (known >= 1) and hi (known <= len(labels of axis A))
  Z0   valid 0-based index            Z0x  exclusive 0-based stop
  LBL  user-supplied label, flag `member` (known to be in the labels of axis A)
Every index value also carries its *source* (which component of the user's selector it came from).  Transfer
functions: checked U1 - 1 -> Z0; labels.index(member label) -> Z0; Z0 + 1 -> Z0x; a checked 1-based inclusive stop
is the exclusive 0-based stop.  Conditions on data (range tests, membership tests) are explored both ways and refine
the flags; type dispatch (`isinstance`, `len(tuple)`, `':' in str`) is decided from the abstract form.  Nothing from
slicer.py is executed."""
from __future__ import annotations

import ast
import copy

from .model import AnalysisError, unparse


# ----------------------------------------------------------------------------------------------- abstract values
class V:
    pass


class Idx(V):
    def __init__(self, kind, axis=None, src=None, lo=False, hi=None, member=None, bad=None):
        self.kind, self.axis, self.src, self.lo, self.hi, self.member, self.bad = kind, axis, src, lo, hi, member, bad

    def clone(self, **kw):
        c = copy.copy(self)
        for k, v in kw.items():
            setattr(c, k, v)
        return c

    def __repr__(self):
        s = self.kind
        if self.kind == 'U1':
            s += ('c' if self.lo and self.hi else '') + (f"[lo={self.lo},hi={self.hi}]" if not (self.lo and self.hi) else f"@{self.hi}")
        if self.kind == 'LBL':
            s += f"[in {self.member}]" if self.member else '[unchecked]'
        if self.kind in ('Z0', 'Z0x'):
            s += f"@{self.axis}"
        if self.bad:
            s = f"BAD({self.bad})"
        return f"{s}<{self.src}>"


class Step(V):
    def __init__(self, positive=False, src='step'):
        self.positive, self.src = positive, src

    def __repr__(self):
        return 'step>0' if self.positive else 'step?'


class NoneV(V):
    def __repr__(self):
        return 'None'


class Const(V):
    def __init__(self, v):
        self.v = v

    def __repr__(self):
        return f"const {self.v!r}"


class StrV(V):
    """A user string; `parts` = number of ':'-separated parts (1 = plain label)."""

    def __init__(self, parts, src):
        self.parts, self.src = parts, src

    def __repr__(self):
        return f"str/{self.parts}<{self.src}>"


class SliceIn(V):
    def __init__(self, start, stop, step):
        self.start, self.stop, self.step = start, stop, step


class SliceOut(V):
    def __init__(self, start, stop, step):
        self.start, self.stop, self.step = start, stop, step

    def __repr__(self):
        return f"slice({self.start}, {self.stop}, {self.step})"


class Tup(V):
    def __init__(self, items):
        self.items = list(items)

    def __repr__(self):
        return '(' + ', '.join(map(repr, self.items)) + ')'


class ListV(V):
    def __init__(self, items, user=False):
        self.items, self.user = list(items), user

    def __repr__(self):
        return '[' + ', '.join(map(repr, self.items)) + ']'


class Labels(V):
    def __init__(self, axis):
        self.axis = axis


class Len(V):
    def __init__(self, axis, plus=0):
        self.axis, self.plus = axis, plus

    def __repr__(self):
        return f"len({self.axis})" + (f"+{self.plus}" if self.plus else '')


class Bool(V):
    def __init__(self, v):
        self.v = v      # True / False / None (unknown)


class Obj(V):
    def __init__(self, what):
        self.what = what
        self.attrs = {}


class Other(V):
    def __init__(self, d=''):
        self.d = d

    def __repr__(self):
        return f"other({self.d})"


class Raised(Exception):
    def __init__(self, t, line):
        self.t, self.line = t, line


class Ret(Exception):
    def __init__(self, v):
        self.v = v


class Incomplete(Exception):
    pass


NONE = NoneV()


def typename(v):
    if isinstance(v, Idx):
        return 'str' if v.kind == 'LBL' else 'int'
    if isinstance(v, StrV):
        return 'str'
    if isinstance(v, (SliceIn, SliceOut)):
        return 'slice'
    if isinstance(v, Tup):
        return 'tuple'
    if isinstance(v, (ListV, Labels)):
        return 'list'
    if isinstance(v, NoneV):
        return 'NoneType'
    if isinstance(v, Step):
        return 'int'
    if isinstance(v, Const):
        return type(v.v).__name__
    if isinstance(v, Other):
        return v.d or None
    if isinstance(v, Obj):
        return v.what
    return None


class Interp:
    def __init__(self, funcs, env, choices, arity, selfobj, depth=0):
        self.F, self.env, self.choices, self.arity = funcs, env, choices, arity
        self.selfobj = selfobj
        self.depth = depth
        self.pos_holder = None

    # choice oracle shared through a 1-element list so that nested calls advance the same cursor
    def choose(self, n, why):
        ph = self.pos_holder
        if ph[0] < len(self.choices):
            c = self.choices[ph[0]]
        else:
            c = 0
            self.choices.append(0)
        if ph[0] >= len(self.arity):
            self.arity.append(n)
        ph[0] += 1
        return c

    # ------------------------------------------------------------------ expressions
    def ev(self, n):
        m = getattr(self, 'ev_' + type(n).__name__, None)
        if m is None:
            raise Incomplete(f"expression {type(n).__name__} at line {n.lineno}")
        return m(n)

    def ev_Constant(self, n):
        if n.value is None:
            return NONE
        if isinstance(n.value, bool):
            return Bool(n.value)
        return Const(n.value)

    def ev_Name(self, n):
        if n.id in self.env:
            return self.env[n.id]
        if n.id in ('int', 'str', 'slice', 'tuple', 'list', 'float'):
            return Other('type:' + n.id)
        if n.id in ('Slicer', 'np', 'numpy'):
            return Other(n.id)
        raise Incomplete(f"unbound name {n.id} at line {n.lineno}")

    def ev_Tuple(self, n):
        return Tup(self.ev(e) for e in n.elts)

    def ev_List(self, n):
        return ListV([self.ev(e) for e in n.elts])

    def ev_Attribute(self, n):
        o = self.ev(n.value)
        if isinstance(o, Obj):
            if n.attr in o.attrs:
                return o.attrs[n.attr]
            if n.attr in self.F:
                return Other('method:' + n.attr)
            return Other(f"{o.what}.{n.attr}")
        if isinstance(o, (SliceIn, SliceOut)) and n.attr in ('start', 'stop', 'step'):
            return getattr(o, n.attr)
        if isinstance(o, Other):
            return Other(f"{o.d}.{n.attr}")
        return Other(n.attr)

    def ev_Subscript(self, n):
        o = self.ev(n.value)
        i = self.ev(n.slice)
        if isinstance(o, Tup) and isinstance(i, Const) and isinstance(i.v, int):
            if -len(o.items) <= i.v < len(o.items):
                return o.items[i.v]
            raise Raised('IndexError', n.lineno)
        return Other('subscript')

    def ev_UnaryOp(self, n):
        v = self.ev(n.operand)
        if isinstance(n.op, ast.Not):
            b = self.truth(v)
            return Bool(None if b is None else not b)
        if isinstance(n.op, ast.USub) and isinstance(v, Const):
            return Const(-v.v)
        return Other('unary')

    def truth(self, v):
        if isinstance(v, Bool):
            return v.v
        if isinstance(v, NoneV):
            return False
        if isinstance(v, Const):
            return bool(v.v)
        return None

    def ev_BoolOp(self, n):
        is_and = isinstance(n.op, ast.And)
        unknown = False
        for x in n.values:          # short-circuit, left to right (refinements apply in order)
            b = self.truth(self.ev(x))
            if b is None:
                # explore both outcomes of this operand explicitly
                b = self.choose(2, f"boolop line {n.lineno}") == 0
            if is_and and not b:
                return Bool(False)
            if not is_and and b:
                return Bool(True)
        return Bool(is_and)

    def ev_IfExp(self, n):
        b = self.truth(self.ev(n.test))
        if b is None:
            b = self.choose(2, 'ifexp') == 0
        return self.ev(n.body if b else n.orelse)

    def ev_BinOp(self, n):
        a, b = self.ev(n.left), self.ev(n.right)
        if isinstance(b, Const) and b.v == 1 and isinstance(a, Idx):
            if isinstance(n.op, ast.Sub):
                if a.kind == 'U1' and a.lo and a.hi:
                    return Idx('Z0', a.hi, a.src, bad=a.bad)
                return a.clone(bad=f"{a!r} - 1 is not a valid 0-based index (not range-checked 1-based)")
            if isinstance(n.op, ast.Add):
                if a.kind == 'Z0' and not a.bad:
                    return Idx('Z0x', a.axis, a.src)
                return a.clone(bad=f"{a!r} + 1 is not an exclusive stop")
        if isinstance(a, Len) and isinstance(b, Const) and isinstance(b.v, int):
            if isinstance(n.op, ast.Add):
                return Len(a.axis, a.plus + b.v)
            if isinstance(n.op, ast.Sub):
                return Len(a.axis, a.plus - b.v)
        if isinstance(a, Const) and isinstance(b, Const):
            try:
                if isinstance(n.op, ast.Add):
                    return Const(a.v + b.v)
                if isinstance(n.op, ast.Sub):
                    return Const(a.v - b.v)
            except Exception:
                pass
        if isinstance(a, Idx) or isinstance(b, Idx):
            x = a if isinstance(a, Idx) else b
            return x.clone(bad=f"arithmetic `{unparse(n)}` on an index is outside the index conventions")
        if isinstance(a, NoneV) or isinstance(b, NoneV):
            raise Raised('TypeError', n.lineno)
        return Other('binop')

    def ev_Compare(self, n):
        left = self.ev(n.left)
        result = True
        unknown = False
        cur_node, cur = n.left, left
        for op, rn in zip(n.ops, n.comparators):
            right = self.ev(rn)
            r = self.compare1(cur_node, cur, op, rn, right, n)
            if r is False:
                return Bool(False)
            cur_node, cur = rn, self.ev(rn) if isinstance(rn, ast.Name) else right
        return Bool(True)

    def refine(self, node, newv):
        if isinstance(node, ast.Name):
            self.env[node.id] = newv

    def compare1(self, ln, a, op, rn, b, n):
        """Evaluate one link; unknown outcomes are chosen, and the chosen outcome refines the operands."""
        # None tests
        if isinstance(op, (ast.Is, ast.IsNot)):
            if isinstance(b, NoneV) or isinstance(a, NoneV):
                other = a if isinstance(b, NoneV) else b
                r = isinstance(other, NoneV)
                return r if isinstance(op, ast.Is) else not r
        # membership
        if isinstance(op, (ast.In, ast.NotIn)):
            if isinstance(b, Labels):
                if isinstance(a, Idx) and a.kind == 'LBL':
                    if a.member == b.axis:
                        inn = True
                    else:
                        inn = self.choose(2, 'label membership') == 0
                        if inn:
                            self.refine(ln, a.clone(member=b.axis))
                    return inn if isinstance(op, ast.In) else not inn
                if isinstance(a, StrV):
                    inn = self.choose(2, 'label membership') == 0
                    if inn:
                        self.refine(ln, Idx('LBL', None, a.src, member=b.axis))
                    return inn if isinstance(op, ast.In) else not inn
                if isinstance(a, Idx):
                    return isinstance(op, ast.NotIn)       # an int is never a member of a list of str
            if isinstance(a, Const) and isinstance(a.v, str) and isinstance(b, StrV):
                if a.v == ':':
                    r = b.parts > 1
                    return r if isinstance(op, ast.In) else not r
            if isinstance(a, Const) and isinstance(b, Idx) and b.kind == 'LBL':
                # ':' in <label without colon>
                return isinstance(op, ast.NotIn)
            return self.choose(2, 'membership') == 0
        # numeric orderings
        opn = {ast.Lt: 'lt', ast.LtE: 'le', ast.Gt: 'gt', ast.GtE: 'ge', ast.Eq: 'eq', ast.NotEq: 'ne'}.get(type(op))
        if opn is None:
            return self.choose(2, 'compare') == 0
        if isinstance(a, Const) and isinstance(b, Const):
            try:
                return {'lt': a.v < b.v, 'le': a.v <= b.v, 'gt': a.v > b.v, 'ge': a.v >= b.v, 'eq': a.v == b.v,
                        'ne': a.v != b.v}[opn]
            except TypeError:
                raise Raised('TypeError', n.lineno)
        # lengths of tuples
        if isinstance(a, Const) and isinstance(b, Const) is False and isinstance(a.v, int) and isinstance(b, Const):
            pass
        def _is_label(v):
            return isinstance(v, StrV) or (isinstance(v, Idx) and v.kind == 'LBL')
        if opn in ('lt', 'le', 'gt', 'ge') and _is_label(a) and _is_label(b):
            self.selfobj.attrs['__label_order__'] = Const(n.lineno)
            return self.choose(2, 'string order of two labels') == 0
        # two user-given positions of one axis (start and stop of one slice): the three orderings are explored, and the
        # one chosen is remembered for the path (the inclusive stop makes start == stop a one-row selection)
        if isinstance(a, Idx) and isinstance(b, Idx) and a.kind == 'U1' and b.kind == 'U1' and a.src != b.src:
            memo = self.selfobj.attrs.setdefault('__orderings__', {})
            key = (a.src, b.src) if a.src < b.src else (b.src, a.src)
            if key not in memo:
                memo[key] = ('lt', 'eq', 'gt')[self.choose(3, 'ordering of two positions')]
            rel = memo[key] if key == (a.src, b.src) else {'lt': 'gt', 'eq': 'eq', 'gt': 'lt'}[memo[key]]
            return {'lt': rel == 'lt', 'le': rel in ('lt', 'eq'), 'gt': rel == 'gt', 'ge': rel in ('gt', 'eq'),
                    'eq': rel == 'eq', 'ne': rel != 'eq'}[opn]
        # normalise to x (op) bound with x the index
        if isinstance(b, (Idx, Step)) and not isinstance(a, (Idx, Step)):
            flip = {'lt': 'gt', 'le': 'ge', 'gt': 'lt', 'ge': 'le', 'eq': 'eq', 'ne': 'ne'}
            return self.compare_idx(rn, b, flip[opn], a, n)
        if isinstance(a, (Idx, Step)):
            return self.compare_idx(ln, a, opn, b, n)
        return self.choose(2, 'compare') == 0

    def compare_idx(self, xn, x, opn, bound, n):
        res = self.choose(2, f"range test line {n.lineno}") == 0
        neg = {'lt': 'ge', 'le': 'gt', 'gt': 'le', 'ge': 'lt', 'eq': 'ne', 'ne': 'eq'}
        eff = opn if res else neg[opn]          # the relation that holds on the chosen outcome
        if isinstance(x, Step):
            if isinstance(bound, Const) and isinstance(bound.v, (int, float)):
                if (eff == 'gt' and bound.v >= 0) or (eff == 'ge' and bound.v >= 1):
                    self.refine(xn, Step(True, x.src))
            return res
        if x.kind == 'U1':
            nx = x
            if isinstance(bound, Const) and isinstance(bound.v, int):
                if (eff == 'ge' and bound.v == 1) or (eff == 'gt' and bound.v == 0):
                    nx = nx.clone(lo=True)
                elif eff in ('ge', 'gt') and ((eff == 'ge' and bound.v < 1) or (eff == 'gt' and bound.v < 0)):
                    pass        # weaker than >= 1: no refinement
            if isinstance(bound, Len):
                if (eff == 'le' and bound.plus == 0) or (eff == 'lt' and bound.plus == 1):
                    nx = nx.clone(hi=bound.axis)
            if nx is not x:
                self.refine(xn, nx)
        return res

    def ev_GeneratorExp(self, n):
        return Other('generator')

    def ev_ListComp(self, n):
        """[f(x) for x in <user list>]: element-wise, in order."""
        if len(n.generators) == 1 and not n.generators[0].ifs:
            it = self.ev(n.generators[0].iter)
            if isinstance(it, ListV):
                out = []
                for e in list(it.items):
                    self.assign(n.generators[0].target, e)
                    out.append(self.ev(n.elt))
                return ListV(out, user=False)
        return Other('generator')

    def ev_JoinedStr(self, n):
        return Other('str')

    def ev_Call(self, n):
        f = n.func
        args = []
        for a in n.args:
            if isinstance(a, ast.Starred):
                v = self.ev(a.value)
                if not isinstance(v, Tup):
                    raise Incomplete(f"starred argument {v!r} at line {n.lineno}")
                args.extend(v.items)
            else:
                args.append(self.ev(a))
        if isinstance(f, ast.Name):
            name = f.id
            if name == 'isinstance':
                v = args[0]
                tn = typename(v)
                types = n.args[1].elts if isinstance(n.args[1], ast.Tuple) else [n.args[1]]
                names = [unparse(t).split('.')[-1] for t in types]
                if tn is None:
                    return Bool(None)
                if tn.startswith('type:'):
                    return Bool(None)
                if tn == 'bool' and 'int' in names:
                    return Bool(True)
                if tn == 'ndarray':
                    return Bool('ndarray' in names)
                # abstract number classes: a float may be a numpy.float64 (a float AND a numpy.number), an int is a
                # numbers.Number / Integral but never a numpy.number
                broad = {'number', 'generic', 'floating', 'Number', 'Real', 'Complex'}
                if tn == 'float' and (set(names) & broad) and 'float' not in names:
                    return Bool(None)
                if tn == 'int' and (set(names) & {'Number', 'Real', 'Complex', 'Integral', 'Rational'}):
                    return Bool(True)
                return Bool(tn in names)
            if name == 'int' and len(args) == 1:
                v = args[0]
                if isinstance(v, Other) and v.d == 'float':
                    # int() of a float truncates: whatever well comes out was not asked for - as a selector component it
                    # behaves like a user int from here on
                    return U1('truncated float')
                if isinstance(v, StrV) or (isinstance(v, Idx) and v.kind == 'LBL'):
                    # int() of a label string: from here on the component is a position typed by the user
                    return Idx('U1', None, getattr(v, 'src', None) or 'digits of a label',
                               bad='a label string was read as a position: a plate whose labels are digits other than '
                                   'their position is addressed at the wrong well')
                if isinstance(v, (Idx, Const)):
                    return v
                return Other('int')
            if name == 'len':
                v = args[0]
                if isinstance(v, Labels):
                    return Len(v.axis)
                if isinstance(v, Tup):
                    return Const(len(v.items))
                if isinstance(v, ListV):
                    return Const(len(v.items))
                return Other('len')
            if name == 'slice':
                a = args + [NONE] * (3 - len(args))
                if len(args) == 1:
                    return SliceOut(NONE, a[0], NONE)
                return SliceOut(a[0], a[1], a[2])
            if name == 'tuple':
                return args[0] if isinstance(args[0], Tup) else Other('tuple')
            if name == 'all':
                return Bool(True)       # label lists are validated lists of str (Plate.__init__, C13.R4)
            if name in ('list',):
                return args[0] if args else ListV([])
            if name in ('sorted', 'set', 'reversed', 'frozenset') and args and isinstance(args[0], ListV):
                # the caller's list, or the list of selections parsed from it entry by entry
                self.selfobj.attrs['__order_lost__'] = Const(name)
                return ListV(list(reversed(args[0].items)), user=args[0].user)
            if name in self.F:
                return self.call(name, args)
            return Other(name)
        if isinstance(f, ast.Attribute):
            name = f.attr
            recv = self.ev(f.value)
            if name == 'split' and isinstance(recv, StrV):
                return Tup(Idx('LBL', None, f"{recv.src}.part{i}") for i in range(recv.parts))
            if name == 'split' and isinstance(recv, Idx) and recv.kind == 'LBL':
                return Tup([recv])
            if name in ('isdigit', 'isnumeric', 'isdecimal', 'isalpha', 'isalnum', 'islower', 'isupper') and \
                    (isinstance(recv, StrV) or (isinstance(recv, Idx) and recv.kind == 'LBL')):
                return Bool(None)       # a label may or may not consist of digits / letters
            if name == 'index' and isinstance(recv, Labels):
                a = args[0]
                if isinstance(a, Idx) and a.kind == 'LBL' and a.member == recv.axis:
                    return Idx('Z0', recv.axis, a.src)
                if isinstance(a, Idx):
                    return a.clone(bad=f"labels.index() of {a!r}: not a checked member of the {recv.axis} labels")
                raise Raised('ValueError', n.lineno)
            if name == 'append' and isinstance(recv, ListV):
                recv.items.append(args[0])
                return NONE
            if name in self.F and (isinstance(recv, Obj) or (isinstance(recv, Other) and recv.d == 'Slicer')):
                return self.call(name, args)
            return Other('call:' + name)
        raise Incomplete(f"call at line {n.lineno}")

    def call(self, name, args):
        fn = self.F[name]
        if self.depth > 6:
            raise Incomplete('recursion too deep')
        decos = {unparse(d) for d in fn.decorator_list}
        params = [a.arg for a in fn.args.args]
        env = {}
        if 'staticmethod' not in decos:
            env[params[0]] = self.selfobj
            params = params[1:]
        if len(args) != len(params):
            raise Raised('TypeError', fn.lineno)
        # a user value travels with the labels argument of this call: no tagging needed, axis is taken from the
        # labels the code actually checks against (hi / member flags)
        for p, a in zip(params, args):
            env[p] = copy.copy(a) if isinstance(a, (Idx, Step)) else a
        sub = Interp(self.F, env, self.choices, self.arity, self.selfobj, self.depth + 1)
        sub.pos_holder = self.pos_holder
        try:
            sub.run(fn.body)
            return NONE
        except Ret as r:
            return r.v

    # ------------------------------------------------------------------ statements
    def run(self, body):
        for s in body:
            self.st(s)

    def st(self, n):
        m = getattr(self, 'st_' + type(n).__name__, None)
        if m is None:
            raise Incomplete(f"statement {type(n).__name__} at line {n.lineno}")
        m(n)

    def st_Expr(self, n):
        if not isinstance(n.value, ast.Constant):
            self.ev(n.value)

    def st_Pass(self, n):
        pass

    def assign(self, t, v):
        if isinstance(t, ast.Name):
            self.env[t.id] = v
        elif isinstance(t, (ast.Tuple, ast.List)):
            if isinstance(v, Tup) and len(v.items) == len(t.elts):
                for e, x in zip(t.elts, v.items):
                    self.assign(e, x)
            elif isinstance(v, Tup):
                raise Raised('ValueError', t.lineno)
            else:
                for e in t.elts:
                    self.assign(e, Other('unpacked'))
        elif isinstance(t, ast.Attribute):
            o = self.ev(t.value)
            if isinstance(o, Obj):
                o.attrs[t.attr] = v
        else:
            raise Incomplete(f"assignment target at line {t.lineno}")

    def st_Assign(self, n):
        v = self.ev(n.value)
        for t in n.targets:
            self.assign(t, v)

    def st_AnnAssign(self, n):
        if n.value is not None:
            self.assign(n.target, self.ev(n.value))

    def st_AugAssign(self, n):
        load = copy.copy(n.target)
        load.ctx = ast.Load()
        fake = ast.BinOp(left=load, op=n.op, right=n.value)
        ast.copy_location(fake, n)
        self.assign(n.target, self.ev(fake))

    def st_If(self, n):
        b = self.truth(self.ev(n.test))
        if b is None:
            b = self.choose(2, f"if line {n.lineno}") == 0
        self.run(n.body if b else n.orelse)

    def st_For(self, n):
        it = self.ev(n.iter)
        if isinstance(it, ListV):
            for e in list(it.items):
                self.assign(n.target, e)
                self.run(n.body)
            self.run(n.orelse)
            return
        raise Incomplete(f"loop over {it!r} at line {n.lineno}")

    def st_Raise(self, n):
        e = n.exc
        if isinstance(e, ast.Call):
            e = e.func
        raise Raised(e.id if isinstance(e, ast.Name) else '?', n.lineno)

    def st_Return(self, n):
        raise Ret(self.ev(n.value) if n.value is not None else NONE)

    def st_Assert(self, n):
        pass


# ----------------------------------------------------------------------------------------------- exploration
def U1(src):
    return Idx('U1', None, src)


def LBL(src):
    return Idx('LBL', None, src)


def selector_forms():
    """(name, abstract item, expectation).  Expectation: ('cell'|'rows'|'generic', row spec, col spec) where a spec is
    (start source, stop source, single?) or None for 'all'; or ('list', [cell specs]); or ('reject',)."""
    forms = []
    forms.append(('int', U1('item'), ('sel', ('item', 'item', True), None)))
    forms.append(('label', StrV(1, 'item'), ('sel', ('item', 'item', True), None)))
    forms.append(("'row:col' string", StrV(2, 'item'), ('sel', ('item.part0', 'item.part0', True),
                                                        ('item.part1', 'item.part1', True))))
    forms.append(("string with two colons", StrV(3, 'item'), ('reject',)))
    kinds = {'none': lambda s: NONE, 'int': U1, 'str': LBL}
    for st in ('none', 'int', 'str'):
        for sp in ('none', 'int', 'str'):
            for step in ('none', 'int'):
                sl = SliceIn(kinds[st]('item.start'), kinds[sp]('item.stop'), NONE if step == 'none' else Step(False, 'item.step'))
                forms.append((f"slice({st},{sp},{step})", sl,
                              ('sel', ('item.start' if st != 'none' else None, 'item.stop' if sp != 'none' else None, False,
                                       None if step == 'none' else 'item.step'), None)))
    # a 1-tuple holding a slice is not in the documented grammar: it may be rejected, but if it is accepted it must
    # mean the rows of that slice
    forms.append(("(slice,)", Tup([SliceIn(U1('item[0].start'), LBL('item[0].stop'), NONE)]),
                  ('optional', ('item[0].start', 'item[0].stop', False), None)))
    for a in ('int', 'str'):
        for b in ('int', 'str'):
            forms.append((f"({a},{b})", Tup([kinds[a]('item[0]'), kinds[b]('item[1]')]),
                          ('sel', ('item[0]', 'item[0]', True), ('item[1]', 'item[1]', True))))
    for a in ('int', 'str'):
        forms.append((f"(slice,{a})", Tup([SliceIn(U1('item[0].start'), LBL('item[0].stop'), NONE), kinds[a]('item[1]')]),
                      ('sel', ('item[0].start', 'item[0].stop', False), ('item[1]', 'item[1]', True))))
        forms.append((f"({a},slice)", Tup([kinds[a]('item[0]'), SliceIn(LBL('item[1].start'), U1('item[1].stop'), Step(False, 'item[1].step'))]),
                      ('sel', ('item[0]', 'item[0]', True), ('item[1].start', 'item[1].stop', False, 'item[1].step'))))
    forms.append(("(slice,slice)", Tup([SliceIn(U1('item[0].start'), U1('item[0].stop'), Step(False, 'item[0].step')),
                                        SliceIn(LBL('item[1].start'), LBL('item[1].stop'), NONE)]),
                  ('sel', ('item[0].start', 'item[0].stop', False, 'item[0].step'), ('item[1].start', 'item[1].stop', False))))
    forms.append(("(open slice, open slice)", Tup([SliceIn(NONE, NONE, NONE), SliceIn(NONE, U1('item[1].stop'), NONE)]),
                  ('sel', (None, None, False), (None, 'item[1].stop', False))))
    forms.append(("3-tuple", Tup([U1('item[0]'), U1('item[1]'), U1('item[2]')]), ('reject',)))
    forms.append(("float", Other('float'), ('reject',)))
    forms.append(("list of cells", ListV([Tup([U1('e0[0]'), LBL('e0[1]')]), StrV(2, 'e1'), Tup([LBL('e2[0]'), U1('e2[1]')])], user=True),
                  ('list', [(('e0[0]', 'e0[0]', True), ('e0[1]', 'e0[1]', True)),
                            (('e1.part0', 'e1.part0', True), ('e1.part1', 'e1.part1', True)),
                            (('e2[0]', 'e2[0]', True), ('e2[1]', 'e2[1]', True))])))
    forms.append(("list with an int element", ListV([U1('e0')], user=True), ('reject',)))
    forms.append(("list with a 3-tuple", ListV([Tup([U1('e0[0]'), U1('e0[1]'), U1('e0[2]')])], user=True), ('reject',)))
    return forms


def check_axis(sl, spec, axis, problems, form, check_step=True):
    """Compare one SliceOut with the expectation for its axis."""
    if not isinstance(sl, SliceOut):
        problems.append((form, 'shape', f"{axis} selector is {sl!r}, not a slice"))
        return
    def open_stop(v):
        # an explicit stop at the edge of the plate selects the same wells as an open one
        return isinstance(v, NoneV) or (isinstance(v, Len) and v.axis == axis and v.plus == 0)
    if spec is None:
        if not (isinstance(sl.start, NoneV) and open_stop(sl.stop) and isinstance(sl.step, NoneV)):
            problems.append((form, 'extent', f"{axis} axis should be selected completely, got {sl!r}"))
        return
    ssrc, esrc, single = spec[:3]
    stepsrc = spec[3] if len(spec) > 3 else None
    # start
    if ssrc is None:
        if not isinstance(sl.start, NoneV):
            problems.append((form, 'start', f"{axis} start should be open, got {sl.start!r}"))
    else:
        s = sl.start
        if not (isinstance(s, Idx) and s.kind == 'Z0' and not s.bad):
            problems.append((form, 'start', f"{axis} start is {s!r}: not a valid 0-based index"
                                            + (f" ({s.bad})" if isinstance(s, Idx) and s.bad else '')))
        else:
            if s.axis != axis:
                problems.append((form, 'axis', f"{axis} start was resolved against the {s.axis} labels"))
            if s.src != ssrc:
                problems.append((form, 'source', f"{axis} start comes from {s.src}, expected {ssrc}"))
    # stop
    if esrc is None:
        if not open_stop(sl.stop):
            problems.append((form, 'stop', f"{axis} stop should be open, got {sl.stop!r}"))
    else:
        e = sl.stop
        ok = isinstance(e, Idx) and not e.bad and (e.kind == 'Z0x' or (e.kind == 'U1' and e.lo and e.hi))
        if not ok:
            problems.append((form, 'stop', f"{axis} stop is {e!r}: not an exclusive 0-based stop (inclusive 1-based "
                                           f"checked stop or 0-based index + 1)"
                                           + (f" ({e.bad})" if isinstance(e, Idx) and e.bad else '')))
        else:
            eaxis = e.axis if e.kind == 'Z0x' else e.hi
            if eaxis != axis:
                problems.append((form, 'axis', f"{axis} stop was resolved against the {eaxis} labels"))
            if e.src != esrc:
                problems.append((form, 'source', f"{axis} stop comes from {e.src}, expected {esrc}"))
    if check_step and not single:
        if not (isinstance(sl.step, NoneV) or (isinstance(sl.step, Step) and sl.step.positive)):
            problems.append((form, 'step', f"{axis} step {sl.step!r} is not known to be positive (zero or negative "
                                           f"steps select other wells or none)"))
    if check_step and stepsrc is not None and not (isinstance(sl.step, Step) and sl.step.src == stepsrc):
        problems.append((form, 'step', f"{axis} step given by the caller ({stepsrc}) is not the step of the selection "
                                       f"(got {sl.step!r}): every well of the range is addressed instead of every n-th"))
    if single and not isinstance(sl.step, NoneV):
        problems.append((form, 'step', f"{axis} single index has a step {sl.step!r}"))


def explore(slicer_cls: ast.ClassDef, max_paths=20000, post=None, pre=None):
    """Explore Slicer.__init__ for every selector form; returns statistics and problems."""
    F = {m.name: m for m in slicer_cls.body if isinstance(m, ast.FunctionDef)}
    if '__init__' not in F:
        raise AnalysisError('Slicer.__init__ not found')
    init = F['__init__']
    params = [a.arg for a in init.args.args]
    if len(params) != 5:
        raise AnalysisError('Slicer.__init__ signature changed')
    problems = []
    stats = {'forms': 0, 'paths': 0, 'normal_exits': 0, 'raises': {}, 'per_form': {}}
    for name, item, expect in selector_forms():
        stats['forms'] += 1
        stack = [[]]
        fpaths = 0
        accepted = 0
        rejected_types = set()
        orderings = {}          # (pair) -> {ordering: accepted paths}
        while stack:
            prefix = stack.pop()
            selfobj = Obj('Slicer')
            env = {params[0]: selfobj, params[1]: Other('ndarray'), params[2]: Labels('row'), params[3]: Labels('col'),
                   params[4]: copy.deepcopy(item)}
            arity = []
            it = Interp(F, env, list(prefix), arity, selfobj)
            it.pos_holder = [0]
            outcome = None
            try:
                # what the wrappers do to the selector before it reaches this constructor (Plate.__getitem__, the
                # statements of PlateSlicer.__init__ in front of the call of this constructor)
                for names, stmts, item_expr in (pre or ()):
                    plate = Obj('Plate')
                    plate.attrs.update({'n_rows': Len('row'), 'n_columns': Len('col'), 'row_names': Labels('row'),
                                        'column_names': Labels('col'), 'wells': Other('ndarray')})
                    for nm, role in names.items():
                        it.env[nm] = plate if role == 'plate' else it.env[params[4]] if role == 'item' else selfobj
                    it.run(stmts)
                    it.env[params[4]] = it.ev(item_expr)
                it.env[params[0]] = selfobj
                it.run(init.body)
                if post is not None:
                    # the statements of the subclass constructor that follow the call of this constructor
                    pname, iname, body = post
                    plate = Obj('Plate')
                    plate.attrs.update({'n_rows': Len('row'), 'n_columns': Len('col'), 'row_names': Labels('row'),
                                        'column_names': Labels('col'), 'wells': Other('ndarray')})
                    it.env.update({'self': selfobj, pname: plate, iname: env[params[4]]})
                    it.run(body)
                outcome = 'normal'
            except Raised as r:
                outcome = 'raise ' + r.t
                stats['raises'][r.t] = stats['raises'].get(r.t, 0) + 1
                rejected_types.add((r.t, r.line))
            except Ret:
                outcome = 'normal'
            fpaths += 1
            stats['paths'] += 1
            memo_o = selfobj.attrs.get('__orderings__')
            if isinstance(memo_o, dict):
                for pair, rel in memo_o.items():
                    d = orderings.setdefault(pair, {'lt': 0, 'eq': 0, 'gt': 0})
                    if outcome == 'normal':
                        d[rel] += 1
            if stats['paths'] > max_paths:
                raise AnalysisError('index typing: more than %d paths' % max_paths)
            if outcome == 'normal':
                stats['normal_exits'] += 1
                accepted += 1
                sl = selfobj.attrs.get('slices')
                if expect[0] == 'reject':
                    problems.append((name, 'accept', f"malformed selector is accepted (self.slices = {sl!r})"))
                elif sl is None:
                    problems.append((name, 'unassigned', 'self.slices is not assigned on a normal exit'))
                elif expect[0] in ('sel', 'optional'):
                    if not (isinstance(sl, Tup) and len(sl.items) == 2):
                        problems.append((name, 'shape', f"self.slices is {sl!r}, expected (row slice, column slice)"))
                    else:
                        check_axis(sl.items[0], expect[1], 'row', problems, name)
                        check_axis(sl.items[1], expect[2], 'col', problems, name)
                elif expect[0] == 'list':
                    if '__order_lost__' in selfobj.attrs:
                        problems.append((name, 'order', f"list selector is passed through "
                                                        f"{selfobj.attrs['__order_lost__'].v}(): the given order is lost"))
                    elif not (isinstance(sl, ListV) and len(sl.items) == len(expect[1])):
                        problems.append((name, 'shape', f"self.slices is {sl!r}, expected one entry per list element"))
                    else:
                        for got, (rs, cs) in zip(sl.items, expect[1]):
                            if not (isinstance(got, Tup) and len(got.items) == 2):
                                problems.append((name, 'shape', f"list entry {got!r}"))
                                continue
                            check_axis(got.items[0], rs, 'row', problems, name)
                            check_axis(got.items[1], cs, 'col', problems, name)
            else:
                t = outcome.split()[1]
                if t not in ('ValueError', 'TypeError'):
                    problems.append((name, 'error-type', f"rejection with {t} instead of ValueError/TypeError"))
                elif t == 'TypeError' and expect[0] in ('sel', 'list'):
                    problems.append((name, 'type-refused', f"a selector of a documented type is refused with TypeError "
                                                           f"(line {sorted(rejected_types)[-1][1]}): only its value can be wrong"))
            if '__label_order__' in selfobj.attrs:
                problems.append((name, 'label-order', f"two labels are compared as strings (line "
                                                      f"{selfobj.attrs['__label_order__'].v}): their alphabetical order is not "
                                                      f"their order on the plate ('9' sorts after '10', 'Z' after 'AB')"))
            for i in range(len(prefix), len(it.choices)):
                for alt in range(1, arity[i] if i < len(arity) else 2):
                    stack.append(it.choices[:i] + [alt])
        if expect[0] == 'sel':
            for pair, d in orderings.items():
                for rel, what in (('lt', 'start before stop'), ('eq', 'start equal to stop (stop is inclusive: one row / column)')):
                    if d[rel] == 0 and (d['lt'] or d['eq'] or d['gt'] or True):
                        problems.append((name, 'never-accepted', f"a slice with {what} is rejected on every path ({pair[0]} vs {pair[1]})"))
        if expect[0] not in ('reject', 'optional') and accepted == 0:
            problems.append((name, 'never-accepted', 'no path accepts this documented selector form'))
        stats['per_form'][name] = {'paths': fpaths, 'accepted': accepted}
    # dedupe
    seen, out = set(), []
    for p in problems:
        if p not in seen:
            seen.add(p)
            out.append(p)
    return stats, out

"""Engine D: signed data dependence on resolved expressions.

`signed_leaves(e)` decomposes a resolved numeric expression into additive leaves with a sign in {+1, -1, 0(±)}:
(None marks a leaf that only occurs in a denominator) signs flip under subtraction and unary minus, are kept by round/float/abs-free monotone wrappers, by sum(), by the
monotone unit conversions (Unit.convert*), and by multiplication/division with a factor that carries no leaves of
interest.  Accumulators contribute their init and every term; Phi contributes every option."""
from __future__ import annotations

import ast

from .flow import Ref, Acc, Phi, Elt, Sym, LoopVar, Param, strip_refs, deep_walk

MONOTONE_FUNCS = {'round', 'float', 'sum', 'int', 'max', 'min'}
MONOTONE_METHODS = {'convert_from', 'convert', 'convert_to_storage', 'convert_from_storage', 'get', 'sum', 'flatten',
                    'round'}


def signed_leaves(e, sign=1, out=None, depth=0, follow=True, stop=None):
    """List of (sign, leaf).  `stop(node)` -> True makes node a leaf even if it could be decomposed."""
    out = [] if out is None else out
    if e is None or depth > 60:
        return out
    if stop is not None and stop(e):
        out.append((sign, e))
        return out
    if isinstance(e, Ref):
        if follow:
            return signed_leaves(e.value, sign, out, depth + 1, follow, stop)
        out.append((sign, e))
        return out
    if isinstance(e, Acc):
        signed_leaves(e.init, sign, out, depth + 1, follow, stop)
        for op, term, guards, stmt in e.terms:
            signed_leaves(term, sign if op == '+' else -sign, out, depth + 1, follow, stop)
        return out
    if isinstance(e, Phi):
        for o in e.options:
            signed_leaves(o, sign, out, depth + 1, follow, stop)
        return out
    if isinstance(e, ast.BinOp):
        if isinstance(e.op, ast.Add):
            signed_leaves(e.left, sign, out, depth + 1, follow, stop)
            signed_leaves(e.right, sign, out, depth + 1, follow, stop)
            return out
        if isinstance(e.op, ast.Sub):
            signed_leaves(e.left, sign, out, depth + 1, follow, stop)
            signed_leaves(e.right, -sign, out, depth + 1, follow, stop)
            return out
        if isinstance(e.op, (ast.Mult, ast.Div)):
            # keep the sign through the left/numerator operand; the other factor is assumed non-negative
            signed_leaves(e.left, sign, out, depth + 1, follow, stop)
            if isinstance(e.op, ast.Mult):
                signed_leaves(e.right, sign, out, depth + 1, follow, stop)
            else:
                for s, l in signed_leaves(e.right, 1, [], depth + 1, follow, stop):
                    out.append((None, l))       # denominator: influences the value, not additively
            return out
    if isinstance(e, ast.UnaryOp) and isinstance(e.op, ast.USub):
        return signed_leaves(e.operand, -sign, out, depth + 1, follow, stop)
    if isinstance(e, ast.Call):
        f = e.func
        name = f.id if isinstance(f, ast.Name) else f.attr if isinstance(f, ast.Attribute) else None
        if isinstance(f, ast.Name) and name in MONOTONE_FUNCS and e.args:
            for a in (e.args[:1] if name in ('round',) else e.args):
                signed_leaves(a, sign, out, depth + 1, follow, stop)
            return out
        if isinstance(f, ast.Attribute) and name in ('maximum', 'minimum', 'fmax', 'fmin', 'clip') and e.args:
            # numpy.maximum(x, 0), numpy.clip(x, 0, None): monotone in x, the bounds are constants
            for a in e.args[:2] if name != 'clip' else e.args[:1]:
                signed_leaves(a, sign, out, depth + 1, follow, stop)
            return out
        if isinstance(f, ast.Name) and name == 'abs' and e.args:
            for s, l in signed_leaves(e.args[0], 1, [], depth + 1, follow, stop):
                out.append((0, l))
            return out
        if isinstance(f, ast.Attribute) and name in ('convert_from', 'convert') and len(e.args) >= 2:
            return signed_leaves(e.args[1], sign, out, depth + 1, follow, stop)
        if isinstance(f, ast.Attribute) and name in ('convert_to_storage', 'convert_from_storage') and e.args:
            return signed_leaves(e.args[0], sign, out, depth + 1, follow, stop)
        if isinstance(f, ast.Attribute) and name == 'get' and len(e.args) == 2:
            out.append((sign, e))          # dict.get(k, default): a leaf (the stored value)
            return out
    if isinstance(e, ast.GeneratorExp) or isinstance(e, ast.ListComp):
        return signed_leaves(e.elt, sign, out, depth + 1, follow, stop)
    if isinstance(e, ast.JoinedStr):
        for v in e.values:
            if isinstance(v, ast.FormattedValue):
                signed_leaves(v.value, sign, out, depth + 1, follow, stop)
        return out
    if isinstance(e, ast.IfExp):
        signed_leaves(e.body, sign, out, depth + 1, follow, stop)
        signed_leaves(e.orelse, sign, out, depth + 1, follow, stop)
        return out
    if isinstance(e, ast.Constant):
        return out
    out.append((sign, e))
    return out


def depends_on(e, pred, max_nodes=20000):
    """Does the resolved expression (following definitions) contain a node satisfying pred?"""
    for n in deep_walk(e, max_nodes=max_nodes):
        if pred(n):
            return True
    return False


def data_sources(e, max_nodes=5000):
    """Access paths / definitions the *value* of e is computed from.  Keys of lookups (`d[k]`, `d.get(k, ..)`), loop
    domains used only as keys, and conditions are control dependence and are not followed."""
    out = []
    seen = set()
    todo = [e]
    count = 0
    while todo:
        x = todo.pop()
        if x is None or id(x) in seen or not isinstance(x, ast.AST):
            continue
        seen.add(id(x))
        count += 1
        if count > max_nodes:
            break
        out.append(x)
        if isinstance(x, Ref):
            todo.append(x.value)
        elif isinstance(x, Acc):
            todo.append(x.init)
            todo.extend(t[1] for t in x.terms)
        elif isinstance(x, Phi):
            todo.extend(x.options)
        elif isinstance(x, Elt):
            todo.append(x.value)
        elif isinstance(x, LoopVar):
            todo.append(x.iter)
        elif isinstance(x, Sym):
            pass
        elif isinstance(x, ast.Subscript):
            todo.append(x.value)
        elif isinstance(x, ast.Call) and isinstance(x.func, ast.Attribute) and x.func.attr == 'get' and x.args:
            todo.append(x.func.value)
            todo.extend(x.args[1:])
        elif isinstance(x, ast.IfExp):
            todo.extend([x.body, x.orelse])
        elif isinstance(x, (ast.GeneratorExp, ast.ListComp, ast.SetComp)):
            todo.append(x.elt)
        elif isinstance(x, ast.DictComp):
            todo.append(x.value)
        else:
            todo.extend(ast.iter_child_nodes(x))
    return out

"""Self-validation of the checker (DESIGN section 3): seeded variants produced by AST transformation of the
current sources in memory.  Filled in by psa/variants.py; this module only runs them."""


def run_for(prop, seed):
    try:
        from . import variants
    except ImportError:
        return {'fired': '0/0', 'silent': '0/0', 'skipped': 0, 'failed': []}
    return variants.run_for(prop, seed)


def main(argv):
    from . import variants
    return variants.main(argv)

"""Call semantics of UnitAI: builtins, string/list/dict methods, summaries of the Unit API (DESIGN D.3; each summary
is used only at call sites - the functions themselves are verified by interpreting their bodies), container
summaries, and inlining of every other repo callee."""
from __future__ import annotations

import ast
import math

from .model import unparse
from .tstr import TStr, unit_of, prefix_of
from .units import U, ONE, SI, base, sym, mL, PVS_L, PMS_MOL, AMT, AB
from .unitai import (Num, Lit, SymLit, S, UserQ, UserC, UserStr, Subst, Cont, Contents, Items, Bool, NoneV, Tup, ListV, DictV,
                     Closure, Gen, Other, Obj, NONE, Raised, Incomplete, is_num, is_zero, KINDS, Env, UserC1)

UNIT_API = {'convert_prefix_to_multiplier', 'parse_quantity', 'parse_concentration', 'convert_from', 'convert',
            'convert_to_storage', 'convert_from_storage', 'convert_from_storage_to_standard_format',
            'get_human_readable_unit', 'calculate_concentration_ratio'}
PQ_BASES = ('L', 'g', 'mol', 'U', 'M')
PC_UNITS = ('mol', 'g', 'L', 'U')


def call(I, n):
    f = n.func
    # ---- evaluate arguments
    args = []
    for a in n.args:
        if isinstance(a, ast.Starred):
            v = I.ev(a.value)
            if isinstance(v, list) and not getattr(v, 'open', False):
                args.extend(v)
            else:
                I.incomplete(n, 'star-argument that is not a concrete sequence')
        else:
            args.append(I.ev(a))
    kwargs = {}
    for k in n.keywords:
        if k.arg is None:
            v = I.ev(k.value)
            if isinstance(v, DictV):
                kwargs.update({kk: vv for kk, vv in v.items() if isinstance(kk, str)})
            else:
                I.incomplete(n, '**kwargs that is not a concrete dict')
        else:
            kwargs[k.arg] = I.ev(k.value)
    hook = I.opts.get('call_hook')
    if hook is not None:
        r = hook(I, n, args, kwargs)
        if r is not None:
            return r
    if isinstance(f, ast.Name):
        return call_name(I, n, f.id, args, kwargs)
    if isinstance(f, ast.Attribute):
        return call_attr(I, n, f, args, kwargs)
    callee = I.ev(f)
    return call_value(I, n, callee, args, kwargs)


class Vectorized:
    """numpy.vectorize(f) / numpy.frompyfunc(f, ..): f applied element-wise; elements of plate arrays are wells."""

    def __init__(self, fn):
        self.fn = fn


def well_of(I, v):
    """The abstract element of an array argument of a vectorised per-well function."""
    if isinstance(v, Cont):
        return v
    return Cont(I.new_sym('well'))


def apply_per_well(I, n, fn, arrays):
    if isinstance(fn, Vectorized):
        fn = fn.fn
    if not isinstance(fn, Closure):
        return Other('applied')
    I.R.notes.add('per-well function interpreted at its registration site')
    return I.invoke(fn.node, [well_of(I, a) for a in arrays], {}, fn.env, node=n)


def _dotted(f):
    parts = []
    while isinstance(f, ast.Attribute):
        parts.append(f.attr)
        f = f.value
    if isinstance(f, ast.Name):
        parts.append(f.id)
        return '.'.join(reversed(parts))
    return None


def call_value(I, n, callee, args, kwargs):
    if isinstance(callee, Vectorized):
        nparams = len(callee.fn.node.args.args) if isinstance(callee.fn, Closure) else len(args)
        return apply_per_well(I, n, callee, args[:nparams] if nparams else args)
    if isinstance(callee, Closure):
        return I.invoke(callee.node, args, kwargs, callee.env, node=n)
    if isinstance(callee, Other):
        return Other('result-of:' + callee.d)
    I.incomplete(n, f"call of {callee!r}")


# ------------------------------------------------------------------------------------------------ plain names
def call_name(I, n, name, args, kwargs):
    if I.env.has(name):
        return call_value(I, n, I.env.get(name), args, kwargs)
    if name == 'round':
        v = args[0]
        digits = args[1] if len(args) > 1 else None
        dtext = digits.d if isinstance(digits, Other) else ''
        internal = len(n.args) > 1 and ('internal_precision' in unparse(n.args[1]) or dtext == 'config.internal_precision')
        if internal:
            from .unitai import RNum, SNum
            if isinstance(v, SNum):
                I.sink(n, 'round-then-scale', False,
                       'an amount just converted out of its storage unit is rounded to the internal precision, which is '
                       'meant for storage units: amounts below that precision in the coarser unit become 0')
            if type(v) is Num or isinstance(v, SNum):
                return RNum(v.unit)
        elif isinstance(v, Num) and 'precision' in dtext:
            # a number of digits taken from config.precisions is a display precision, chosen for a user unit
            try:
                stored = I.bound_unit(v.unit).has_storage_symbol()
            except Exception:
                stored = False
            I.sink(n, 'round-stored-at-user-precision', not stored,
                   'a value still in its storage unit is rounded with the number of digits of a user unit: what is '
                   'rounded away depends on the storage configuration')
        return v
    if name in ('abs', 'float'):
        v = args[0]
        if name == 'float':
            t = I.as_tstr(v)
            if t is not None:
                return float_of_string(I, t, n)
            if isinstance(v, Other):
                return Other('float')
        if isinstance(v, Lit) and name == 'abs':
            return Lit(abs(v.v))
        return v
    if name == 'int':
        if isinstance(args[0], Num):
            I.sink(n, 'display-truncation', False, 'int() truncates a measured amount (50.6 becomes 50): a stated amount '
                                                    'must be rounded, not cut off')
        return args[0] if is_num(args[0]) else Other('int')
    if name in ('deepcopy', 'copy'):
        v = args[0]
        if isinstance(v, Cont):
            c = Cont(v.ident + "'", dict(v.fields))
            return c
        if isinstance(v, Obj):
            return Obj(v.what, dict(v.attrs))
        return v
    if name == 'isinstance':
        return isinstance_(I, n, args[0], n.args[1])
    if name == 'len':
        v = args[0]
        if isinstance(v, (Tup, ListV, DictV)) and not getattr(v, 'open', False):
            return Lit(len(v))
        t = I.as_tstr(v)
        if t is not None and t.is_literal():
            return Lit(len(t.text()))
        return Other('len')
    if name == 'sum':
        return sum_(I, n, args)
    if name in ('max', 'min'):
        vals = args if len(args) > 1 else I.iterate(args[0], n)
        if all(isinstance(v, Lit) for v in vals) and vals:
            return Lit((max if name == 'max' else min)(v.v for v in vals))
        nums = [v for v in vals if is_num(v)]
        if len(nums) != len(vals):
            return Other(name)
        units = [I.as_unit(v, n, True) for v in nums]
        known = [u for u in units if u is not None]
        for u in known[1:]:
            I.check_same(known[0], u, n, 'add-units', f"{name}() over values of different units")
        if any(isinstance(v, Num) for v in nums):
            return Num(next(v.unit for v in nums if isinstance(v, Num)))
        return Other(name)
    if name in ('any', 'all'):
        vals = I.iterate(args[0], n) if not isinstance(args[0], Other) else None
        if vals is None:
            return Bool(None)
        ts = [I.truth(v) for v in vals]
        if name == 'any':
            if any(t is True for t in ts):
                return Bool(True)
            return Bool(False) if all(t is False for t in ts) and not _open(args[0]) else Bool(None)
        if any(t is False for t in ts):
            return Bool(False)
        return Bool(True) if all(t is True for t in ts) and not _open(args[0]) else Bool(None)
    if name in ('list', 'tuple', 'set', 'sorted', 'reversed'):
        if not args:
            return ListV()
        v = args[0]
        if isinstance(v, (Tup, ListV)):
            r = (Tup if name == 'tuple' else ListV)(v)
            if getattr(v, 'open', False):
                r.open, r.elem = True, v.elem
            return r
        if isinstance(v, Gen):
            return (Tup if name == 'tuple' else ListV)(v.values)
        if isinstance(v, (Items, Contents)):
            return ListV(I.iterate(v, n))
        hook = I.opts.get('list_hook')
        if hook is not None:
            r = hook(I, n, name, v)
            if r is not None:
                return r
        if isinstance(v, Other):
            return Other(name)
        return v
    if name == 'dict':
        return DictV()
    if name == 'str':
        t = I.as_tstr(args[0]) if args else None
        return S(t) if t is not None else Other('str')
    if name == 'enumerate':
        vals = I.iterate(args[0], n)
        return ListV(Tup([Other('index'), v]) for v in vals)
    if name == 'zip':
        hook = I.opts.get('zip_hook')
        if hook is not None:
            r = hook(I, n, args)
            if r is not None:
                return r
        seqs = [I.iterate(a, n) for a in args]
        if any(_open(a) for a in args):
            # an open (repeated) sequence zips with the elements of the other one
            length = max(len(s) for s, a in zip(seqs, args) if not _open(a)) if any(not _open(a) for a in args) else 1
            seqs = [s * length if _open(a) else s for s, a in zip(seqs, args)]
        return ListV(Tup(items) for items in zip(*seqs))
    if name == 'map':
        fn = args[0]
        vals = I.iterate(args[1], n)
        out = []
        for v in vals:
            if isinstance(fn, Closure):
                out.append(call_value(I, n, fn, [v], {}))
            elif isinstance(fn, Other) and fn.d.endswith('str.split') and I.as_tstr(v) is not None:
                out.append(ListV(S(p) for p in I.as_tstr(v).split_ws()))
            else:
                out.append(Other('mapped'))
        return Gen(out)
    if name == 'range':
        return Other('range')
    if name == 'divmod' and len(args) == 2:
        if all(isinstance(a, Lit) for a in args) and args[1].v:
            q_, r_ = divmod(args[0].v, args[1].v)
            return Tup([Lit(q_), Lit(r_)])
        return Tup([Other('int'), Other('int')])
    if name == 'next' and args and isinstance(args[0], (Gen, ListV, Tup)):
        # first element a generator expression yields on this path (its filters were decided as path choices)
        vals = list(args[0].values) if isinstance(args[0], Gen) else list(args[0])
        if vals:
            return vals[0]
        if len(args) > 1:
            return args[1]
        raise Raised('StopIteration', n.lineno)
    if name in ('type', 'print', 'id', 'hash', 'repr', 'filter', 'next', 'iter', 'chr', 'ord'):
        return Other(name)
    if name in ('ValueError', 'TypeError', 'RuntimeError', 'Exception', 'KeyError'):
        return Other('exc')
    # constructors / module-level repo functions
    if name == 'Container':
        return container_ctor(I, n, args, kwargs)
    if name in ('Plate', 'PlateSlicer', 'Recipe', 'RecipeStep', 'Substance'):
        return Obj(name)
    if name in I.model.funcs and I.model.funcs[name].cls is None:
        fi = I.model.funcs[name]
        return I.invoke(fi.node, args, kwargs, None, fi, n)
    I.incomplete(n, f"call of unknown function {name}")


def _open(v):
    return getattr(v, 'open', False) or isinstance(v, Other)


def float_of_string(I, t: TStr, n):
    if t.is_literal():
        try:
            return Lit(float(t.text()))
        except ValueError:
            raise Raised('ValueError', n.lineno)
    if len(t.tokens) == 1 and t.tokens[0][0] == 'num':
        m = t.tokens[0][2]
        if is_num(m):
            return m
        return Other('float')
    raise Raised('ValueError', n.lineno)


def isinstance_(I, n, v, tnode):
    def members(t):
        if isinstance(t, ast.Tuple):
            return [m for e in t.elts for m in members(e)]
        if isinstance(t, ast.BinOp) and isinstance(t.op, ast.BitOr):      # isinstance(x, int | float)
            return members(t.left) + members(t.right)
        return [t]
    names = [unparse(t).split('.')[-1] for t in members(tnode)]
    tn = None
    if isinstance(v, Cont):
        tn = 'Container'
    elif isinstance(v, Subst):
        tn = 'Substance'
    elif isinstance(v, (S, UserQ, UserC, UserStr)):
        tn = 'str'
    elif isinstance(v, (Num, SymLit)):
        tn = 'float'
    elif isinstance(v, Lit):
        tn = 'float'
        if 'int' in names or 'float' in names:
            return Bool(True)
    elif isinstance(v, ListV):
        tn = 'list'
        if 'Iterable' in names:
            return Bool(True)
    elif isinstance(v, Tup):
        tn = 'tuple'
        if 'Iterable' in names:
            return Bool(True)
    elif isinstance(v, DictV):
        tn = 'dict'
    elif isinstance(v, NoneV):
        return Bool(False)
    elif isinstance(v, Bool):
        return Bool('bool' in names or 'int' in names)
    elif isinstance(v, Obj):
        tn = v.what
    elif isinstance(v, Other) and v.d.startswith('isa:'):
        tn = v.d[4:]
    if tn is None:
        return Bool(None)
    if tn == 'float' and ('int' in names or 'float' in names):
        return Bool(True)
    if tn == 'str' and 'Iterable' in names:
        return Bool(True)
    if tn == 'PlateSlicer' and 'Slicer' in names:
        return Bool(True)
    return Bool(tn in names)


def sum_(I, n, args):
    vals = I.iterate(args[0], n) if not isinstance(args[0], Other) else None
    if vals is None:
        return Other('sum')
    hook = I.opts.get('sum_hook')
    if hook is not None:
        r = hook(I, n, vals)
        if r is not None:
            return r
    if any(isinstance(v, Other) for v in vals):
        return Other('sum')
    units = [(I.as_unit(v, n, True), v) for v in vals]
    known = [u for u, v in units if u is not None]
    for u in known[1:]:
        I.check_same(known[0], u, n, 'sum-mix', 'sum over the substance kinds mixes units')
    if not known:
        return Lit(0.0)
    return Num(known[0])


# ------------------------------------------------------------------------------------------------ attribute calls
def call_attr(I, n, f, args, kwargs):
    name = f.attr
    # Unit.<api>(...)
    if isinstance(f.value, ast.Name) and f.value.id == 'Unit' and not I.env.has('Unit'):
        return unit_api(I, n, name, args, kwargs)
    if isinstance(f.value, ast.Name) and f.value.id in I.model.classes and not I.env.has(f.value.id):
        return class_call(I, n, f.value.id, name, args, kwargs)
    if isinstance(f.value, ast.Name) and f.value.id == 'dict' and name == 'fromkeys' and args and not I.env.has('dict'):
        # dict.fromkeys(keys, value): literal keys become real keys, all bound to the one value
        keys = I.iterate(args[0], n)
        d = DictV()
        val = args[1] if len(args) > 1 else NONE
        for k in keys:
            key = k.t.text() if isinstance(k, S) and k.t.is_literal() else k.v if isinstance(k, Lit) else None
            if key is None:
                d.pairs.append((k, val))
            else:
                d[key] = val
        return d
    src = _dotted(f)
    if src == 'unicodedata.normalize' and len(args) == 2 and not I.env.has('unicodedata'):
        # compatibility normalisation (NFKC / NFKD) rewrites characters: decided against the prefix table
        import unicodedata as _ud
        from .units import SI as _SI
        form = I.as_tstr(args[0])
        form = form.text() if form is not None and form.is_literal() else None
        if form is None:
            I.incomplete(n, 'unicodedata.normalize with an unknown form')
        changed = sorted(k for k in _SI if k and _ud.normalize(form, k) != k and _ud.normalize(form, k) not in _SI)
        I.sink(n, 'string-rewrite', not changed,
               f"unicodedata.normalize({form!r}, ..) rewrites the prefix character(s) {changed} (U+{ord(changed[0][0]):04X} -> "
               f"U+{ord(_ud.normalize(form, changed[0])[0]):04X}) to characters that are not in the prefix table: a "
               f"documented spelling is refused" if changed else '')
        t1 = I.as_tstr(args[1])
        if t1 is not None and t1.is_literal():
            return S(_ud.normalize(form, t1.text()))        # known characters: the rewriting is applied
        return args[1]
    if src in ('itertools.product', 'product') and args and all(isinstance(a, Other) and a.d == 'range' for a in args) and not kwargs:
        # the index tuples of nested loops over ranges
        return ListV([Tup([Other('index') for _ in args])])
    if src is not None and src.startswith(('numpy.', 'np.', 'pandas.', 'math.')):
        hook = I.opts.get('numpy_hook')
        if hook is not None:
            r = hook(I, n, src.split('.', 1)[1], args, kwargs)
            if r is not None:
                return r
        short = src.split('.', 1)[1]
        if short in ('isclose', 'allclose'):
            # numpy: |a - b| <= atol + rtol * |b| with atol = 1e-8 unless given; math.isclose has abs_tol = 0 by default
            is_numpy = not src.startswith('math.')
            tol = kwargs.get('atol' if is_numpy else 'abs_tol')
            absolute = (is_numpy and tol is None) or (tol is not None and not (isinstance(tol, Lit) and tol.v == 0))
            stored = False
            for a in args[:2]:
                if isinstance(a, Num):
                    try:
                        stored = stored or I.bound_unit(a.unit).has_storage_symbol()
                    except Exception:
                        pass
            I.sink(n, 'storage-compare', not (absolute and stored),
                   f"{src} applies an absolute tolerance to values still in their storage unit: what counts as equal "
                   f"depends on the storage configuration (1e-8 L is 0.01 uL, 1e-8 uL is nothing)")
            return Bool(None)
        if short in ('vectorize', 'frompyfunc') and args:
            return Vectorized(args[0])
        if short in ('zeros', 'zeros_like'):
            return Lit(0.0)
        if short in ('shape', 'size'):
            return Other(short)
        return Other('ext:' + src)
    recv = I.ev(f.value)
    t = I.as_tstr(recv)
    if t is not None:
        return str_method(I, n, t, name, args)
    if isinstance(recv, (UserQ, UserC, UserStr)):
        if name in ('lower', 'upper', 'casefold', 'swapcase', 'title', 'capitalize'):
            I.sink(n, 'string-rewrite', False, f"str.{name}() changes the case of a unit string: 'm' (milli) and 'M' "
                                               f"(mega / molar) are different spellings")
            return recv
        if name == 'strip' and not args:
            return recv         # surrounding white space only: the tokens are unchanged
        return Other('userstr.' + name)
    if isinstance(recv, Subst):
        if name in ('is_enzyme', 'is_liquid', 'is_solid'):
            return Bool({'is_enzyme': 'enzyme', 'is_liquid': 'liquid', 'is_solid': 'solid'}[name] == recv.kind)
        return Other('subst.' + name)
    if isinstance(recv, Contents):
        if name == 'items':
            return Items(recv.owner, 'items', recv.filt)
        if name == 'keys':
            return Items(recv.owner, 'keys', recv.filt)
        if name == 'values':
            return Items(recv.owner, 'values', recv.filt)
        if name == 'get':
            k = args[0]
            if isinstance(k, Subst):
                v = Num(AMT(k.kind))
                return v
            I.incomplete(n, f"contents.get({k!r})")
        if name in ('copy',):
            return recv
        return Other('contents.' + name)
    if isinstance(recv, Cont):
        return cont_method(I, n, recv, name, args, kwargs)
    if isinstance(recv, (ListV, Tup)):
        return list_method(I, n, recv, name, args)
    if isinstance(recv, DictV):
        if name == 'get':
            k = args[0]
            key = k.t.text() if isinstance(k, S) and k.t.is_literal() else k.v if isinstance(k, Lit) else None
            if key in recv:
                return recv[key]
            return args[1] if len(args) > 1 else NONE
        if name in ('items', 'values', 'keys'):
            if name == 'items':
                return ListV([Tup([S(k) if isinstance(k, str) else Lit(k), v]) for k, v in recv.items()] +
                             [Tup([k, v]) for k, v in recv.pairs])
            if name == 'values':
                return ListV(list(recv.values()) + [v for k, v in recv.pairs])
            return ListV([S(k) if isinstance(k, str) else Lit(k) for k in recv] + [k for k, v in recv.pairs])
        return Other('dict.' + name)
    if isinstance(recv, (Obj, Other)) and name in ('apply', 'applymap', 'map') and args and \
            isinstance(args[0], (Vectorized, Closure)):
        apply_per_well(I, n, args[0], [Other('element')])
        return Other('applied')
    if isinstance(recv, Obj):
        hook = I.opts.get('obj_method_hook')
        if hook is not None:
            r = hook(I, n, recv, name, args, kwargs)
            if r is not None:
                return r
        return obj_method(I, n, recv, name, args, kwargs)
    if isinstance(recv, Closure):
        return Other('closure.' + name)
    if isinstance(recv, Gen):
        return Other('gen.' + name)
    if isinstance(recv, NoneV):
        raise Raised('AttributeError', n.lineno)
    if is_num(recv):
        if name in ('round', 'sum', 'item'):
            return recv
        return Other('num.' + name)
    if isinstance(recv, Other):
        if recv.d.startswith('class:'):
            return class_call(I, n, recv.d[6:], name, args, kwargs)
        return Other(f"{recv.d}.{name}()")
    return Other('call.' + name)


def obj_method(I, n, recv, name, args, kwargs):
    """Methods of the generic objects (plates, slices, well arrays, recipe records)."""
    what = recv.what
    if what == 'wells':
        if name == 'flatten':
            r = ListV([Cont(I.new_sym('well'))])
            r.open, r.elem = True, r[0]
            return r
        return Other('wells.' + name)
    if what in ('Plate', 'PlateSlicer'):
        if name in ('get',):
            return Obj('wells')
        if name in ('remove', 'fill_to'):
            return Obj('Plate', dict(recv.attrs))
        if name == '__getitem__':
            return Obj('PlateSlicer', {'plate': recv})
        fi = I.model.lookup_method(what, name)
        if fi is not None and name in ('get_volumes', 'get_moles', 'get_volume', 'get_substances', 'dataframe'):
            return I.invoke(fi.node, [recv] + args, kwargs, None, fi, n)
    return Other(f"{what}.{name}()")


LITERAL_STR_METHODS = {'upper', 'lower', 'casefold', 'swapcase', 'title', 'capitalize', 'islower', 'isupper', 'isdigit',
                       'isalpha', 'isalnum', 'isnumeric', 'isdecimal', 'isspace', 'strip', 'lstrip', 'rstrip', 'replace',
                       'removesuffix', 'removeprefix', 'startswith', 'endswith', 'find', 'index', 'count', 'zfill'}


def str_method(I, n, t: TStr, name, args):
    a0 = I.as_tstr(args[0]) if args else None
    if t.is_literal() and name in LITERAL_STR_METHODS:
        # known characters: the method is evaluated exactly (on the abstract literal, nothing of the library runs)
        lits = []
        for a in args:
            ta = I.as_tstr(a)
            if ta is not None and ta.is_literal():
                lits.append(ta.text())
            elif isinstance(a, Lit) and isinstance(a.v, (int, float)):
                lits.append(int(a.v))
            else:
                lits = None
                break
        if lits is not None:
            try:
                r = getattr(t.text(), name)(*lits)
            except (TypeError, ValueError):
                raise Raised('ValueError', n.lineno)
            if isinstance(r, bool):
                return Bool(r)
            if isinstance(r, int):
                return Lit(r)
            return S(r)
    if name == 'replace' and len(args) >= 2 and a0 is not None and a0.is_literal():
        a1 = I.as_tstr(args[1])
        if a1 is not None and a1.is_literal() and len(args) == 2:
            return S(t.replace_all(a0.text(), a1.text()))
    if name == 'endswith':
        if a0 is None or not a0.is_literal():
            if isinstance(args[0], (Tup, ListV)):
                rs = [t.endswith(I.as_tstr(x).text()) for x in args[0]]
                if any(r is True for r in rs):
                    return Bool(True)
                return Bool(False) if all(r is False for r in rs) else Bool(None)
            return Bool(None)
        return Bool(t.endswith(a0.text()))
    if name == 'startswith':
        if t.is_literal() and a0 is not None and a0.is_literal():
            return Bool(t.text().startswith(a0.text()))
        return Bool(None)
    if name == 'count':
        if a0 is not None and a0.is_literal() and len(a0.text()) == 1:
            return Lit(t.count(a0.text()))
        return Other('count')
    if name == 'split':
        if not args:
            return ListV(S(p) for p in t.split_ws())
        if a0 is not None and a0.is_literal():
            return ListV(S(p) for p in t.split(a0.text()))
        return Other('split')
    if name == 'rstrip' and a0 is not None and a0.is_literal():
        return S(t.rstrip_chars(a0.text()))
    if name == 'removesuffix' and a0 is not None and a0.is_literal():
        r = t.removesuffix(a0.text())
        if r is not None:
            return S(r)
        return Other('str.removesuffix')
    if name in ('lower', 'upper', 'casefold', 'swapcase', 'title', 'capitalize') and not t.is_literal():
        I.sink(n, 'string-rewrite', False, f"str.{name}() changes the case of a unit string: 'm' (milli) and 'M' (mega / "
                                           f"molar) are different spellings")
        return S(t)
    if name == 'strip' and not args:
        return S(t)             # surrounding white space only (the templates carry none)
    if name in ('strip', 'lower', 'upper', 'lstrip', 'rstrip', 'format', 'replace', 'splitlines', 'join', 'title'):
        if name == 'join':
            return Other('joined')
        return Other('str.' + name)
    return Other('str.' + name)


def list_method(I, n, recv, name, args):
    if name == 'append':
        recv.append(args[0])
        return NONE
    if name == 'pop':
        if getattr(recv, 'open', False):
            return recv.elem
        if not recv:
            raise Raised('IndexError', n.lineno)
        i = int(args[0].v) if args and isinstance(args[0], Lit) else -1
        return recv.pop(i)
    if name == 'extend':
        recv.extend(I.iterate(args[0], n))
        return NONE
    if name in ('index', 'count'):
        return Other('list.' + name)
    if name == 'copy':
        return type(recv)(recv)
    if name in ('sort', 'reverse', 'insert', 'remove', 'clear'):
        return NONE
    return Other('list.' + name)


def class_call(I, n, cls, name, args, kwargs):
    if cls == 'Unit':
        return unit_api(I, n, name, args, kwargs)
    if cls == 'Container':
        if name == 'transfer':
            return transfer_summary(I, n, args)
        if name in ('create_solution', 'create_solution_from'):
            if name == 'create_solution_from':
                return Tup([Cont('residual'), Cont('new')]) if len(args) < 4 or not isinstance(args[3], Cont) else \
                    Tup([Cont('residual'), Cont('solvent-residual'), Cont('new')])
            return Other('create_solution-result')
    if cls == 'Plate' and name == 'transfer':
        return transfer_summary(I, n, args)
    if cls == 'Substance' and name in ('liquid', 'solid', 'enzyme'):
        return substance_factory(I, n, name, args, kwargs)
    if cls == 'Substance':
        return Other('Substance.' + name)
    fi = I.model.lookup_method(cls, name)
    if fi is not None and fi.is_static:
        return I.invoke(fi.node, args, kwargs, None, fi, n)
    if fi is not None and args:
        return I.invoke(fi.node, args, kwargs, None, fi, n)
    return Other(f"{cls}.{name}()")


def substance_factory(I, n, name, args, kwargs):
    fi = I.model.lookup_method('Substance', name)
    params = fi.param_names() if fi else []
    bound = dict(zip(params, args))
    bound.update(kwargs)
    if name in ('liquid', 'solid'):
        mw = bound.get('mol_weight')
        if mw is not None and is_num(mw):
            I.check_same(I.as_unit(mw, n, True), base('g') / base('mol'), n, 'factory-unit',
                         f"Substance.{name}(mol_weight=) must be in g/mol")
        d = bound.get('density')
        if name == 'liquid' and d is not None and is_num(d):
            I.check_same(I.as_unit(d, n, True), base('g') / mL, n, 'factory-unit',
                         'Substance.liquid(density=) must be in g/mL')
    return Subst({'liquid': 'liquid', 'solid': 'solid', 'enzyme': 'enzyme'}[name], I.new_sym('made'))


def container_ctor(I, n, args, kwargs):
    fi = I.model.func('Container.__init__')
    params = fi.param_names()
    bound = dict(zip(params, args))
    bound.update(kwargs)
    ic = bound.get('initial_contents')
    if isinstance(ic, (ListV, Tup, Gen)):
        for entry in I.iterate(ic, n):
            if isinstance(entry, (Tup, ListV)) and len(entry) == 2:
                add_quantity_check(I, n, entry[0], entry[1])
    mv = bound.get('max_volume')
    if mv is not None and isinstance(mv, S):
        q = I.quantity_of(mv, n)
        if q is not None:
            u = unit_of(q[1])
            I.sink(n, 'capacity-unit', u is not None and u[0].dimension() == base('L').dimension(),
                   f"capacity given in {q[1]!r}, which is not a volume")
    return Cont(I.new_sym('container'))


def add_quantity_check(I, n, subst, q):
    """A (substance, quantity string) pair handed to the constructor / _add: the cell must be convertible."""
    qq = I.quantity_of(q, n) if isinstance(q, S) else None
    if qq is None or not isinstance(subst, Subst):
        return
    u = unit_of(qq[1])
    if u is None:
        return
    if 'U' in u[0].dims and subst.kind != 'enzyme':
        I.sink(n, 'add-cell', False, f"a {subst.kind} is added in activity units (raises ValueError)")
        raise Raised('ValueError', n.lineno)
    I.sink(n, 'add-cell', True)


def transfer_summary(I, n, args):
    src = args[0] if args else Other('src')
    dst = args[1] if len(args) > 1 else Other('dst')

    def after(x):
        if isinstance(x, Cont):
            return Cont(x.ident + "'", dict(x.fields))
        if isinstance(x, Obj):
            return Obj(x.what, dict(x.attrs))
        return x
    return Tup([after(src), after(dst)])


def cont_method(I, n, recv: Cont, name, args, kwargs):
    if name in ('_add', '_self_add'):
        if len(args) >= 2:
            add_quantity_check(I, n, args[0], args[1])
        return Cont(recv.ident + '+', dict(recv.fields)) if name == '_add' else NONE
    if name in ('_transfer', '_transfer_slice'):
        return transfer_summary(I, n, [args[0], recv] + args[1:])
    if name in ('remove', 'dilute', 'fill_to'):
        return Cont(recv.ident + ':' + name, dict(recv.fields))
    if name == 'has_liquid':
        return Bool(None)
    if name in ('get_substances',):
        return Other('set-of-substances')
    if name in ('dataframe', '_repr_html_', '__repr__'):
        return Other('dataframe')
    fi = I.model.lookup_method('Container', name)
    if fi is not None and not fi.is_static:
        return I.invoke(fi.node, [recv] + args, kwargs, None, fi, n)
    if fi is not None:
        return I.invoke(fi.node, args, kwargs, None, fi, n)
    return Other('cont.' + name)


# ------------------------------------------------------------------------------------------------ the Unit API
def unit_api(I, n, name, args, kwargs):
    inline = I.opts.get('inline_unit', ())
    if name in inline or name not in UNIT_API:
        fi = I.model.lookup_method('Unit', name)
        if fi is None:
            I.incomplete(n, f"Unit.{name} does not exist")
        return I.invoke(fi.node, args, kwargs, None, fi, n)
    fi = I.model.lookup_method('Unit', name)
    if fi is None:
        I.incomplete(n, f"Unit.{name} does not exist")
    params = fi.param_names()
    if len(args) + len(kwargs) > len(params):
        raise Raised('TypeError', n.lineno)
    bound = dict(zip(params, args))
    bound.update(kwargs)
    pos = [bound.get(p) for p in params]
    return globals()['api_' + name](I, n, *pos)


def api_convert_prefix_to_multiplier(I, n, p):
    t = I.as_tstr(p)
    if t is None:
        if isinstance(p, Other):
            I.incomplete(n, f"prefix argument {p!r}")
        raise Raised('TypeError', n.lineno)
    kind, val = prefix_of(t)
    if kind == 'sym':
        I.sink(n, 'prefix-strip', True)
        return SymLit(sym(val))
    if kind == 'lit':
        if val in SI:
            I.sink(n, 'prefix-strip', True)
            return Lit(SI[val])
        raise Raised('ValueError', n.lineno)
    I.sink(n, 'prefix-strip', False, f"argument is not the prefix of a unit string: {val}")
    return SymLit(sym('?bad'))


def _pq_choice(I, key, bases=None):
    bases = bases or I.opts.get('pq_bases', PQ_BASES)
    if key not in I.memo:
        I.memo[key] = bases[I.choose(len(bases), f"base unit of {key}")]
    return I.memo[key]


def _as_user(I, v, role):
    """A UserStr takes the role of its first use on the path."""
    if isinstance(v, UserStr):
        have = I.memo.setdefault(('role', v.name), role)
        if have != role:
            if have == 'unit':
                return S(I.as_tstr(v))
            raise Raised('ValueError', 0)
        return UserQ(v.name) if role == 'quantity' else UserC(v.name)
    return v


def api_parse_quantity(I, n, q):
    q = _as_user(I, q, 'quantity')
    if isinstance(q, UserQ):
        b = _pq_choice(I, ('pq', q.name))
        return Tup([Num(base(b)), S(b)])
    qq = I.quantity_of(q, n) if isinstance(q, S) else None
    if qq is not None:
        val, ut = qq
        u, b = unit_of(ut)
        if b == 'U' and not (ut.is_literal() and ut.text() == 'U'):
            ok = I.str_equals(ut, 'U', n)
            if not ok:
                raise Raised('ValueError', n.lineno)
        return Tup([Num(base(b)), S(b)])
    t = I.as_tstr(q)
    if t is not None and t.is_literal():
        parts = t.text().split(' ')
        if len(parts) != 2:
            raise Raised('ValueError', n.lineno)
        try:
            v = float(parts[0])
        except ValueError:
            raise Raised('ValueError', n.lineno)
        for b in ('mol', 'g', 'L', 'M'):
            if parts[1] == 'U':
                return Tup([Num(base('U')) if v != 0 else Lit(0.0), S('U')])
            if parts[1].endswith(b) and parts[1][:-len(b)] in SI:
                return Tup([Num(base(b)), S(b)])
        raise Raised('ValueError', n.lineno)
    if isinstance(q, Other):
        b = _pq_choice(I, ('pq', 'other:' + q.d))
        return Tup([Num(base(b)), S(b)])
    raise Raised('TypeError', n.lineno)


def api_parse_concentration(I, n, c):
    c = _as_user(I, c, 'concentration')
    units = I.opts.get('pc_units', PC_UNITS)
    if isinstance(c, (UserC, UserC1)) or isinstance(c, Other):
        name = c.name if not isinstance(c, Other) else 'other:' + c.d
        key = ('pc', name)
        if key not in I.memo:
            nums = I.opts.get('pc_nums', units)
            dens = I.opts.get('pc_dens', units)
            a = nums[I.choose(len(nums), f"numerator of {name}")]
            b = dens[I.choose(len(dens), f"denominator of {name}")]
            I.memo[key] = (a, b)
        a, b = I.memo[key]
        if isinstance(c, UserC1):
            return Tup([SymLit(sym('PC')), S(a), S(b)])
        return Tup([Num(base(a) / base(b)), S(a), S(b)])
    t = I.as_tstr(c)
    if t is not None and t.is_literal():
        # literal concentration strings do not occur at call sites today
        I.incomplete(n, f"literal concentration {t!r}")
    raise Raised('TypeError', n.lineno)


def cell_outcome(I, n, s, fuu, tuu):
    """Outcome of Unit.convert_from for substance kind / from / to dimensions (verified cell table, C06.R1)."""
    if not isinstance(s, Subst):
        return Num(tuu)
    enz = s.kind == 'enzyme'
    if 'U' in fuu.dims and not enz:
        raise Raised('ValueError', n.lineno)
    if ('U' in tuu.dims and not enz) or (enz and ('mol' in tuu.dims or 'mol' in fuu.dims)):
        return Lit(0.0)
    if fuu.has_storage_symbol() and not tuu.has_storage_symbol():
        from .unitai import SNum
        return SNum(tuu)
    return Num(tuu)


def api_convert_from(I, n, s, q, fu, tu):
    if isinstance(s, (S, NoneV)) or (isinstance(s, Other) and not s.d.startswith('isa:Substance')):
        if not isinstance(s, Other):
            raise Raised('TypeError', n.lineno)
    fuu = I.unit_of_str(fu, n, 'from-unit of convert_from')
    tuu = I.unit_of_str(tu, n, 'to-unit of convert_from')
    for uu, w in ((fuu, 'from'), (tuu, 'to')):
        if len(uu.dims) != 1 or list(uu.dims.values()) != [1]:
            raise Raised('ValueError', n.lineno)       # 'M' etc. are not units of an amount
    if not is_num(q):
        if isinstance(q, Other):
            I.incomplete(n, f"convert_from of an uninterpreted quantity {q!r}")
        raise Raised('TypeError', n.lineno)
    if isinstance(q, Lit) and q.v != 0:
        # a literal amount is *defined* to be in the from-unit: the result is the conversion factor
        # (k from-units expressed in to-units), a number in to-unit per from-unit
        I.sink(n, 'convert-from-unit', True)
        out = cell_outcome(I, n, s, fuu, tuu)
        if isinstance(out, Num):
            return Num((tuu / fuu).scaled(1.0 / q.v))
        return out
    benign = isinstance(s, Subst) and s.kind == 'enzyme' and 'mol' in fuu.dims and 'mol' in tuu.dims
    uq = I.as_unit(q, n, True)
    if benign:
        I.sink(n, 'convert-from-unit', True)
    else:
        kind = s.kind if isinstance(s, Subst) else '?'
        I.check_same(uq, fuu, n, 'convert-from-unit',
                     f"amount of a {kind} passed to convert_from is not in the from-unit given with it")
    return cell_outcome(I, n, s, fuu, tuu)


def api_convert(I, n, s, q, tu):
    q = _as_user(I, q, 'quantity')
    if isinstance(q, (UserQ, Other)):
        b = _pq_choice(I, ('pq', q.name if isinstance(q, UserQ) else 'other:' + q.d))
        if b == 'M':
            raise Raised('ValueError', n.lineno)
        fuu = base(b)
    else:
        qq = I.quantity_of(q, n) if isinstance(q, S) else None
        if qq is None:
            t = I.as_tstr(q)
            if t is not None and t.is_literal():
                r = api_parse_quantity(I, n, q)
                fuu = r[0].unit if isinstance(r[0], Num) else base(I.as_tstr(r[1]).text())
            else:
                I.incomplete(n, f"Unit.convert of {q!r}")
        else:
            val, ut = qq
            fuu = unit_of(ut)[0]
            # (the number / unit agreement of the f-string was checked where it was built)
            if len(fuu.dims) != 1:
                raise Raised('ValueError', n.lineno)
            # parse_quantity accepts 'U' only without a prefix
            if 'U' in fuu.dims and not (ut.is_literal() and ut.text() == 'U'):
                if not I.str_equals(ut, 'U', n):
                    raise Raised('ValueError', n.lineno)
            benign = isinstance(s, Subst) and s.kind == 'enzyme' and 'mol' in fuu.dims
            if isinstance(s, Subst) and is_num(val):
                uv = I.as_unit(val, n, True)
                # an amount of a substance labelled with the wrong storage unit for its kind
                if uv is not None and not benign and not uv.same(fuu):
                    pass        # already reported by the f-string pair check
    tuu = I.unit_of_str(tu, n, 'to-unit of convert')
    if len(tuu.dims) != 1 or list(tuu.dims.values()) != [1]:
        raise Raised('ValueError', n.lineno)
    return cell_outcome(I, n, s, fuu, tuu)


def api_convert_to_storage(I, n, v, u):
    uu = I.unit_of_str(u, n, 'unit of convert_to_storage')
    if not is_num(v):
        if isinstance(v, Other):
            I.incomplete(n, f"convert_to_storage of {v!r}")
        raise Raised('TypeError', n.lineno)
    dim_ok = uu.dimension() in (base('L').dimension(), base('mol').dimension())
    I.sink(n, 'to-storage-dim', dim_ok, f"convert_to_storage is given the unit {uu}: only volumes and moles have a storage unit")
    I.check_same(I.as_unit(v, n, True), uu, n, 'to-storage', 'value passed to convert_to_storage is not in the unit given with it')
    from .unitai import RNum
    if isinstance(v, RNum):
        I.sink(n, 'round-then-scale', False, 'a value rounded to the internal precision in the user / base unit is converted to the '
                                             'storage unit afterwards: the rounding error is multiplied by the ratio of the prefixes')
    return Num(PVS_L if 'L' in uu.dims else PMS_MOL)


def api_convert_from_storage(I, n, v, u):
    uu = I.unit_of_str(u, n, 'unit of convert_from_storage')
    if uu.dimension() == base('L').dimension():
        st = PVS_L
    elif uu.dimension() == base('mol').dimension():
        st = PMS_MOL
    else:
        raise Raised('ValueError', n.lineno)
    if isinstance(v, Lit):
        if v.v == 0:
            return Lit(0.0)
        # a bare number: the result is the pure scale factor storage-unit / requested unit
        scale = (st / uu)
        return SymLit(U(v.v * scale.coef, None, scale.syms))
    if not is_num(v):
        if isinstance(v, Other):
            I.incomplete(n, f"convert_from_storage of {v!r}")
        raise Raised('TypeError', n.lineno)
    uv = I.as_unit(v, n, True)
    if uv is not None and st is PMS_MOL and uv.dims == {'U': 1} and not I.bound_unit(uv).has_storage_symbol() and \
            I.opts.get('linear_from_storage'):
        # the conversion is a multiplication by (storage unit / requested unit): applied to an activity that is divided
        # by a ratio in U per storage-mole afterwards it converts the quotient - the number is then expressed in
        # U * requested / storage, and the later division makes it the requested unit (dilute of an enzyme)
        return Num(uv * uu / st)
    I.check_same(uv, st, n, 'from-storage',
                 'value passed to convert_from_storage is not a stored quantity of that dimension')
    return Num(uu)


def api_get_human_readable_unit(I, n, v, u):
    uu = I.unit_of_str(u, n, 'unit of get_human_readable_unit')
    b = U(1.0, uu.dims)
    if not is_num(v):
        if isinstance(v, Other):
            I.incomplete(n, f"get_human_readable_unit of {v!r}")
        raise Raised('TypeError', n.lineno)
    I.check_same(I.as_unit(v, n, True), b, n, 'hr-base',
                 'get_human_readable_unit needs its value in the base unit of the unit argument')
    p = I.new_sym('Ph')
    bt = [k for k in b.dims][0] if len(b.dims) == 1 else 'M'
    return Tup([Num(sym(p) * b), S(TStr([('pre', p), ('lit', bt)]))])


def api_convert_from_storage_to_standard_format(I, n, what, q):
    if isinstance(what, Subst):
        want = AMT(what.kind)
        bt = {'enzyme': 'U', 'solid': 'g', 'liquid': 'L'}[what.kind]
    elif isinstance(what, Cont):
        want, bt = PVS_L, 'L'
    else:
        if isinstance(what, Other):
            I.incomplete(n, f"standard format of {what!r}")
        raise Raised('TypeError', n.lineno)
    if is_num(q):
        I.check_same(I.as_unit(q, n, True), want, n, 'std-format',
                     'quantity passed to convert_from_storage_to_standard_format is not in storage units')
    p = I.new_sym('Ps')
    return Tup([Num(sym(p) * base(bt)), S(TStr([('pre', p), ('lit', bt)]))])


def api_calculate_concentration_ratio(I, n, solute, conc, solvent):
    r = api_parse_concentration(I, n, conc)
    num, den = I.as_tstr(r[1]).text(), I.as_tstr(r[2]).text()
    if den == 'U':
        raise Raised('ValueError', n.lineno)
    if num == 'U':
        return Tup([Num(base('U') / PMS_MOL), S(num), S(den)])
    return Tup([Num(ONE), S(num), S(den)])

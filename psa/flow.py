"""Engine F (+ the symbolic part of D): syntax-directed forward analysis of one function.

For every statement the analysis records the state that holds *before* it on every path reaching it:
  * env    - local names (and simple access paths that were stored to) resolved to symbolic definitions:
             Ref (one assignment = one SSA-like identity), Param, LoopVar, Elt (tuple element), Phi (join),
             Acc (loop accumulator with its terms and the guards of each term), FuncRef (nested def);
  * vers   - version counters of access paths (`to.contents`, `self.results[...]`): bumped by every store
             to the path or below it and by every mutating call on it, so that two reads denote the same
             value only if path and version agree;
  * facts  - branch conditions that must hold (gates): after `if C: raise E` the fact `not C` holds and is
             tagged with E; `if not C: ... else: raise E` gives the same fact.  `assert` is not a gate.
Exits (return / raise / fall-through) are recorded with their states.
No code is executed; conditions on data are never decided here - both arms are analysed and joined."""
from __future__ import annotations

import ast
import copy
import itertools

from .model import AnalysisError, unparse

MUTATOR_METHODS = {'append', 'add', 'update', 'pop', 'clear', 'extend', 'insert', 'setdefault', 'discard', 'sort',
                   'reverse', '__setitem__', 'popitem', '__delitem__'}

_ids = itertools.count(1)


# ------------------------------------------------------------------------------------------------ symbolic nodes
class Sym(ast.expr):
    _fields = ()
    lineno = 0
    col_offset = 0


class Ref(Sym):
    """Value of one particular assignment (SSA-like identity)."""
    _fields = ('value',)

    def __init__(self, name, value, stmt):
        self.name, self.value, self.stmt = name, value, stmt
        self.defid = next(_ids)
        self.lineno = getattr(stmt, 'lineno', 0)


class Param(Sym):
    def __init__(self, name, func=None):
        self.name, self.func = name, func


class Free(Sym):
    """Free variable of a closure that could not be resolved at a registration site."""

    def __init__(self, name):
        self.name = name


class LoopVar(Sym):
    _fields = ('iter',)

    def __init__(self, name, loop, iter_, path):
        self.name, self.loop, self.iter, self.path = name, loop, iter_, path
        self.lineno = getattr(loop, 'lineno', 0)


class Elt(Sym):
    _fields = ('value',)

    def __init__(self, value, index):
        self.value, self.index = value, index


class Phi(Sym):
    _fields = ('options',)

    def __init__(self, options):
        self.options = options


class Acc(Sym):
    """Loop accumulator: init (value before the loop) and the terms added/subtracted inside it."""
    _fields = ('init', 'term_exprs')

    def __init__(self, name, init, loop, terms):
        self.name, self.init, self.loop, self.terms = name, init, loop, terms   # terms: [(op, expr, guards, stmt)]
        self.lineno = getattr(loop, 'lineno', 0)

    @property
    def term_exprs(self):
        return [t[1] for t in self.terms]


class FuncRef(Sym):
    def __init__(self, node):
        self.node = node


class Unknown(Sym):
    def __init__(self, why=''):
        self.why = why


class Fact:
    __slots__ = ('test', 'truth', 'exc', 'node', 'line')

    def __init__(self, test, truth, node):
        self.test, self.truth, self.node = test, truth, node
        self.exc = None          # exception type(s) raised on the excluded side, if that side always raises
        self.line = getattr(node, 'lineno', 0)

    def __repr__(self):
        return f"Fact({'' if self.truth else 'not '}{show(self.test)}{' !' + self.exc if self.exc else ''})"


class State:
    __slots__ = ('env', 'vers', 'facts', 'loops')

    def __init__(self, env=None, vers=None, facts=None, loops=()):
        self.env = env if env is not None else {}
        self.vers = vers if vers is not None else {}
        self.facts = facts if facts is not None else {}
        self.loops = loops

    def copy(self):
        return State(dict(self.env), dict(self.vers), dict(self.facts), self.loops)


class Exit:
    def __init__(self, kind, stmt, state, value=None, exc=None):
        self.kind, self.stmt, self.state, self.value, self.exc = kind, stmt, state, value, exc
        self.line = getattr(stmt, 'lineno', 0)


class Out:
    __slots__ = ('normal', 'kinds')

    def __init__(self, normal, kinds=None):
        self.normal = normal
        self.kinds = kinds if kinds is not None else set()


# ------------------------------------------------------------------------------------------------ helpers
def pathkey(node):
    """Canonical string of an access path made of names, attributes and subscripts; None otherwise."""
    if isinstance(node, ast.Name):
        return node.id
    if isinstance(node, (Ref, Param, LoopVar, Free)):
        return node.name
    if isinstance(node, ast.Attribute):
        b = pathkey(node.value)
        return None if b is None else f"{b}.{node.attr}"
    if isinstance(node, ast.Subscript):
        b = pathkey(node.value)
        if b is None:
            return None
        try:
            s = ast.unparse(node.slice) if not _has_sym(node.slice) else show(node.slice)
        except Exception:
            return None
        return f"{b}[{s}]"
    return None


def _has_sym(n):
    return any(isinstance(x, Sym) for x in ast.walk(n))


def path_prefixes(key):
    """Proper path prefixes of a key, excluding the bare root name: 'a.b[c].d' -> ['a.b', 'a.b[c]']."""
    out = []
    depth = 0
    for i, ch in enumerate(key):
        if ch == '[':
            if depth == 0:
                out.append(key[:i])
            depth += 1
        elif ch == ']':
            depth -= 1
        elif ch == '.' and depth == 0:
            out.append(key[:i])
    return [p for p in out[1:]] if out else []


def root_of(key):
    for i, ch in enumerate(key):
        if ch in '.[':
            return key[:i]
    return key


def exc_name(raise_stmt):
    e = raise_stmt.exc
    if e is None:
        return 're-raise'
    if isinstance(e, ast.Call):
        e = e.func
    if isinstance(e, ast.Name):
        return e.id
    if isinstance(e, ast.Attribute):
        return e.attr
    return '?'


def show(n, limit=160):
    s = _show(n)
    s = ' '.join(s.split())
    return s if len(s) <= limit else s[:limit - 3] + '...'


def _show(n):
    if isinstance(n, Ref):
        return n.name
    if isinstance(n, (Param, Free)):
        return n.name
    if isinstance(n, LoopVar):
        return n.name
    if isinstance(n, Elt):
        return f"{_show(n.value)}[#{n.index}]"
    if isinstance(n, Phi):
        return 'phi(' + ', '.join(_show(o) for o in n.options[:4]) + ')'
    if isinstance(n, Acc):
        return f"acc:{n.name}"
    if isinstance(n, FuncRef):
        return f"<def {getattr(n.node, 'name', 'lambda')}>"
    if isinstance(n, Unknown):
        return f"?{n.why}"
    if isinstance(n, ast.AST):
        if not _has_sym(n):
            try:
                return ast.unparse(n)
            except Exception:
                return type(n).__name__
        return _Shower().visit(n)
    if isinstance(n, list):
        return '[' + ', '.join(_show(x) for x in n) + ']'
    return repr(n)


class _Shower:
    """Unparser tolerant of symbolic nodes: rebuilds a clean tree with Name placeholders first."""

    def visit(self, n):
        t = _clean(n)
        try:
            ast.fix_missing_locations(t)
            return ast.unparse(t)
        except Exception:
            return type(n).__name__


def _clean(n):
    if isinstance(n, Sym):
        return ast.Name(id=_show(n).replace(' ', ''), ctx=ast.Load())
    if isinstance(n, list):
        return [_clean(x) for x in n]
    if not isinstance(n, ast.AST):
        return n
    new = type(n)()
    for f in n._fields:
        if hasattr(n, f):
            setattr(new, f, _clean(getattr(n, f)))
    return new


def walk_no_sym(n):
    """ast.walk over a resolved expression that does not descend into symbolic definitions (earlier statements)."""
    todo = [n]
    while todo:
        x = todo.pop()
        if x is None or isinstance(x, Sym) or not isinstance(x, ast.AST):
            continue
        yield x
        todo.extend(ast.iter_child_nodes(x))


def strip_refs(n):
    """Follow Ref chains to the defining expression (identity is lost; use for structure only)."""
    while isinstance(n, Ref):
        n = n.value
    return n


def deep_walk(n, seen=None, follow_refs=True, max_nodes=20000):
    """Walk a resolved expression DAG, following Ref/Acc/Phi/Elt/LoopVar links, each node once."""
    seen = set() if seen is None else seen
    todo = [n]
    count = 0
    while todo:
        x = todo.pop()
        if x is None or id(x) in seen:
            continue
        if isinstance(x, list):
            todo.extend(x)
            continue
        if not isinstance(x, ast.AST):
            continue
        seen.add(id(x))
        count += 1
        if count > max_nodes:
            return
        yield x
        if isinstance(x, Ref):
            if follow_refs:
                todo.append(x.value)
        elif isinstance(x, Acc):
            todo.append(x.init)
            todo.extend(t[1] for t in x.terms)
        elif isinstance(x, Phi):
            todo.extend(x.options)
        elif isinstance(x, (Elt,)):
            todo.append(x.value)
        elif isinstance(x, LoopVar):
            todo.append(x.iter)
        elif isinstance(x, Sym):
            pass
        else:
            todo.extend(ast.iter_child_nodes(x))


# ------------------------------------------------------------------------------------------------ the analysis
class FuncFlow:
    def __init__(self, funcinfo, model=None, outer_state: State | None = None, param_values: dict | None = None,
                 is_mutating_call=None):
        self.fi = funcinfo
        self.model = model
        self.node = funcinfo.node
        self.pre: dict[int, State] = {}
        self.order: dict[int, int] = {}               # statement -> position in execution (walk) order
        self.post: dict[int, State] = {}
        self.exits: list[Exit] = []
        self.resolved: dict[int, ast.AST] = {}       # id(stmt) -> resolved value / test of that statement
        self.stores: list = []                        # (stmt, target_node, key, resolved_value, state_before)
        self.calls: list = []                         # (call_node(resolved), stmt, state_before)
        self.loop_stack = []
        self._break_states = []
        self._continue_states = []
        self.is_mutating_call = is_mutating_call
        self.registrations = []                       # (call_resolved, stmt, state) where a FuncRef is passed
        st = State()
        if outer_state is not None:
            st.env.update(outer_state.env)
            st.vers.update(outer_state.vers)
        a = self.node.args
        for x in a.posonlyargs + a.args + a.kwonlyargs:
            st.env[x.arg] = (param_values or {}).get(x.arg) or Param(x.arg, funcinfo)
        if a.vararg:
            st.env[a.vararg.arg] = Param(a.vararg.arg, funcinfo)
        if a.kwarg:
            st.env[a.kwarg.arg] = Param(a.kwarg.arg, funcinfo)
        self.entry = st
        if isinstance(self.node, ast.Lambda):
            v = self.resolve(self.node.body, st)
            self.exits.append(Exit('return', self.node, st, value=v))
            self.normal = None
        else:
            out = self.run_block(self.node.body, st.copy())
            self.normal = out.normal
            if out.normal is not None:
                self.exits.append(Exit('fallthrough', self.node, out.normal))

    # ---------------------------------------------------------------- queries
    def seq(self, stmt):
        """Position of a statement in execution order (statements of expanded helpers have no meaningful line order)."""
        return self.order.get(id(stmt), -1)

    def normal_exits(self):
        return [e for e in self.exits if e.kind in ('return', 'fallthrough')]

    def raise_exits(self):
        return [e for e in self.exits if e.kind == 'raise']

    def state_before(self, stmt) -> State:
        s = self.pre.get(id(stmt))
        if s is None:
            raise AnalysisError(f"no state recorded for statement at line {getattr(stmt, 'lineno', '?')} "
                                f"in {self.fi.qualname} (unreachable?)")
        return s

    def reachable(self, stmt):
        return id(stmt) in self.pre

    # ---------------------------------------------------------------- resolution
    def resolve(self, e, st: State, bound=None):
        """Copy of expression `e` with loads of local names / stored paths replaced by their definitions."""
        if e is None:
            return None
        bound = bound or {}
        r = self._res(e, st, bound)
        return r

    def _res(self, e, st, bound):
        if isinstance(e, Sym):
            return e
        if isinstance(e, ast.Name):
            if e.id in bound:
                return bound[e.id]
            if e.id in st.env:
                return st.env[e.id]
            n = copy.copy(e)
            n.orig = e
            return n
        if isinstance(e, (ast.Attribute, ast.Subscript)) and isinstance(e.ctx, ast.Load):
            key = pathkey(e)
            if key is not None and root_of(key) not in bound and key in st.env:
                return st.env[key]
            n = copy.copy(e)
            n.orig = e
            n.value = self._res(e.value, st, bound)
            if isinstance(e, ast.Subscript):
                n.slice = self._res(e.slice, st, bound)
            n.pkey = key
            n.ver = st.vers.get(key, 0) if key is not None else None
            return n
        if isinstance(e, (ast.GeneratorExp, ast.ListComp, ast.SetComp, ast.DictComp)):
            n = copy.copy(e)
            n.orig = e
            b2 = dict(bound)
            gens = []
            for g in e.generators:
                g2 = copy.copy(g)
                g2.iter = self._res(g.iter, st, b2)
                self._bind_pattern(g.target, g2.iter, e, b2, ())
                g2.ifs = [self._res(c, st, b2) for c in g.ifs]
                g2.target = g.target
                gens.append(g2)
            n.generators = gens
            if isinstance(e, ast.DictComp):
                n.key = self._res(e.key, st, b2)
                n.value = self._res(e.value, st, b2)
            else:
                n.elt = self._res(e.elt, st, b2)
            return n
        if isinstance(e, ast.Lambda):
            n = copy.copy(e)
            n.orig = e
            b2 = dict(bound)
            for x in e.args.posonlyargs + e.args.args + e.args.kwonlyargs:
                b2[x.arg] = Param(x.arg, None)
            n.body = self._res(e.body, st, b2)
            return n
        if isinstance(e, ast.NamedExpr):
            v = self._res(e.value, st, bound)
            return v
        if not isinstance(e, ast.AST):
            return e
        n = copy.copy(e)
        n.orig = e
        for f, v in ast.iter_fields(e):
            if isinstance(v, ast.AST):
                if isinstance(v, (ast.expr_context, ast.operator, ast.cmpop, ast.boolop, ast.unaryop)):
                    continue
                setattr(n, f, self._res(v, st, bound))
            elif isinstance(v, list):
                setattr(n, f, [self._res(x, st, bound) if isinstance(x, ast.AST) else x for x in v])
        return n

    def _bind_pattern(self, target, it, loop, env_like, path):
        if isinstance(target, ast.Name):
            env_like[target.id] = LoopVar(target.id, loop, it, path)
        elif isinstance(target, (ast.Tuple, ast.List)):
            for i, t in enumerate(target.elts):
                self._bind_pattern(t, it, loop, env_like, path + (i,))
        elif isinstance(target, ast.Starred):
            self._bind_pattern(target.value, it, loop, env_like, path + ('*',))

    # ---------------------------------------------------------------- state updates
    def _kill_below(self, st: State, key, include_self=False):
        for k in list(st.env):
            if (include_self and k == key) or k.startswith(key + '.') or k.startswith(key + '['):
                del st.env[k]

    def _bump(self, st: State, key, below=False):
        st.vers[key] = st.vers.get(key, 0) + 1
        for p in path_prefixes(key):
            st.vers[p] = st.vers.get(p, 0) + 1
        if below:
            for k in list(st.vers):
                if k.startswith(key + '.') or k.startswith(key + '['):
                    st.vers[k] += 1

    def _assign(self, target, value, stmt, st: State, before: State):
        if isinstance(target, ast.Name):
            self._kill_below(st, target.id)
            for k in [k for k in st.vers if root_of(k) == target.id and k != target.id]:
                st.vers[k] += 1
            st.env[target.id] = Ref(target.id, value, stmt)
        elif isinstance(target, (ast.Tuple, ast.List)):
            vv = value
            hops = 0
            while isinstance(vv, Ref) and hops < 10:       # `t = (a, b); x, y = t`: unpack the literal the alias names
                vv = vv.value
                hops += 1
            elts = None
            if isinstance(vv, (ast.Tuple, ast.List)) and len(vv.elts) == len(target.elts) and \
                    not any(isinstance(t, ast.Starred) for t in target.elts):
                elts = vv.elts
            elif isinstance(vv, Phi) and not any(isinstance(t, ast.Starred) for t in target.elts):
                # a join of tuple displays (the result variable of an expanded helper with several returns):
                # unpack position by position
                opts = []
                for o in vv.options:
                    hops = 0
                    site = None
                    while isinstance(o, Ref) and hops < 10:
                        site = o.stmt              # where this alternative was chosen (its branch facts hold there)
                        o = o.value
                        hops += 1
                    opts.append((o, site))
                if opts and all(isinstance(o, (ast.Tuple, ast.List)) and len(o.elts) == len(target.elts) for o, _ in opts):
                    elts = []
                    for i in range(len(target.elts)):
                        if len({id(o.elts[i]) for o, _ in opts}) > 1:
                            elts.append(Phi([Ref(f"<alt{i}>", o.elts[i], site) if site is not None else o.elts[i]
                                             for o, site in opts]))
                        else:
                            elts.append(opts[0][0].elts[i])
            for i, t in enumerate(target.elts):
                if isinstance(t, ast.Starred):
                    self._assign(t.value, Elt(value, ('*', i)), stmt, st, before)
                else:
                    self._assign(t, elts[i] if elts is not None else Elt(value, i), stmt, st, before)
        elif isinstance(target, (ast.Attribute, ast.Subscript)):
            key = pathkey(target)
            rt = self._res_target(target, before)
            self.stores.append((stmt, target, key, value, before, rt))
            if key is not None:
                self._kill_below(st, key)
                if isinstance(target, ast.Subscript):
                    base = pathkey(target.value)
                    # other elements of the same container may alias this one
                    for k in list(st.env):
                        if k != key and k.startswith(base + '['):
                            del st.env[k]
                self._bump(st, key, below=True)
                st.env[key] = Ref(key, value, stmt)
        elif isinstance(target, ast.Starred):
            self._assign(target.value, Unknown('starred'), stmt, st, before)

    def _res_target(self, target, st):
        t = copy.copy(target)
        t.orig = target
        t.value = self._res(target.value, st, {})
        if isinstance(target, ast.Subscript):
            t.slice = self._res(target.slice, st, {})
        t.pkey = pathkey(target)
        return t

    def _scan_calls(self, resolved, raw, stmt, st: State, before: State):
        """Record calls in a resolved expression; apply invalidation for mutating calls."""
        if resolved is None:
            return
        for c in walk_no_sym(resolved):
            if isinstance(c, ast.Call):
                self.calls.append((c, stmt, before))
                if any(isinstance(a, FuncRef) for a in c.args) or \
                        any(isinstance(k.value, FuncRef) for k in c.keywords):
                    self.registrations.append((c, stmt, before))
        for c in ast.walk(raw):
            if isinstance(c, ast.Call) and isinstance(c.func, ast.Attribute) and c.func.attr == 'append' and \
                    isinstance(c.func.value, ast.Name) and len(c.args) == 1 and c.func.value.id in st.env:
                # a local list literal that is appended to: keep its (possible) elements visible
                cur = st.env[c.func.value.id]
                lit = cur.value if isinstance(cur, Ref) else None
                if isinstance(lit, ast.List) and len(lit.elts) < 8:
                    arg = self.resolve(c.args[0], before)
                    if not any(x is arg for x in lit.elts):
                        new = ast.List(elts=list(lit.elts) + [arg], ctx=ast.Load())
                        new.orig = getattr(lit, 'orig', lit)
                        st.env[c.func.value.id] = Ref(c.func.value.id, new, stmt)
                continue
            if isinstance(c, ast.Call) and isinstance(c.func, ast.Attribute):
                m = c.func.attr
                mut = m in MUTATOR_METHODS
                written = None
                if not mut and self.is_mutating_call is not None:
                    r = self.is_mutating_call(c, self)
                    mut = bool(r)
                    if isinstance(r, (set, frozenset)):
                        written = r         # the receiver attributes the callee (re)binds or writes
                if mut:
                    key = pathkey(c.func.value)
                    if key is not None:
                        if m in ('append', 'extend', 'add', 'update', 'setdefault'):
                            pass            # growing a container keeps the elements already bound
                        elif written is None:
                            self._kill_below(st, key)
                        else:
                            for attr in written:
                                if attr.endswith('*'):
                                    self._kill_below(st, f"{key}.{attr[:-1]}")
                                else:
                                    self._kill_below(st, f"{key}.{attr}", include_self=True)
                        self._bump(st, key, below=True)

    def _add_facts(self, st: State, test_raw, test_res, truth, out: list):
        """Decompose a branch condition into elementary must-facts."""
        t = test_res
        if isinstance(t, ast.UnaryOp) and isinstance(t.op, ast.Not):
            self._add_facts(st, test_raw.operand if isinstance(test_raw, ast.UnaryOp) else test_raw, t.operand,
                            not truth, out)
            return
        if isinstance(t, ast.BoolOp):
            conj = isinstance(t.op, ast.And)
            if conj == truth:       # (a and b) true  /  (a or b) false  -> every operand decided
                raws = test_raw.values if isinstance(test_raw, ast.BoolOp) else [test_raw] * len(t.values)
                for rv, v in zip(raws, t.values):
                    self._add_facts(st, rv, v, truth, out)
                return
        f = Fact(t, truth, test_raw)
        st.facts[id(f)] = f
        out.append(f)

    # ---------------------------------------------------------------- joins
    def _join_val(self, a, b):
        if a is b:
            return a
        if isinstance(a, Acc) and isinstance(b, Acc) and a.loop is b.loop and a.name == b.name:
            terms = list(a.terms)
            for t in b.terms:
                if not any(t[3] is x[3] for x in terms):
                    terms.append(t)
            if len(terms) == len(a.terms):
                return a
            if len(terms) == len(b.terms) and all(any(t[3] is x[3] for x in b.terms) for t in terms):
                return b
            return Acc(a.name, a.init, a.loop, terms)
        if isinstance(b, Acc) and b.init is a:
            return b
        if isinstance(a, Acc) and (a.init is b):
            return a
        opts = []
        for x in (a, b):
            for o in (x.options if isinstance(x, Phi) else [x]):
                if not any(o is y for y in opts):
                    opts.append(o)
        if len(opts) == 1:
            return opts[0]
        return Phi(opts)

    def join(self, a: State | None, b: State | None) -> State | None:
        if a is None:
            return b
        if b is None:
            return a
        env = {}
        for k in set(a.env) | set(b.env):
            if k in a.env and k in b.env:
                env[k] = self._join_val(a.env[k], b.env[k])
            else:
                v = a.env.get(k) if k in a.env else b.env.get(k)
                if '.' in k or '[' in k:
                    continue            # path known on one side only: fall back to the raw read
                env[k] = Phi([v, Unknown('unbound')])
        vers = {k: max(a.vers.get(k, 0), b.vers.get(k, 0)) for k in set(a.vers) | set(b.vers)}
        for k in vers:
            if a.vers.get(k, 0) != b.vers.get(k, 0):
                vers[k] += 1          # differing histories: a fresh version
        facts = {k: v for k, v in a.facts.items() if k in b.facts}
        return State(env, vers, facts, a.loops)

    # ---------------------------------------------------------------- statements
    def run_block(self, stmts, st: State | None) -> Out:
        kinds = set()
        for s in stmts:
            if st is None:
                break
            o = self.run_stmt(s, st)
            kinds |= o.kinds
            st = o.normal
        return Out(st, kinds)

    def run_stmt(self, s, st: State) -> Out:
        self.order.setdefault(id(s), len(self.order))
        self.pre[id(s)] = st
        before = st
        st = st.copy()
        m = getattr(self, 'st_' + type(s).__name__, None)
        if m is None:
            out = Out(st)
        else:
            out = m(s, st, before)
        if out.normal is not None:
            self.post[id(s)] = out.normal
        return out

    def st_Expr(self, s, st, before):
        v = self.resolve(s.value, before)
        self.resolved[id(s)] = v
        self._scan_calls(v, s.value, s, st, before)
        return Out(st)

    def st_Assign(self, s, st, before):
        v = self.resolve(s.value, before)
        self.resolved[id(s)] = v
        self._scan_calls(v, s.value, s, st, before)
        for t in s.targets:
            self._scan_target_calls(t, s, st, before)
            self._assign(t, v, s, st, before)
        return Out(st)

    def _scan_target_calls(self, t, s, st, before):
        for sub in ast.walk(t):
            if isinstance(sub, ast.Call):
                r = self.resolve(sub, before)
                self.calls.append((r, s, before))

    def st_AnnAssign(self, s, st, before):
        if s.value is None:
            return Out(st)
        v = self.resolve(s.value, before)
        self.resolved[id(s)] = v
        self._scan_calls(v, s.value, s, st, before)
        self._assign(s.target, v, s, st, before)
        return Out(st)

    def st_AugAssign(self, s, st, before):
        v = self.resolve(s.value, before)
        self._scan_calls(v, s.value, s, st, before)
        tgt_load = copy.copy(s.target)
        tgt_load.ctx = ast.Load()
        cur = self.resolve(tgt_load, before)
        key = pathkey(s.target)
        newv = None
        loop = st.loops[-1] if st.loops else None
        if loop is not None and isinstance(s.op, (ast.Add, ast.Sub)):
            loopnode, entry_env, entry_facts = loop
            guards = [f for k, f in before.facts.items() if k not in entry_facts]
            term = ('+' if isinstance(s.op, ast.Add) else '-', v, guards, s)
            if isinstance(cur, Acc) and cur.loop is loopnode:
                if any(t[3] is s for t in cur.terms):
                    newv = cur
                else:
                    newv = Acc(cur.name, cur.init, loopnode, cur.terms + [term])
            elif key is not None and (entry_env.get(key) is cur or (key not in entry_env and not isinstance(cur, Sym))
                                      or self._defined_before_loop(cur, entry_env, key)):
                newv = Acc(key, cur, loopnode, [term])
        if newv is None:
            newv = ast.BinOp(left=cur, op=s.op, right=v)
            newv.lineno = s.lineno
            newv.orig = s
        self.resolved[id(s)] = newv
        if isinstance(s.target, ast.Name):
            st.env[s.target.id] = newv if isinstance(newv, Acc) else Ref(s.target.id, newv, s)
        else:
            rt = self._res_target(s.target, before)
            self.stores.append((s, s.target, key, newv, before, rt))
            if key is not None:
                self._kill_below(st, key)
                self._bump(st, key, below=True)
                st.env[key] = newv if isinstance(newv, Acc) else Ref(key, newv, s)
        return Out(st)

    @staticmethod
    def _defined_before_loop(cur, entry_env, key):
        return key in entry_env and entry_env[key] is cur

    def st_Return(self, s, st, before):
        v = self.resolve(s.value, before) if s.value is not None else None
        self.resolved[id(s)] = v
        if s.value is not None:
            self._scan_calls(v, s.value, s, st, before)
        self.exits.append(Exit('return', s, st, value=v))
        return Out(None, {'return'})

    def st_Raise(self, s, st, before):
        if s.exc is not None:
            v = self.resolve(s.exc, before)
            self._scan_calls(v, s.exc, s, st, before)
        name = exc_name(s)
        self.exits.append(Exit('raise', s, st, exc=name))
        return Out(None, {'raise:' + name})

    def st_Assert(self, s, st, before):
        v = self.resolve(s.test, before)
        self.resolved[id(s)] = v
        return Out(st)

    def st_Pass(self, s, st, before):
        return Out(st)

    def st_Break(self, s, st, before):
        self._break_states[-1].append(st)
        return Out(None, {'break'})

    def st_Continue(self, s, st, before):
        self._continue_states[-1].append(st)
        return Out(None, {'continue'})

    def st_FunctionDef(self, s, st, before):
        st.env[s.name] = FuncRef(s)
        return Out(st)

    st_AsyncFunctionDef = st_FunctionDef

    def st_If(self, s, st, before):
        t = self.resolve(s.test, before)
        self.resolved[id(s)] = t
        self._scan_calls(t, s.test, s, st, before)
        st_t, st_f = st.copy(), st.copy()
        ft, ff = [], []
        self._add_facts(st_t, s.test, t, True, ft)
        self._add_facts(st_f, s.test, t, False, ff)
        o1 = self.run_block(s.body, st_t)
        o2 = self.run_block(s.orelse, st_f)
        self._tag(o1, ff)
        self._tag(o2, ft)
        return Out(self.join(o1.normal, o2.normal), o1.kinds | o2.kinds)

    @staticmethod
    def _tag(out: Out, facts):
        """If the block never completes normally and only raises, the facts of the other edge are gates."""
        if out.normal is None and out.kinds and all(k.startswith('raise:') for k in out.kinds):
            names = sorted(k[6:] for k in out.kinds)
            for f in facts:
                f.exc = '|'.join(names)

    def _loop(self, s, st, before, bind):
        entry = st
        self._break_states.append([])
        self._continue_states.append([])
        cur = entry.copy()
        back = None
        out = None
        for it in range(2):
            body_in = self.join(cur, back) if back is not None else cur
            body_in = body_in.copy()
            body_in.loops = entry.loops + ((s, entry.env, set(entry.facts)),)
            bind(body_in)
            self._continue_states[-1] = []
            if it == 0:
                marks = (len(self.stores), len(self.calls), len(self.registrations), len(self.exits))
            else:
                # the first pass only served to widen the loop-carried values: drop what it recorded
                del self._break_states[-1][:]
                del self.stores[marks[0]:]
                del self.calls[marks[1]:]
                del self.registrations[marks[2]:]
                del self.exits[marks[3]:]
            out = self.run_block(s.body, body_in)
            back = out.normal
            for c in self._continue_states[-1]:
                back = self.join(back, c)
            if back is not None:
                back = back.copy()
                back.loops = entry.loops
        breaks = self._break_states.pop()
        self._continue_states.pop()
        exit_state = self.join(entry if not isinstance(s, ast.While) or True else None, back)
        if exit_state is not None:
            exit_state = exit_state.copy()
            exit_state.loops = entry.loops
        kinds = set(out.kinds) - {'break', 'continue'}
        o2 = self.run_block(s.orelse, exit_state) if s.orelse else Out(exit_state)
        normal = o2.normal
        for b in breaks:
            b = b.copy()
            b.loops = entry.loops
            normal = self.join(normal, b)
        return Out(normal, kinds | o2.kinds)

    def st_For(self, s, st, before):
        it = self.resolve(s.iter, before)
        self.resolved[id(s)] = it
        self._scan_calls(it, s.iter, s, st, before)

        def bind(body_state):
            tmp = {}
            self._bind_pattern(s.target, it, s, tmp, ())
            for k, v in tmp.items():
                self._kill_below(body_state, k)
                body_state.env[k] = v
        return self._loop(s, st, before, bind)

    st_AsyncFor = st_For

    def st_While(self, s, st, before):
        t = self.resolve(s.test, before)
        self.resolved[id(s)] = t

        def bind(body_state):
            pass
        return self._loop(s, st, before, bind)

    def st_With(self, s, st, before):
        for item in s.items:
            v = self.resolve(item.context_expr, before)
            self._scan_calls(v, item.context_expr, s, st, before)
            if item.optional_vars is not None:
                self._assign(item.optional_vars, v, s, st, before)
        return self.run_block(s.body, st)

    st_AsyncWith = st_With

    def st_Try(self, s, st, before):
        n_exits = len(self.exits)
        body_states = [st]
        cur = st
        kinds = set()
        for x in s.body:
            if cur is None:
                break
            o = self.run_stmt(x, cur)
            kinds |= o.kinds
            cur = o.normal
            if cur is not None:
                body_states.append(cur)
        handler_in = None
        for b in body_states:
            handler_in = self.join(handler_in, b)
        # explicit raises inside the body that a handler catches
        caught_names = set()
        for h in s.handlers:
            if h.type is None:
                caught_names.add('*')
            else:
                for n in ([h.type] if not isinstance(h.type, ast.Tuple) else h.type.elts):
                    caught_names.add(unparse(n))
        if caught_names:
            kept = []
            for e in self.exits[n_exits:]:
                if e.kind == 'raise' and ('*' in caught_names or e.exc in caught_names or
                                          'Exception' in caught_names or 'BaseException' in caught_names):
                    handler_in = self.join(handler_in, e.state)
                    kinds.discard('raise:' + e.exc)
                else:
                    kept.append(e)
            self.exits[n_exits:] = kept
        normal = None
        if cur is not None:
            o = self.run_block(s.orelse, cur) if s.orelse else Out(cur)
            kinds |= o.kinds
            normal = o.normal
        for h in s.handlers:
            hs = handler_in.copy()
            if h.name:
                hs.env[h.name] = Unknown('exception')
            o = self.run_block(h.body, hs)
            kinds |= o.kinds
            normal = self.join(normal, o.normal)
        if s.finalbody:
            o = self.run_block(s.finalbody, normal if normal is not None else handler_in.copy())
            kinds |= o.kinds
            normal = o.normal if normal is not None else None
        return Out(normal, kinds)

    st_TryStar = st_Try

    def st_Match(self, s, st, before):
        v = self.resolve(s.subject, before)
        self.resolved[id(s)] = v
        normal = None
        kinds = set()
        exhaustive = False
        for c in s.cases:
            cs = st.copy()
            for n in ast.walk(c.pattern):
                for attr in ('name', 'rest'):
                    nm = getattr(n, attr, None)
                    if isinstance(nm, str):
                        cs.env[nm] = Unknown('match-capture')
            if isinstance(c.pattern, ast.MatchAs) and c.pattern.pattern is None and c.guard is None:
                exhaustive = True
            o = self.run_block(c.body, cs)
            kinds |= o.kinds
            normal = self.join(normal, o.normal)
        if not exhaustive:
            normal = self.join(normal, st)
        return Out(normal, kinds)

    def st_Delete(self, s, st, before):
        for t in s.targets:
            key = pathkey(t)
            if key is not None:
                self._kill_below(st, key, include_self=True)
                self._bump(st, key, below=True)
        return Out(st)

    def st_Global(self, s, st, before):
        return Out(st)

    st_Nonlocal = st_Global
    st_Import = st_Global
    st_ImportFrom = st_Global
    st_ClassDef = st_Global


# ------------------------------------------------------------------------------------------------ conditions
class Cmp:
    """Normalised elementary comparison: op in {'lt','le','eq','ne','in','notin','is','isnot','truth'}."""

    def __init__(self, op, left, right, exc, fact):
        self.op, self.left, self.right, self.exc, self.fact = op, left, right, exc, fact

    def __repr__(self):
        return f"{show(self.left)} {self.op} {show(self.right) if self.right is not None else ''}" + \
            (f" [else {self.exc}]" if self.exc else '')


_NEG = {'lt': 'ge', 'le': 'gt', 'gt': 'le', 'ge': 'lt', 'eq': 'ne', 'ne': 'eq', 'in': 'notin', 'notin': 'in',
        'is': 'isnot', 'isnot': 'is'}
_OPS = {ast.Lt: 'lt', ast.LtE: 'le', ast.Gt: 'gt', ast.GtE: 'ge', ast.Eq: 'eq', ast.NotEq: 'ne', ast.In: 'in',
        ast.NotIn: 'notin', ast.Is: 'is', ast.IsNot: 'isnot'}


def normalise_fact(f: Fact) -> list[Cmp]:
    """Elementary comparisons known to hold because of fact `f` ('gt'/'ge' are flipped to 'lt'/'le')."""
    out = []
    t = f.test
    truth = f.truth
    while isinstance(t, ast.UnaryOp) and isinstance(t.op, ast.Not):
        t = t.operand
        truth = not truth
    if isinstance(t, Ref) and isinstance(strip_refs(t), ast.Compare):
        t = strip_refs(t)
    if isinstance(t, ast.Compare):
        links = []
        left = t.left
        for op, right in zip(t.ops, t.comparators):
            links.append((_OPS.get(type(op)), left, right))
            left = right
        if truth:
            for op, a, b in links:
                out.append(_mk(op, a, b, f))
        elif len(links) == 1:
            op, a, b = links[0]
            out.append(_mk(_NEG.get(op), a, b, f))
        else:
            out.append(Cmp('not-chain', t, None, f.exc, f))
        return [c for c in out if c is not None]
    out.append(Cmp('truth' if truth else 'falsy', t, None, f.exc, f))
    return out


def _mk(op, a, b, f):
    if op is None:
        return None
    if op == 'gt':
        op, a, b = 'lt', b, a
    elif op == 'ge':
        op, a, b = 'le', b, a
    # a difference compared with zero is the comparison of its operands: `round(x - y, p) <= 0` is `x <= y` (within p)
    if op in ('lt', 'le', 'eq', 'ne'):
        def diff(e):
            # only a difference written in the test itself: a named difference (`required = target - present`) keeps its
            # identity, rules about the sign of that very variable read the fact as it stands
            if isinstance(e, ast.Call) and isinstance(e.func, ast.Name) and e.func.id == 'round' and e.args:
                e = e.args[0]
            return e if isinstance(e, ast.BinOp) and isinstance(e.op, ast.Sub) else None

        def zero(e):
            e = strip_refs(e)
            return isinstance(e, ast.Constant) and not isinstance(e.value, bool) and e.value == 0
        if zero(b) and diff(a) is not None:
            d = diff(a)
            a, b = d.left, d.right
        elif zero(a) and diff(b) is not None:
            d = diff(b)
            a, b = d.right, d.left
    return Cmp(op, a, b, f.exc, f)


def facts_at(state: State) -> list[Cmp]:
    out = []
    for f in state.facts.values():
        out.extend(normalise_fact(f))
    return out


def same_value(a, b) -> bool:
    """Do two resolved expressions denote the same value?  Identity for symbolic definitions, path+version for
    raw reads, structure for pure operators."""
    if a is b:
        return True
    if isinstance(a, Sym) or isinstance(b, Sym):
        if isinstance(a, Elt) and isinstance(b, Elt):
            return a.index == b.index and same_value(a.value, b.value)
        return False
    if type(a) is not type(b):
        return False
    if isinstance(a, ast.Constant):
        return a.value == b.value and type(a.value) is type(b.value)
    if isinstance(a, ast.Name):
        return a.id == b.id
    if isinstance(a, (ast.Attribute, ast.Subscript)):
        if getattr(a, 'pkey', None) is not None and a.pkey == getattr(b, 'pkey', None):
            return getattr(a, 'ver', 0) == getattr(b, 'ver', 0) and same_value(a.value, b.value) and \
                (not isinstance(a, ast.Subscript) or same_value(a.slice, b.slice))
        if isinstance(a, ast.Attribute):
            return a.attr == b.attr and same_value(a.value, b.value)
        return same_value(a.value, b.value) and same_value(a.slice, b.slice)
    if isinstance(a, ast.BinOp):
        return type(a.op) is type(b.op) and same_value(a.left, b.left) and same_value(a.right, b.right)
    if isinstance(a, ast.UnaryOp):
        return type(a.op) is type(b.op) and same_value(a.operand, b.operand)
    if isinstance(a, ast.Call):
        return len(a.args) == len(b.args) and same_value(a.func, b.func) and \
            all(same_value(x, y) for x, y in zip(a.args, b.args)) and \
            len(a.keywords) == len(b.keywords) and \
            all(x.arg == y.arg and same_value(x.value, y.value) for x, y in zip(a.keywords, b.keywords))
    if isinstance(a, (ast.Tuple, ast.List)):
        return len(a.elts) == len(b.elts) and all(same_value(x, y) for x, y in zip(a.elts, b.elts))
    if isinstance(a, ast.IfExp):
        return same_value(a.test, b.test) and same_value(a.body, b.body) and same_value(a.orelse, b.orelse)
    if isinstance(a, ast.JoinedStr):
        return len(a.values) == len(b.values) and all(same_value(x, y) for x, y in zip(a.values, b.values))
    if isinstance(a, ast.FormattedValue):
        return a.conversion == b.conversion and same_value(a.value, b.value)
    if isinstance(a, ast.Compare):
        return len(a.ops) == len(b.ops) and all(type(x) is type(y) for x, y in zip(a.ops, b.ops)) and \
            same_value(a.left, b.left) and all(same_value(x, y) for x, y in zip(a.comparators, b.comparators))
    return False


def definitions_of(v, drop_none=True, _seen=None):
    """The defining assignments a value may come from: alias chains (`a = b`) are followed and joins are flattened, so
    `r = t` with t = phi(x1, x2) yields the Refs of x1 and x2.  A Ref is a leaf when its value is an expression."""
    _seen = _seen if _seen is not None else set()
    if id(v) in _seen:
        return []
    _seen.add(id(v))
    if isinstance(v, Phi):
        out = []
        for o in v.options:
            out.extend(definitions_of(o, drop_none, _seen))
        return out
    if isinstance(v, Ref):
        if isinstance(v.value, (Ref, Phi)):
            return definitions_of(v.value, drop_none, _seen)
        if drop_none and isinstance(v.value, ast.Constant) and v.value.value is None:
            return []
        return [v]
    if drop_none and isinstance(v, ast.Constant) and v.value is None:
        return []
    return [v]


def unround(e):
    """Strip Ref identity and `round(x, p)` / `float(x)` / `abs`-free wrappers: the value being rounded."""
    changed = True
    rounded = False
    while changed:
        changed = False
        if isinstance(e, Ref) and not isinstance(e.value, (Acc, Phi)):
            inner = e.value
            if isinstance(inner, Ref):
                e = inner               # a plain alias (x = y)
                changed = True
                continue
            if isinstance(inner, ast.Call) and isinstance(inner.func, ast.Name) and inner.func.id == 'round' \
                    and inner.args:
                e = inner
                changed = True
        if isinstance(e, ast.Call) and isinstance(e.func, ast.Name) and e.func.id == 'round' and e.args:
            e = e.args[0]
            rounded = True
            changed = True
    return e, rounded


def is_rounded(e) -> bool:
    """Is the value produced by `round(..)` (directly, or a Ref / path whose last definition is)?"""
    while True:
        if isinstance(e, Ref):
            e = e.value
            continue
        if isinstance(e, ast.Call) and isinstance(e.func, ast.Name) and e.func.id == 'round':
            return True
        if isinstance(e, ast.Call) and isinstance(e.func, ast.Attribute) and e.func.attr in (
                'convert_to_storage', 'convert_from_storage'):
            return True     # both end in round(.., internal_precision) (checked by C18/C06 rules)
        if isinstance(e, Phi):
            return all(is_rounded(o) for o in e.options)
        return False

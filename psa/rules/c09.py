"""C09 - get_substance_used reports the net gain of the destinations over the timeframe.
Signed dependence (D) + stage-slice dataflow + record typestate (F) + units (U)."""
from __future__ import annotations

import ast

from ..dep import signed_leaves, data_sources
from ..flow import (Ref, Param, LoopVar, Elt, Phi, Acc, Sym, strip_refs, show, pathkey, same_value, deep_walk, walk_no_sym,
                    facts_at, normalise_fact, definitions_of)
from ..model import AnalysisError, unparse, walk_no_nested
from .common import (root_of_expr, path_from_param, const_value, floor, call_name, is_call_to, gate_with, dominates)
from .c03 import zero
from . import targets
from .. import uscan

ATOMS = ('step.to[0]', 'step.to[1]', 'step.frm[0]', 'step.frm[1]', 'step.trash')


def atoms_of(e):
    out = set()
    for n in deep_walk(e):
        k = getattr(n, 'pkey', None)
        if k in ATOMS:
            out.add(k)
        if isinstance(n, Ref) and n.name in ATOMS:
            out.add(n.name)
    return out


def signature(value, sign=1):
    """{atom: set of signs} of a resolved numeric expression."""
    sig = {}
    for s, leaf in signed_leaves(value, sign):
        if s is None:
            continue
        for a in atoms_of(leaf):
            sig.setdefault(a, set()).add({1: '+', -1: '-', 0: '±'}[s])
    return sig


def fmt(sig):
    return '{' + ', '.join(f"{k.replace('step.', '')}: {''.join(sorted(v))}" for k, v in sorted(sig.items())) + '}'


def run(ctx):
    from .configtime import derived_values as _derived
    _derived(ctx, 'C09.R3', ('Recipe', 'RecipeStep', 'Plate', 'Container', 'Slicer', 'PlateSlicer'))
    from .configtime import decisions_not_taken_on_display_values as _coarse
    _coarse(ctx, 'C09.R3', ('Container', 'Plate', 'PlateSlicer', 'Recipe', 'RecipeStep'))
    from .c08 import steps_only_appended as _append_only
    _append_only(ctx, 'C09.R3')
    from .configtime import refusals_not_rounded_for_display as _gate_digits
    _gate_digits(ctx, 'C09.R4', ('Recipe.get_substance_used',))
    from .configtime import no_shared_mutable_defaults as _mutdef
    _mutdef(ctx, 'C09.R3', classes=('Recipe', 'RecipeStep'))
    from .configtime import precision_zero_is_a_value as _prec0
    _prec0(ctx, 'C09.R4', classes=('Recipe',))
    from .atomic import validate_before_mutate as _atomic
    _atomic(ctx, 'C09.R2', ('Recipe.start_stage', 'Recipe.end_stage'))
    from .iterables import single_pass_iterables as _single_pass
    _single_pass(ctx, 'C09.R4', ('Recipe.get_substance_used',))
    # per-well amounts gathered with numpy.vectorize need an explicit result type: without it the type of the first
    # well decides, and an empty first well (int 0) truncates every later amount to whole storage units
    from .c15 import t5 as _vectorize_dtype
    _vectorize_dtype(ctx, 'C09.R4', only=('Recipe.get_substance_used', 'Recipe.bake'), dtype_only=True)
    # contents are keyed by Substance objects: the key laws this property's bookkeeping relies on
    from .identity import identity_discipline as _identity
    _identity(ctx, 'C09.R1', classes=('Substance',), memoised=False)
    model = ctx.model
    from . import unitspec as _us
    _us.api_verified(ctx, 'C09.R4')
    fi = model.func('Recipe.get_substance_used')
    ff = ctx.flow(fi.qualname)
    # ---------------------------------------------------------------- R1 polarity signature
    rets = [e for e in ff.normal_exits() if e.kind == 'return']
    if not rets:
        raise AnalysisError('get_substance_used has no return')
    want = {'step.to[1]': {'+'}, 'step.to[0]': {'-'}, 'step.frm[1]': {'+'}, 'step.frm[0]': {'-'}, 'step.trash': {'+'}}
    for ex in rets:
        accs = [n for n in deep_walk(ex.value) if isinstance(n, Acc)]
        accs = [a for a in accs if atoms_of(a)]
        if not accs:
            ctx.ob('C09.R1', fi, ex.line, 'the answer accumulates over the steps of the timeframe', False,
                   fact=show(ex.value, 80), why='the returned amount is not a sum over steps', key='no accumulation')
            continue
        acc = accs[0]
        sig = signature(acc)
        ctx.ob('C09.R1', fi, ex.line, 'net gain = (after - before) over destination and source side + discarded',
               sig == want, fact=f"derived dependence {fmt(sig)}",
               why=f"the polarity of the accumulated amount differs from the specification {fmt(want)}",
               key='polarity of delta')
        # accumulated over exactly the steps of the timeframe, nothing carried between steps
        loop = acc.loop
        it = ff.resolved.get(id(loop)) if isinstance(loop, ast.For) else None
        its = strip_refs(it)
        ok_dom = isinstance(its, ast.Subscript) and path_from_param(its.value) == ('self', ['steps']) and \
            _is_stage_slice(its.slice)
        ctx.ob('C09.R2', fi, getattr(loop, 'lineno', ex.line), 'the sum ranges over self.steps[self.stages[timeframe]]',
               ok_dom, fact=f"for step in {show(it, 60)}", why='the steps summed are not exactly those of the timeframe',
               key='stage domain get_substance_used')
        init_ok = zero(acc.init)
        only_plus = all(t[0] == '+' for t in acc.terms)
        ctx.ob('C09.R1', fi, getattr(loop, 'lineno', ex.line), 'the accumulator starts at zero and only adds per-step gains',
               init_ok and only_plus, fact=f"init {show(acc.init, 20)}, {len(acc.terms)} term(s)",
               why='state is carried into or between stages: amounts over consecutive stages do not add up',
               key='accumulator shape')
    # each side is counted only if that record's name is a destination
    for stmt in walk_no_nested(fi.node):
        if not isinstance(stmt, ast.AugAssign) or id(stmt) not in ff.pre:
            continue
        v = ff.resolve(stmt.value, ff.state_before(stmt))
        at = {getattr(n, 'pkey', None) for n in walk_no_sym(v)} & set(ATOMS)
        for n in walk_no_sym(v):        # generator variables ranging over a record's wells
            if isinstance(n, (ast.GeneratorExp, ast.ListComp)):
                at |= {getattr(x, 'pkey', None) for g in n.generators for x in walk_no_sym(g.iter)} & set(ATOMS)
        sides = {a.split('[')[0] for a in at if '[' in a}
        for side in sorted(sides):
            def is_dest(c, side=side):
                return c.op == 'in' and any(getattr(n, 'pkey', None) == f"{side}[0].name" or
                                            (isinstance(n, ast.Attribute) and n.attr == 'name' and
                                             (getattr(n.value, 'pkey', None) == f"{side}[0]" or
                                              getattr(strip_refs(n.value), 'pkey', None) == f"{side}[0]"))
                                            for n in deep_walk(c.left))
            g = gate_with(ff.state_before(stmt), is_dest)
            ctx.ob('C09.R1', fi, stmt.lineno, f"`{side.replace('step.', '')}` side is counted only when that object is a destination",
                   bool(g), fact=str(g[0]) if g else 'no membership test on the name of that record',
                   why='amounts of objects outside the destination set are counted', key=f"destination test {side}")
    # what 'remove' steps discarded is counted whatever the destinations are: the term that reads step.trash must not sit
    # under a condition that depends on the destination set
    dparam = 'destinations'
    if dparam not in fi.param_names():
        raise AnalysisError('get_substance_used: parameter `destinations` not found')
    for stmt in walk_no_nested(fi.node):
        if not isinstance(stmt, ast.AugAssign) or id(stmt) not in ff.pre:
            continue
        st_ = ff.state_before(stmt)
        v = ff.resolve(stmt.value, st_)
        if 'step.trash' not in atoms_of(v):
            continue
        entry = st_.loops[-1][2] if st_.loops else {}
        guards = [f for k, f in st_.facts.items() if k not in entry]
        # the destination set: the parameter, and every variable a record's name is tested against
        dest_vars = set()
        for st2 in ff.pre.values():
            for c in facts_at(st2):
                if c.op in ('in', 'notin') and c.right is not None and any(
                        isinstance(n, ast.Attribute) and n.attr == 'name' and (getattr(n.value, 'pkey', None) or '').startswith('step.')
                        for n in deep_walk(c.left)):
                    dest_vars |= {n.name for n in deep_walk(c.right, follow_refs=False) if isinstance(n, Ref)}
        bad = [f for f in guards if any((isinstance(n, Param) and n.name == dparam) or
                                        (isinstance(n, Ref) and n.name in dest_vars) for n in deep_walk(f.test))]
        ctx.ob('C09.R1', fi, stmt.lineno, 'the discarded amount is counted independently of the destination set', not bad,
               fact=f"{len(guards)} condition(s) on the path, {len(bad)} of them depend on `{dparam}`" +
                    (f": {show(bad[0].test, 60)}" if bad else ''),
               why='what a remove step discarded is dropped when the removed-from object is not among the destinations',
               key='trash term under a destination condition')
    # ---------------------------------------------------------------- R2 stage slices
    stage_rules(ctx)
    # ---------------------------------------------------------------- R3 record protocol
    record_protocol(ctx, 'C09.R3')
    # ---------------------------------------------------------------- R4 unit and refusal
    sc = targets.scan(ctx, 'Recipe.get_substance_used')
    uscan.report_sinks(ctx, lambda cat: 'C09.R4' if cat in ('qstr', 'truncating-division', 'convert-from-unit', 'storage-label', 'add-units',
                                                            'sum-mix', 'compare-units', 'storage-compare') else None, sc)
    for ex in rets:
        def nonneg(c):
            return c.op in ('le',) and zero(c.left) and isinstance(strip_refs(c.right), Acc) or \
                (c.op == 'le' and zero(c.left) and isinstance(c.right, Acc))
        g = gate_with(ex.state, nonneg, 'ValueError')
        ctx.ob('C09.R4', fi, ex.line, 'a net decrease raises ValueError', bool(g), fact=str(g[0]) if g else 'no gate',
               why='a negative amount is reported as used', key='negative delta gate')

        def valid_tf(c):
            return c.op == 'in' and isinstance(strip_refs(c.left), Param) and \
                any(path_from_param(n) == ('self', ['stages']) for n in deep_walk(c.right))
        g = gate_with(ex.state, valid_tf, 'ValueError')
        ctx.ob('C09.R4', fi, ex.line, 'an unknown timeframe raises ValueError', bool(g), fact=str(g[0]) if g else 'no gate',
               why='an unknown stage name is not refused', key='timeframe gate')
    # ---------------------------------------------------------------- R5 substances_used coverage
    substances_used(ctx)
    # the discarded amount that enters the net gain is what the addressed wells lost (C17.R4)
    from .c17 import trash
    trash(ctx, 'C09.R3')
    per_instance_state(ctx, 'C09.R3')
    record_completeness(ctx, 'C09.R3')
    return {'explanation': 'R1: signed data dependence of the accumulated amount on the step records must be exactly '
                           '{to[1]: +, to[0]: -, frm[1]: +, frm[0]: -, trash: +}, each side under the membership test of '
                           'that record\'s name in the destination set, accumulated from zero over the steps of the '
                           'timeframe only (additivity over consecutive stages). R2: stage bounds are pure snapshots of '
                           'len(steps) combined as a half-open slice; all tracking functions index self.steps with '
                           'self.stages[timeframe]. R3 (record typestate): in every operator branch of bake, to[0] is '
                           'bound to the current object before the operation and exactly one post-state is appended to '
                           'to and frm after the results were stored. R4: the answer is converted from the storage unit '
                           'of the substance\'s kind; a net decrease and an unknown timeframe raise ValueError. R5: the '
                           'substances recorded for a step cover what the operation can change. Not decided: equality '
                           'with an independent ledger for all programs.'}


def _is_stage_slice(sl):
    s = strip_refs(sl)
    return isinstance(s, ast.Subscript) and path_from_param(s.value) == ('self', ['stages']) and \
        isinstance(strip_refs(s.slice), Param)


def stage_rules(ctx):
    model = ctx.model
    for q in ('Recipe.get_container_flows', 'Recipe.get_amount_remaining'):
        fi = model.func(q)
        ff = ctx.flow(q)
        subs, seen = [], set()
        for stmt in walk_no_nested(fi.node):
            # every read self.steps[..]: bound to a variable first, or iterated directly
            if isinstance(stmt, (ast.Assign, ast.For)) and id(stmt) in ff.pre and ff.resolved.get(id(stmt)) is not None:
                for v in deep_walk(ff.resolved.get(id(stmt))):
                    if isinstance(v, ast.Subscript) and path_from_param(v.value) == ('self', ['steps']) and \
                            id(getattr(v, 'orig', v)) not in seen:
                        seen.add(id(getattr(v, 'orig', v)))
                        subs.append((stmt, v))
        ok = bool(subs) and all(_is_stage_slice(v.slice) for s, v in subs)
        ctx.ob('C09.R2', fi, (subs[0][0].lineno if subs else fi.node.lineno),
               f"{fi.name} takes its steps from self.steps[self.stages[timeframe]]", ok,
               fact=show(subs[0][1], 60) if subs else 'no subscript of self.steps',
               why='the tracking functions disagree on which steps belong to a stage', key=f"stage domain {fi.name}")
    # visualize uses start / stop of the same slice
    fi = model.func('Recipe.visualize')
    ff = ctx.flow(fi.qualname)
    starts = [s for s in walk_no_nested(fi.node) if isinstance(s, ast.Assign) and isinstance(s.value, ast.Attribute)
              and s.value.attr in ('start', 'stop')]
    ok = len(starts) >= 2 and all(_is_stage_slice(ff.resolve(s.value.value, ff.state_before(s))) for s in starts if id(s) in ff.pre)
    ctx.ob('C09.R2', fi, (starts[0].lineno if starts else fi.node.lineno),
           'visualize uses start/stop of self.stages[timeframe]', ok, fact=f"{len(starts)} reads of .start/.stop",
           why='visualize shows other steps than the tracking functions count', key='stage domain visualize', nontrivial=False)
    # 'all' is the whole list
    init = model.func('Recipe.__init__')
    fi_ = ctx.flow('Recipe.__init__')
    st = [s for s in fi_.stores if s[2] == 'self.stages']
    ok = False
    if st:
        v = strip_refs(st[0][3])
        if isinstance(v, ast.Dict):
            for k, val in zip(v.keys, v.values):
                if const_value(k) == 'all':
                    val = strip_refs(val)
                    ok = isinstance(val, ast.Call) and getattr(val.func, 'id', '') == 'slice' and \
                        all(const_value(a) is None and isinstance(strip_refs(a), ast.Constant) for a in val.args)
    ctx.ob('C09.R2', init, init.node.lineno, "the stage 'all' is slice(None, None)", ok, nontrivial=False,
           why="the default timeframe does not cover all steps", key="stage 'all'")
    # start / end bounds are pure snapshots (shared with C16.R5)
    from .c16 import _stage_rules
    before = len(ctx.obs)
    _stage_rules(ctx, model.cls('Recipe'), ctx.flow('Recipe.bake'))
    keep = []
    for o in ctx.obs[before:]:
        if o.key in ('stage start bound', 'stage slice', 'bake closes stage'):
            o.rule = 'C09.R2'
            keep.append(o)
    ctx.obs[before:] = keep


# ------------------------------------------------------------------------------------------------ bake branches
def bake_branches(ctx):
    """{operator literal: (branch body statements, If node)} of the operator dispatch in Recipe.bake."""
    model = ctx.model
    bake = model.func('Recipe.bake')
    out = {}
    for n in walk_no_nested(bake.node):
        if isinstance(n, ast.If) and isinstance(n.test, ast.Compare) and len(n.test.ops) == 1 and \
                isinstance(n.test.ops[0], ast.Eq):
            sides = [n.test.left, n.test.comparators[0]]
            lit = [s.value for s in sides if isinstance(s, ast.Constant) and isinstance(s.value, str)]
            other = [s for s in sides if not isinstance(s, ast.Constant)]
            if lit and other and 'operator' in unparse(other[0]):
                out[lit[0]] = (n.body, n)
    if len(out) < 7:
        raise AnalysisError(f"Recipe.bake: operator dispatch not recognised ({sorted(out)})")
    return out


def count_paths(stmts, pred):
    """(min, max) number of statements satisfying pred along a path through stmts that completes the step: paths that
    fall off the end and paths that leave early with continue / break / return; paths that raise refuse the step and
    are not counted (loops: body counted once or not at all)."""
    fall, done = _path_counts(stmts, pred)
    allc = fall | done
    if not allc:
        return 0, 0
    return min(allc), max(allc)


def _path_counts(stmts, pred):
    fall, done = {0}, set()
    for s in stmts:
        if not fall:
            break
        if isinstance(s, ast.If):
            k = sum(1 for n in ast.walk(s.test) if pred(n))
            bf, bd = _path_counts(s.body, pred)
            if not s.orelse and _is_type_dispatch(s):
                of, od = set(), set()   # a chain of isinstance tests over the possible operand types is exhaustive
            else:
                of, od = _path_counts(s.orelse, pred)
            nf, nd = bf | of, bd | od
        elif isinstance(s, (ast.For, ast.While)):
            head = s.iter if isinstance(s, ast.For) else s.test
            k = sum(1 for n in ast.walk(head) if pred(n))
            bf, bd = _path_counts(s.body, pred)
            nf, nd = {0} | bf | bd, set()      # continue / break / return inside an inner loop: counted as leaving it
        elif isinstance(s, (ast.With, ast.Try)):
            k = 0
            nf, nd = _path_counts(s.body, pred)
        elif isinstance(s, (ast.FunctionDef, ast.ClassDef)):
            continue
        elif isinstance(s, ast.Raise):
            fall = set()
            break
        elif isinstance(s, (ast.Continue, ast.Break, ast.Return)):
            k = sum(1 for n in ast.walk(s) if pred(n))
            done |= {c + k for c in fall}
            fall = set()
            break
        else:
            k = sum(1 for n in ast.walk(s) if pred(n))
            nf, nd = {0}, set()
        done |= {c + k + d for c in fall for d in nd}
        fall = {c + k + f for c in fall for f in nf}
    return fall, done


def _is_type_dispatch(s):
    t = s.test
    return isinstance(t, ast.Call) and isinstance(t.func, ast.Name) and t.func.id == 'isinstance'


def record_completeness(ctx, rule):
    """Every object a step changes is part of its record: whatever a branch of bake stores back into self.results[K]
    must also be appended (as the post-state) to step.to or step.frm - otherwise the tracking queries never see that the
    object changed (flows 0, no amount remaining)."""
    from .c08 import _same_name
    model = ctx.model
    bake = model.func('Recipe.bake')
    ff = ctx.flow('Recipe.bake')
    branches = bake_branches(ctx)
    n = 0
    for op, (body, node) in sorted(branches.items()):
        stores = [s_ for s_ in ff.stores if s_[2] and s_[2].startswith('self.results[') and _inside(s_[0], node)]
        recorded = []       # (path key text, resolved key expression) of every appended self.results[..]
        for c, s_, b in ff.calls:
            raw = c.orig if hasattr(c, 'orig') else c
            if not ((_is_append_to(raw, 'to') or _is_append_to(raw, 'frm')) and _inside(s_, node)) or not c.args:
                continue
            for x in deep_walk(c.args[0], follow_refs=False):
                if isinstance(x, Ref) and x.name.startswith('self.results['):
                    tgt = getattr(x.stmt, 'targets', None)
                    recorded.append((x.name, None))
                k = getattr(x, 'pkey', None)
                if k and k.startswith('self.results[') and isinstance(x, ast.Subscript):
                    recorded.append((k, x.slice))
                # a local name holding the very object that was stored back (`self.results[name] = new; step.to.append(new)`)
                if isinstance(x, Ref) and not x.name.startswith('self.results['):
                    for st_ in stores:
                        v_ = st_[3]
                        if v_ is x or (isinstance(v_, Ref) and v_.defid == x.defid):
                            recorded.append((st_[2], None))
        seen = set()
        for stmt, target, key, value, before, rt in stores:
            if key in seen:
                continue
            seen.add(key)
            n += 1
            ok = any(key == k2 or (sl is not None and (same_value(strip_refs(rt.slice), strip_refs(sl)) or _same_name(rt.slice, sl)))
                     for k2, sl in recorded)
            # ... and is listed in step.objects_used, the set the queries look at first: names of the operands held in
            # step.to / step.frm when the step starts are added by the loop at the top of bake, any other changed object
            # (a solvent container named among the operands) needs its own `objects_used.add(..)`
            from_record = any((getattr(x, 'pkey', '') or '').startswith(('step.to[0]', 'step.frm[0]'))
                              for x in deep_walk(rt.slice))
            adds = [c_ for c_, s2, b2 in ff.calls if isinstance(c_.func, ast.Attribute) and c_.func.attr == 'add' and
                    'objects_used' in unparse(c_.func.value) and _inside(s2, node) and c_.args]
            def raw_text(e):
                e = getattr(e, 'orig', e)
                try:
                    return ast.unparse(e)
                except Exception:
                    return None
            raw_keys = {ast.unparse(t.slice) for t in (getattr(stmt, 'targets', None) or [])
                        for t in (t.elts if isinstance(t, ast.Tuple) else [t])
                        if isinstance(t, ast.Subscript) and ast.unparse(t.value) == 'self.results'}
            listed = from_record or any(same_value(strip_refs(a_.args[0]), strip_refs(rt.slice)) or _same_name(a_.args[0], rt.slice)
                                        or raw_text(getattr(a_, 'orig', a_).args[0]) in raw_keys
                                        for a_ in adds)
            ctx.ob(rule, bake, stmt.lineno, f"`{op}` branch: the object stored back under `{show(rt.slice, 25)}` is listed in step.objects_used",
                   listed, fact=('an operand held in the step record from the start' if from_record else
                                 f"{len(adds)} explicit objects_used.add(..) in this branch"),
                   why='the queries skip a step that does not list the object: its flows are 0 and it has no amount remaining '
                       'for that timeframe', key=f"changed object not in objects_used in {op}")
            ctx.ob(rule, bake, stmt.lineno, f"`{op}` branch: the object stored back under `{show(rt.slice, 25)}` is recorded in the step",
                   ok, fact=f"post-states appended: {sorted({k2 for k2, sl in recorded})}",
                   why='the step changes a declared object without recording it: its flows are reported as 0 and it has no '
                       'amount remaining for that timeframe', key=f"unrecorded changed object in {op}")
    return n


def _is_append_to(n, attr):
    return isinstance(n, ast.Call) and isinstance(n.func, ast.Attribute) and n.func.attr == 'append' and \
        isinstance(n.func.value, ast.Attribute) and n.func.value.attr == attr and \
        isinstance(n.func.value.value, ast.Name)


OPS = ('transfer', 'create_solution', 'create_solution_from', 'remove', 'dilute', 'fill_to')


def _is_operation(n):
    if not isinstance(n, ast.Call):
        return False
    f = n.func
    if isinstance(f, ast.Name) and f.id == 'Container':
        return True
    return isinstance(f, ast.Attribute) and f.attr in OPS and not (isinstance(f.value, ast.Name) and f.value.id == 'self')


def record_protocol(ctx, rule, once_rule=None):
    """Typestate of the step record in every operator branch of bake."""
    model = ctx.model
    bake = model.func('Recipe.bake')
    ff = ctx.flow('Recipe.bake')
    branches = bake_branches(ctx)
    for op, (body, node) in sorted(branches.items()):
        to_c = count_paths(body, lambda n: _is_append_to(n, 'to'))
        frm_c = count_paths(body, lambda n: _is_append_to(n, 'frm'))
        ops_c = count_paths(body, _is_operation)
        ctx.ob(rule, bake, node.lineno, f"`{op}` branch: exactly one post-state is appended to step.to and to step.frm",
               to_c == (1, 1) and frm_c == (1, 1), fact=f"appends to step.to per path: {to_c}, to step.frm: {frm_c}",
               why='index 1 of the record is not the state after the step (a second state is recorded, or none)',
               key=f"record appends {op}")
        if once_rule is not None:
            ctx.ob(once_rule, bake, node.lineno, f"`{op}` branch: the state-changing operation is applied exactly once per step",
                   ops_c == (1, 1), fact=f"operation calls per path: {ops_c}",
                   why='the step is applied twice (or not at all) to the current objects', key=f"applications {op}")
        # to[0] is bound to the current object before the operation; the post-state follows the write-back
        pre_stores = [s for s in ff.stores if s[2] == 'step.to[0]' and _inside(s[0], node)]
        op_calls = [(c, s, b) for c, s, b in ff.calls if _is_operation(c.orig if hasattr(c, 'orig') else c) and _inside(s, node)]
        first_op = min((ff.seq(s) for c, s, b in op_calls), default=None)       # execution order, not line order
        ok_pre = bool(pre_stores) and first_op is not None and all(
            ff.seq(s[0]) < first_op and _reads_results(s[3], ff) for s in pre_stores)
        ctx.ob(rule, bake, (pre_stores[0][0].lineno if pre_stores else node.lineno),
               f"`{op}` branch: step.to[0] is bound to the current object before the operation", ok_pre,
               fact=f"{len(pre_stores)} binding(s) of step.to[0]" + (f" = {show(pre_stores[0][3], 40)}" if pre_stores else ''),
               why='the recorded pre-state is the declaration-time object, not the state before this step',
               key=f"pre-state binding {op}")
        appends = [(c, s, b) for c, s, b in ff.calls if _is_append_to(c.orig if hasattr(c, 'orig') else c, 'to') and _inside(s, node)]
        ok_post = bool(appends)
        fact = ''
        for c, s, b in appends:
            a = c.args[0] if c.args else None
            is_result = _is_results_ref(a, ff, s)
            after_ops = first_op is not None and ff.seq(s) > first_op
            fact = f"appends {show(a, 40)}"
            if not (is_result and after_ops):
                ok_post = False
        ctx.ob(rule, bake, (appends[0][1].lineno if appends else node.lineno),
               f"`{op}` branch: the post-state appended is the object just stored in self.results", ok_post, fact=fact,
               why='the recorded post-state is not the result of the step', key=f"post-state value {op}")


def _inside(stmt, node):
    """Is stmt inside the *body* of the If node (not in its elif/else chain)?"""
    n = stmt
    while n is not None:
        p = getattr(n, 'parent', None)
        if p is node:
            return any(n is x for x in node.body)
        n = p
    return False


def per_instance_state(ctx, rule):
    """State that is changed in place through instances must be created per instance: a mutable display assigned in the
    class body is one object shared by all instances (every step would share one record)."""
    from ..flow import MUTATOR_METHODS
    model = ctx.model
    n = 0
    for ci in model.classes.values():
        if ci.mod.rel not in ('pyplate/pyplate.py', 'pyplate/slicer.py'):
            continue
        shared = {}
        for st in ci.node.body:
            tgt = st.targets[0] if isinstance(st, ast.Assign) and len(st.targets) == 1 else st.target if isinstance(st, ast.AnnAssign) else None
            val = getattr(st, 'value', None)
            if not isinstance(tgt, ast.Name) or val is None:
                continue
            mutable = isinstance(val, (ast.List, ast.Dict, ast.Set, ast.ListComp, ast.DictComp, ast.SetComp)) or \
                (isinstance(val, ast.Call) and isinstance(val.func, ast.Name) and val.func.id in ('set', 'list', 'dict', 'defaultdict', 'OrderedDict', 'deque'))
            if mutable:
                shared[tgt.id] = st
        init_attrs = set()
        init = ci.methods.get('__init__')
        if init is not None:
            for x in ast.walk(init.node):
                if isinstance(x, ast.Attribute) and isinstance(x.ctx, ast.Store) and isinstance(x.value, ast.Name):
                    init_attrs.add(x.attr)
        for name, st in shared.items():
            if name in init_attrs:
                continue            # re-bound per instance in __init__
            sites = []
            for mod in model.core_modules():
                for x in ast.walk(mod.tree):
                    if isinstance(x, ast.Call) and isinstance(x.func, ast.Attribute) and x.func.attr in MUTATOR_METHODS and \
                            isinstance(x.func.value, ast.Attribute) and x.func.value.attr == name:
                        sites.append(x)
                    if isinstance(x, ast.Subscript) and isinstance(x.ctx, (ast.Store, ast.Del)) and \
                            isinstance(x.value, ast.Attribute) and x.value.attr == name:
                        sites.append(x)
            n += 1
            fi = init or next(iter(ci.methods.values()))
            ctx.ob(rule, fi, st.lineno, f"{ci.name}.{name}: state mutated in place is created per instance", not sites,
                   fact=f"class-level mutable default; {len(sites)} in-place mutation site(s) through instances",
                   why='all instances share one object: what one step records shows up in every step',
                   key=f"shared mutable class attribute {ci.name}.{name}")
    fi0 = model.func('RecipeStep.__init__')
    ctx.ob(rule, fi0, fi0.node.lineno, 'every step keeps its own record (no mutable state shared through the class)', True,
           fact=f"{n} class-level mutable defaults examined", nontrivial=False, key='per-instance record')


def _is_results_ref(a, ff=None, at=None):
    """A value that was stored into self.results[..] earlier in this branch (on every path): read back from there, or the
    local name the very object was stored from (`self.results[name] = new; step.to.append(new)`)."""
    if isinstance(a, Ref):
        if a.name.startswith('self.results['):
            return True
        if ff is not None and at is not None:
            for st in ff.stores:
                if st[2] and st[2].startswith('self.results[') and ff.seq(st[0]) < ff.seq(at):
                    v = st[3]
                    if v is a or (isinstance(v, Ref) and v.defid == a.defid) or same_value(v, a):
                        return True
        return False
    if isinstance(a, Phi):
        return all(_is_results_ref(o, ff, at) for o in a.options)
    return False


def _reads_results(v, ff=None):
    v = strip_refs(v)
    if isinstance(v, ast.Subscript) and path_from_param(v.value) == ('self', ['results']):
        return True
    # `X.plate if isinstance(X, PlateSlicer) else X` where X is the current object of the name: the entry of
    # self.results, or a copy of the slice whose .plate was pointed at that entry (a resolver helper, inlined)
    if ff is not None and isinstance(v, ast.IfExp) and isinstance(v.body, ast.Attribute) and v.body.attr == 'plate' and \
            isinstance(v.test, ast.Call) and getattr(v.test.func, 'id', '') == 'isinstance':
        x = strip_refs(v.orelse)
        if strip_refs(v.body.value) is not x:
            return False
        options = [strip_refs(o) for o in x.options] if isinstance(x, Phi) else [x]
        for o in options:
            if isinstance(o, ast.Subscript) and path_from_param(o.value) == ('self', ['results']):
                continue
            repointed = [st for st in ff.stores if isinstance(st[1], ast.Attribute) and st[1].attr == 'plate'
                         and strip_refs(ff.resolve(st[1].value, ff.state_before(st[0]))) is o and _reads_results(st[3])]
            if isinstance(o, ast.Call) and getattr(o.func, 'id', '') == 'deepcopy' and repointed:
                continue
            return False
        return bool(options)
    return False


def substances_used(ctx):
    model = ctx.model
    bake = model.func('Recipe.bake')
    ff = ctx.flow('Recipe.bake')
    branches = bake_branches(ctx)
    for op, (body, node) in sorted(branches.items()):
        stores = [s for s in ff.stores if s[2] == 'step.substances_used' and _inside(s[0], node)]
        adds = [(c, s, b) for c, s, b in ff.calls if isinstance(c.func, ast.Attribute) and c.func.attr == 'add' and
                getattr(c.func.value, 'pkey', None) == 'step.substances_used' and _inside(s, node)]
        op_calls = [(c, s, b) for c, s, b in ff.calls if _is_operation(c.orig if hasattr(c, 'orig') else c) and _inside(s, node)]
        first_op = min((ff.seq(s) for c, s, b in op_calls), default=0)
        ok, fact = False, f"{len(stores)} store(s), {len(adds)} add(s)"
        if op == 'transfer':
            # the source's pre-state substances
            if len(stores) == 1:
                v = strip_refs(stores[0][3])
                recv = v.func.value if isinstance(v, ast.Call) and isinstance(v.func, ast.Attribute) else None
                # the receiver must be the very object handed to the operation as its source (hence its pre-state),
                # and not the one handed over as destination
                def ids(x):
                    return {d.defid for d in definitions_of(x) if isinstance(d, Ref)}
                src_ids, dst_ids = set(), set()
                for c, s_, b in op_calls:
                    if len(c.args) >= 2:
                        src_ids |= ids(c.args[0])
                        dst_ids |= ids(c.args[1])
                rid = ids(recv) if recv is not None else set()
                from_source = call_name(v)[1] == 'get_substances' and bool(rid) and rid <= src_ids and not (rid & dst_ids)
                ok = from_source
                fact = f"{show(stores[0][3], 50)}: receiver is the source operand of the operation: {from_source}"
            why = 'a transfer can change every substance of the source; the recorded set must be the source\'s before the transfer'
        elif op in ('create_container', 'solution', 'solution_from'):
            if len(stores) == 1:
                v = strip_refs(stores[0][3])
                post = ff.seq(stores[0][0]) > first_op
                recv = v.func.value if isinstance(v, ast.Call) and isinstance(v.func, ast.Attribute) else None
                created = _is_results_ref(recv, ff, stores[0][0])
                ok = post and created and call_name(v)[1] == 'get_substances'
                fact = f"{show(stores[0][3], 60)} computed {'after' if post else 'before'} the creation"
            why = 'the recorded set must be the substances of the created container'
        elif op in ('dilute', 'fill_to'):
            if adds and not stores:
                ok = True
                for c, s, b in adds:
                    a = c.args[0] if c.args else None
                    passed = any(any(x is a or same_value(x, a) for x in cc.args) for cc, ss, bb in op_calls)
                    if not (isinstance(strip_refs(a), Elt) and passed):
                        ok = False
                    fact = f"adds {show(a, 20)}; the same operand is passed to the operation: {passed}"
            why = 'the solvent added by the step is not recorded: its usage is not counted'
        elif op == 'remove':
            # everything recorded must derive from both the state before and the state after the step
            vals = [st[3] for st in stores if not (isinstance(strip_refs(st[3]), ast.Call) and not strip_refs(st[3]).args and
                                                   getattr(strip_refs(st[3]).func, 'id', '') == 'set')]
            vals += [c.args[0] for c, s_, b in adds if c.args]
            ok = bool(vals)
            descr = []
            for v in vals:
                srcs = data_sources(v)
                keys = {getattr(n, 'pkey', None) for n in srcs} | {n.name for n in srcs if isinstance(n, Ref)}
                pre = any(k and k.startswith('step.to[0]') for k in keys)
                post = any(k and k.startswith('step.to[1]') for k in keys) or \
                    any(isinstance(n, Ref) and n.name.startswith('self.results[') for n in srcs)
                descr.append(f"{show(v, 40)} <- pre: {pre}, post: {post}")
                if not (pre and post):
                    ok = False
            fact = '; '.join(descr[:2])
            why = 'the recorded set must be what vanished: derived from the state before and after the removal'
        else:
            continue
        ctx.ob('C09.R5', bake, (stores[0][0].lineno if stores else adds[0][1].lineno if adds else node.lineno),
               f"`{op}` branch: substances_used covers what the step can change", ok, fact=fact, why=why,
               key=f"substances_used {op}")

"""C10 - Reported volume, amounts and concentrations always agree with contents.
Write/recompute pairing (O, F, U) + units at observer sinks (U)."""
from __future__ import annotations

import ast

from ..flow import (Ref, Param, LoopVar, Elt, Phi, Acc, Sym, strip_refs, show, pathkey, same_value, deep_walk, unround,
                    walk_no_sym)
from ..model import AnalysisError, unparse, walk_no_nested
from ..unitai import Num, Lit
from ..units import sym, base
from .common import root_of_expr, path_from_param, const_value, floor, call_name, is_call_to
from .c02 import total_descriptor, ALL, _is_contents_iter
from .c03 import contents_stores, is_attr, same_object
from . import targets
from .. import uscan

UNIT_CATS = ('convert-from-unit', 'sum-mix', 'add-units', 'to-storage', 'from-storage', 'qstr', 'qstr-format', 'truncating-division', 'storage-label', 'round-then-scale',
             'store-volume', 'store-contents', 'compare-units', 'std-format')


def run(ctx):
    from .configtime import decisions_not_taken_on_display_values as _coarse
    _coarse(ctx, 'C10.R1', ('Container', 'Plate', 'PlateSlicer', 'Recipe', 'RecipeStep'))
    from .configtime import observers_convert_to_the_requested_unit as _obs_units
    _obs_units(ctx, 'C10.R1')
    from .configtime import no_shared_mutable_defaults as _mutdef
    _mutdef(ctx, 'C10.R1', classes=('Container', 'Plate'))
    from .configtime import precision_zero_is_a_value as _prec0
    _prec0(ctx, 'C10.R2', classes=('Container', 'Plate', 'PlateSlicer'))
    from . import unitspec as _us
    _us.api_verified(ctx, 'C10.R1')
    n = pairing(ctx, 'C10.R1')
    floor(ctx, 'writers of contents', n, 4)
    observers(ctx)
    cached_results_intact(ctx, 'C10.R2')
    no_writes_into_shared_contents(ctx, 'C10.R1')
    # contents are keyed by Substance and the observers are memoised by the container: key laws of both classes
    from .identity import identity_discipline
    identity_discipline(ctx, 'C10.R2')
    return {'explanation': 'R1 (pairing): for every function and object whose contents are written, every normal exit '
                           'carries a definition of that object\'s volume that is either a full recompute - a sum over '
                           'the items of the same object\'s contents, read at the version of the contents that holds '
                           'at the exit, each item converted with its own storage unit to the volume storage unit - or '
                           'the incremental form whose volume delta and contents delta come from the same (substance, '
                           'quantity) pair. R2: the observers compute their answer by definition (get_volume = stored '
                           'volume in the requested unit; get_concentration = amount of the solute / volume or / the '
                           'total over all contents, scaled to the requested unit; plate observers and display helpers '
                           'convert every stored amount with its own storage unit). Not decided: numerical equality '
                           'after long histories.'}


def pairing(ctx, rule, only=None, derived=True):
    """Every write of X.contents is followed, on every path to a normal exit, by a recompute of X.volume."""
    model = ctx.model
    if only is None and derived:
        # the same discipline for anything else derived from the contents: nothing is kept in lazily filled attributes
        # of a container (they are copied with it) or in containers that outlive the call
        from .configtime import derived_values
        derived_values(ctx, rule, ('Container', 'Unit', 'Substance'))
    count = 0
    for m in model.cls('Container').methods.values():
        if only is not None and m.name not in only:
            continue
        ff = ctx.flow(m.qualname)
        cs = contents_stores(ff)
        objs = {}
        for stmt, obj, okey, value, whole, rt, before in cs:
            objs.setdefault(okey, []).append((stmt, obj, value, whole, rt, before))
        for okey, writes in objs.items():
            count += 1
            obj = writes[0][1]
            for ex in ff.normal_exits():
                if not any(id(w[0]) in ff.pre for w in writes):
                    continue
                final = ex.state.env.get(f"{okey}.volume")
                cver = ex.state.vers.get(f"{okey}.contents", 0)
                inst = f"{m.name}: volume of `{okey}` after its contents were written (exit at line {ex.line})"
                if final is None:
                    if m.name == '__init__' and all(_empty(w[2]) for w in writes):
                        continue
                    ctx.ob(rule, m, ex.line, inst, False, fact='no store to the volume on this path',
                           why='contents change while the cached volume keeps its old value',
                           key=f"no volume recompute for {okey}")
                    continue
                if m.name == '__init__' and all(_empty(w[2]) for w in writes) and \
                        const_value(strip_refs(final)) in (0, 0.0) and not isinstance(const_value(strip_refs(final)), bool):
                    continue        # an exit of the constructor with the empty contents and volume 0 it started from
                ok, fact = classify_volume(final, obj, okey, cver, writes, ff)
                ctx.ob(rule, m, getattr(final, 'lineno', ex.line), inst, ok, fact=fact,
                       why='the stored volume is not recomputed from the final contents of the same container',
                       key=f"volume recompute for {okey}")
    # units of the recompute (engine U)
    for q in ('Container._self_add', 'Container._transfer', 'Container.remove', 'Container.__init__'):
        if only is not None and q.split('.')[1] not in only:
            continue
        sc = targets.scan(ctx, q)
        uscan.report_sinks(ctx, lambda cat: rule if cat in ('store-volume', 'store-contents', 'convert-from-unit',
                                                            'storage-label', 'sum-mix', 'add-units', 'qstr',
                                                            'round-stored-at-user-precision') else None, sc)
    return count


def _empty(v):
    v = strip_refs(v)
    return isinstance(v, ast.Dict) and not v.keys


def loop_built_dict(ff, dval):
    """A dict that starts empty and is filled entry by entry inside one loop (`d = {}; for k, v in ..: [if ..: continue]
    d[k] = v`): returns (loop node, [(stmt, key, value, guard facts)]) or None.  Guards are the branch facts that hold at
    the store and did not hold at the loop entry."""
    if not (isinstance(dval, Ref) and _empty(dval.value)):
        return None
    elems = []
    for stmt, target, key, value, before, rt in ff.stores:
        if isinstance(rt, ast.Subscript) and same_object(rt.value, dval):
            if not before.loops:
                return None
            loopnode, entry_env, entry_facts = before.loops[-1]
            guards = [f for k, f in before.facts.items() if k not in entry_facts]
            elems.append((stmt, rt.slice, value, guards, loopnode))
    # (the loop body is walked twice: keep one record per statement, the last one)
    last = {}
    for e in elems:
        last[id(e[0])] = e
    elems = list(last.values())
    if not elems or len({id(e[4]) for e in elems}) != 1:
        return None
    return elems[0][4], [(e[0], e[1], e[2], e[3]) for e in elems]


def guard_key(facts):
    return frozenset((id(f.node), f.truth) for f in facts)


def classify_volume(final, obj, okey, cver, writes, ff):
    """Is the final definition of X.volume a recompute over the final X.contents (or the incremental pair form)?"""
    v, rounded = unround(final)
    v = strip_refs(v) if not isinstance(v, (Acc, Phi)) else v
    if isinstance(v, Ref):
        v = v.value
    # full recompute: accumulator over a loop on X.contents.items(), or sum(generator)
    node = v
    if isinstance(node, Acc):
        init = const_value(node.init)
        if init != 0:
            return False, f"accumulates onto {show(node.init, 40)} instead of starting from 0"
        its = []
        for op, term, guards, stmt in node.terms:
            if op != '+':
                return False, 'a term is subtracted in the volume recompute'
            if guards:
                fused = _fused_with_filter(node, writes, ff)
                if fused:
                    return True, fused
                return False, 'a term of the recompute is conditional (some substances are skipped)'
            for x in deep_walk(term):
                if isinstance(x, LoopVar) and x.loop is node.loop:
                    its.append(strip_refs(x.iter))
            if not any(isinstance(x, ast.Call) and isinstance(x.func, ast.Attribute) and x.func.attr in ('convert', 'convert_from')
                       for x in deep_walk(term)):
                return False, 'a term is not converted to a volume through the Unit API'
        if not its:
            return False, 'the recompute does not iterate over contents'
        # the loop runs whenever the reset to 0 ran: both are statements of the same block
        loop = getattr(node, 'loop', None)
        par = getattr(loop, 'parent', None)
        if isinstance(loop, ast.For) and isinstance(par, ast.If):
            block = par.body if any(b is loop for b in par.body) else par.orelse
            reset_here = any(isinstance(b, ast.Assign) and any(isinstance(t, ast.Attribute) and t.attr == 'volume' for t in b.targets)
                             for b in block)
            if not reset_here:
                return False, f"the recompute loop runs only when `{ast.unparse(par.test)[:40]}` holds, the reset to 0 always"
        return _iter_ok(its[0], obj, okey, cver, 'loop')
    sums = [n for n in walk_no_sym(node) if isinstance(n, ast.Call) and isinstance(n.func, ast.Name) and n.func.id == 'sum'
            and n.args and isinstance(n.args[0], ast.GeneratorExp)] if isinstance(node, ast.AST) and not isinstance(node, Sym) else []
    if sums and strip_refs(node) is sums[0]:
        g = sums[0].args[0]
        if g.generators[0].ifs:
            return False, 'the recompute filters some substances out'
        return _iter_ok(strip_refs(g.generators[0].iter), obj, okey, cver, 'sum')
    # incremental form (only meaningful when every contents write of this object is an increment by one pair)
    if isinstance(node, ast.BinOp) and isinstance(node.op, ast.Add):
        olds = [x for x in (node.left, node.right) if is_attr(strip_refs(x), 'volume') and same_object(strip_refs(x).value, obj)]
        deltas = [x for x in (node.left, node.right) if x not in olds]
        if len(olds) == 1 and len(deltas) == 1:
            dv = strip_refs(deltas[0])
            if isinstance(dv, ast.Call) and call_name(dv)[1] in ('convert', 'convert_from') and len(dv.args) >= 2:
                pair = dv.args[:2]
                for stmt, o, value, whole, rt, before in writes:
                    if whole:
                        return False, 'contents are replaced while the volume is only incremented'
                    amt = None
                    for n in deep_walk(value):
                        if isinstance(n, ast.Call) and call_name(n)[1] in ('convert', 'convert_from') and len(n.args) >= 2:
                            amt = n
                    options = []
                    for n in deep_walk(value):
                        if isinstance(n, ast.Call) and call_name(n)[1] in ('convert', 'convert_from') and len(n.args) >= 2:
                            options.append(n)
                    if not options or not all(same_value(n.args[0], pair[0]) and same_value(n.args[1], pair[1]) for n in options):
                        return False, 'volume delta and contents delta come from different (substance, quantity) pairs'
                    if not same_value(strip_refs(rt.slice), pair[0]) and strip_refs(rt.slice) is not strip_refs(pair[0]):
                        return False, 'the contents entry written is not the substance whose volume is added'
                return True, f"incremental: old volume + convert({show(pair[0], 20)}, {show(pair[1], 20)}, ..) matching the contents increment"
    return False, f"volume = {show(final, 80)}: not a recompute over the contents"


def _fused_with_filter(acc, writes, ff):
    """One pass builds the new contents and sums their volume: `for s, v in ..items(): if <skip>: continue;
    kept[s] = v; volume += convert(s, v ..)` with `X.contents = kept` - every volume term is guarded exactly like the
    entry store and converts that same entry, so the sum ranges over exactly the final contents."""
    whole = [w for w in writes if w[3]]
    if len(whole) != 1 or len(writes) != 1:
        return None
    built = loop_built_dict(ff, whole[0][2])
    if built is None or built[0] is not acc.loop or const_value(acc.init) != 0:
        return None
    loop, elems = built
    gk = {guard_key(e[3]) for e in elems}
    if len(gk) != 1:
        return None
    for stmt, key, value, guards in elems:
        k, v = strip_refs(key), strip_refs(value)
        if not (isinstance(k, LoopVar) and k.loop is loop and k.path == (0,) and isinstance(v, LoopVar) and v.loop is loop
                and v.path == (1,)):
            return None
    for op, term, guards, stmt in acc.terms:
        if op != '+' or guard_key(guards) not in gk:
            return None
        conv = [x for x in deep_walk(term) if isinstance(x, ast.Call) and isinstance(x.func, ast.Attribute) and
                x.func.attr in ('convert', 'convert_from')]
        lvs = {x.path for x in deep_walk(term) if isinstance(x, LoopVar) and x.loop is loop}
        if not conv or not {(0,), (1,)} <= lvs:
            return None
    return 'full recompute fused with the filter: every kept entry is stored and its volume added under the same guard'


def _iter_ok(it, obj, okey, cver, form):
    if not _is_contents_iter(it):
        return False, f"iterates over {show(it, 40)}"
    c = it.func.value if isinstance(it, ast.Call) else it
    if isinstance(c, Ref) and c.name.endswith('.contents'):
        # the dict stored as a whole into <okey>.contents in this function, read back through the same path
        if c.name != f"{okey}.contents":
            return False, f"recomputes from the contents of another container ({c.name})"
        return True, f"full recompute ({form}) over the contents just stored into {okey}"
    if not same_object(c.value, obj):
        return False, f"recomputes from the contents of another container ({show(c, 40)})"
    ver = getattr(c, 'ver', None)
    if ver is not None and ver != cver:
        return False, f"recompute reads the contents before their last write (version {ver} of {cver})"
    return True, f"full recompute ({form}) over {okey}.contents at its final version"


def observers(ctx):
    model = ctx.model
    # get_volume: stored volume -> requested unit
    sc = targets.scan(ctx, 'Container.get_volume')
    uscan.report_sinks(ctx, lambda cat: 'C10.R2' if cat in UNIT_CATS else None, sc)
    fi = model.func('Container.get_volume')
    bad, nret = [], 0
    for label, kind, v, line, it in sc.outcomes:
        if kind != 'return':
            continue
        nret += 1
        if not isinstance(v, Num):
            bad.append(f"[{label}] returns {v!r}")
            continue
        u = it.bound_unit(v.unit)
        if u.dims != {'L': 1} or u.has_storage_symbol():
            bad.append(f"[{label}] returns a value in {u}")
    ctx.ob('C10.R2', fi, fi.node.lineno, 'get_volume returns the stored volume converted to the requested unit',
           not bad and nret > 0, fact=f"{nret} returning paths", why='; '.join(sorted(set(bad))[:3]), key='get_volume result')
    ffv = ctx.flow('Container.get_volume')
    reads_volume = all(any(is_attr(n, 'volume') and isinstance(strip_refs(n.value), Param) for n in deep_walk(e.value))
                       for e in ffv.normal_exits())
    ctx.ob('C10.R2', fi, fi.node.lineno, 'get_volume reads the volume of its own container', reads_volume,
           why='the observer does not report the stored volume', key='get_volume source', nontrivial=False)

    # get_concentration
    sc = targets.scan(ctx, 'Container.get_concentration')
    uscan.report_sinks(ctx, lambda cat: 'C10.R2' if cat in UNIT_CATS else None, sc)
    fi = model.func('Container.get_concentration')
    bad, nret = [], 0
    for label, kind, v, line, it in sc.outcomes:
        if kind != 'return':
            continue
        nret += 1
        if isinstance(v, Lit) and v.v == 0:
            continue
        pc = it.memo.get(('pc', 'units'))
        if not isinstance(v, Num) or pc is None:
            bad.append(f"[{label}] returns {v!r}")
            continue
        want = sym('PC') * base(pc[0]) / base(pc[1])
        if not it.bound_unit(v.unit).same(want):
            bad.append(f"[{label}] for {pc[0]}/{pc[1]} returns a value in {it.bound_unit(v.unit)}, expected {want}")
    ctx.ob('C10.R2', fi, fi.node.lineno, 'get_concentration returns amount / total in the requested unit for every '
                                         'numerator/denominator pair and substance kind', not bad and nret > 0,
           fact=f"{nret} returning paths", why='; '.join(sorted(set(bad))[:3]), key='get_concentration result')
    ffc = ctx.flow('Container.get_concentration')
    # structure: numerator = the solute's own entry; non-volume denominator = sum over ALL contents
    solute = fi.param_names()[0]
    num_ok = False
    den_kinds = None
    for ex in ffc.normal_exits():
        for n in deep_walk(ex.value):
            if isinstance(n, ast.Call) and isinstance(n.func, ast.Attribute) and n.func.attr == 'get' and \
                    is_attr(n.func.value, 'contents') and n.args and isinstance(strip_refs(n.args[0]), Param) and \
                    strip_refs(n.args[0]).name == solute:
                num_ok = True
            if isinstance(n, ast.Subscript) and is_attr(n.value, 'contents') and isinstance(strip_refs(n.slice), Param) and \
                    strip_refs(n.slice).name == solute:
                num_ok = True       # `contents[solute] if solute in contents else 0`
            if isinstance(n, Acc):
                td = total_descriptor(n)
                if td is not None:
                    den_kinds = td[0]
    ctx.ob('C10.R2', fi, fi.node.lineno, "get_concentration: the numerator is the solute's own entry", num_ok,
           why='the concentration is computed from another substance', key='concentration numerator', nontrivial=False)
    ctx.ob('C10.R2', fi, fi.node.lineno, 'get_concentration: a mass/mole denominator totals every substance',
           den_kinds == ALL, fact=f"denominator sums over {sorted(den_kinds) if den_kinds else '?'}",
           why='the total leaves out some substances: the concentration is too high', key='concentration denominator')

    # the answer 0 is given for a zero amount of the solute only: an empty-looking container (volume 0 with zero-volume
    # solids) still has a mass / mole fraction
    gi = model.func('Container.get_concentration')
    for st in ast.walk(gi.node):
        if isinstance(st, ast.If) and any(isinstance(b, ast.Return) and isinstance(b.value, ast.Constant) and
                                          b.value.value in (0, 0.0) and not isinstance(b.value.value, bool) for b in st.body):
            t = st.test
            pure = isinstance(t, ast.Compare) and len(t.ops) == 1 and isinstance(t.ops[0], ast.Eq) and \
                {unparse(t.left), unparse(t.comparators[0])} & {'0', '0.0'} and \
                not any(isinstance(x, ast.Attribute) and x.attr in ('volume', 'max_volume') for x in ast.walk(t))
            ctx.ob('C10.R2', gi, st.lineno, 'get_concentration answers 0 only when the amount of the solute is 0', bool(pure),
                   fact=f"`return 0` under `{unparse(t, 60)}`", why='a container that holds the solute is reported as not '
                   'holding it (e.g. zero stored volume with zero-volume solids and a mass denominator)',
                   key='zero concentration guard')
    # plate observers, display helpers, recipe step dataframe
    for q in ('PlateSlicer.get_volumes', 'PlateSlicer.get_moles', 'PlateSlicer.dataframe', 'RecipeStep.dataframe',
              'Container.dataframe'):
        sc = targets.scan(ctx, q)
        uscan.report_sinks(ctx, lambda cat: 'C10.R2' if cat in UNIT_CATS else None, sc)
    for q, dim in (('PlateSlicer.get_volumes', 'L'), ('PlateSlicer.get_moles', 'mol')):
        sc = targets.scan(ctx, q)
        fi = model.func(q)
        bad, nret = [], 0
        for label, kind, v, line, it in sc.outcomes:
            if kind != 'return':
                continue
            nret += 1
            if isinstance(v, Lit) and v.v == 0:
                continue
            if '=[]' in label:
                # by definition the amount of no substance is 0 in every well (only None asks for the total)
                bad.append(f"[{label}] an empty collection of substances gives {v!r} instead of 0")
                continue
            if not isinstance(v, Num):
                bad.append(f"[{label}] returns {v!r}")
                continue
            u = it.bound_unit(v.unit)
            if u.dims != {dim: 1} or u.has_storage_symbol() or abs(u.coef - 1) > 1e-9:
                bad.append(f"[{label}] returns values in {u}")
        ctx.ob('C10.R2', fi, fi.node.lineno, f"{q} returns per-well values in the requested unit", not bad and nret > 0,
               fact=f"{nret} returning paths", why='; '.join(sorted(set(bad))[:3]), key=f"{q} result")


def cached_results_intact(ctx, rule):
    """The observers has_liquid / get_substances / dataframe are cached per container: their answer agrees with the
    contents only as long as nobody changes the returned object in place (engine O, class CACHED)."""
    from ..fresh import Fresh, CACHED
    from ..effects import mutating_call_oracle
    model = ctx.model
    fr = Fresh(model, mutating_call_oracle(model))
    n, bad = 0, 0
    for fi in model.funcs.values():
        if fi.parent is not None or fi.mod.rel not in ('pyplate/pyplate.py', 'pyplate/slicer.py'):
            continue
        for e in fr.analyse(fi):
            n += 1
            if e.cls == CACHED and not e.ok:
                bad += 1
                ctx.ob(rule, fi, e.line, f"{e.desc} [{e.fi.qualname}]", False, fact=f"{e.cls}: {e.why}",
                       why='a cached observer result is changed in place: the container then reports substances / '
                           'tables that disagree with its contents', key=f"cached result mutated: {e.target_text}")
    cached = sorted(f.qualname for f in model.funcs.values() if f.is_cached and f.cls is not None)
    fi0 = model.func(cached[0]) if cached else model.func('Container.get_volume')
    ctx.ob(rule, fi0, fi0.node.lineno, 'no result of a cached observer is mutated in place', bad == 0,
           fact=f"{n} mutation events examined; cached observers: {cached}",
           why='see the events reported', key='cached observers intact')


def no_writes_into_shared_contents(ctx, rule):
    """A shallow copy of a container shares its contents dictionary with the original: an amount written through the copy
    shows up in the original too, whose stored volume was computed before (engine O, class SHELL: the object is new, what
    it holds is not)."""
    from ..fresh import Fresh, SHELL
    from ..effects import mutating_call_oracle
    model = ctx.model
    fr = Fresh(model, mutating_call_oracle(model))
    n, bad = 0, 0
    for fi in model.funcs.values():
        if fi.parent is not None or fi.mod.rel != 'pyplate/pyplate.py' or fi.cls is None or fi.cls.name != 'Container':
            continue
        for e in fr.analyse(fi):
            n += 1
            if e.cls == SHELL and not e.ok and 'shallow copy' in e.why:
                bad += 1
                ctx.ob(rule, fi, e.line, f"{e.desc} [{e.fi.qualname}]", False, fact=f"{e.cls}: {e.why}",
                       why='the contents dictionary is shared with the object that was copied: that object now holds the new '
                           'amounts under its old volume', key=f"write into shared contents: {e.target_text}")
    anchor = model.func('Container._add')
    ctx.ob(rule, anchor, anchor.node.lineno, 'no Container method writes through a shallow copy', bad == 0,
           fact=f"{n} mutation events examined", why='see the events reported', key='shallow copies written')

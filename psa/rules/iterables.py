"""Single-pass iterables.

A parameter that the library accepts as `Iterable` (annotation, or an `isinstance(p, Iterable)` test) may be a generator,
a `map` / `filter` object or any other iterator: it can be traversed ONCE.  A function that traverses such a parameter
twice on one path - a validating `all(... for x in p)` followed by the working loop, or a loop followed by handing the
same object on to code that loops again later - sees an empty sequence the second time and silently does nothing.
Accepted: one traversal; or a rebinding to a materialised collection (`p = list(p)`, `q = tuple(p)`) before anything
else, after which the collection may be used freely.

The count is taken over the paths of the function (if / else arms are alternatives, early exits end a path)."""
from __future__ import annotations

import ast

from ..model import unparse

TRAVERSERS = {'all', 'any', 'list', 'tuple', 'set', 'frozenset', 'sorted', 'sum', 'min', 'max', 'map', 'filter', 'zip',
              'enumerate', 'dict', 'iter', 'next', 'reversed'}
MATERIALISERS = {'list', 'tuple', 'set', 'frozenset', 'sorted', 'dict'}
HARMLESS = {'isinstance', 'len', 'type', 'id', 'repr', 'str', 'bool', 'print', 'callable', 'hasattr'}


def _candidates(fi):
    """Names of the function that may hold a single-pass iterable: parameters annotated Iterable or tested with
    isinstance(.., Iterable); loop variables tested that way (elements of *args)."""
    out = {}
    a = fi.node.args
    vararg = a.vararg.arg if a.vararg else None
    for p in fi.all_param_names():
        ann = fi.annotation(p) or ''
        if p != vararg and 'Iterable' in ann:
            out[p] = 'annotated Iterable'
    for t in ast.walk(fi.node):
        if isinstance(t, ast.Call) and getattr(t.func, 'id', '') == 'isinstance' and len(t.args) == 2 and \
                isinstance(t.args[0], ast.Name) and 'Iterable' in unparse(t.args[1]):
            if t.args[0].id != vararg:
                out.setdefault(t.args[0].id, 'tested with isinstance(.., Iterable)')
    return out


def _event(node, name):
    """Is `node` (a Name load of `name`) a traversal or an escape of the iterable?  Returns a label or None."""
    if not (isinstance(node, ast.Name) and node.id == name and isinstance(node.ctx, ast.Load)):
        return None
    p = getattr(node, 'parent', None)
    if isinstance(p, (ast.For, ast.AsyncFor)) and p.iter is node:
        return 'for loop'
    if isinstance(p, ast.comprehension) and p.iter is node:
        return 'comprehension'
    if isinstance(p, ast.Starred):
        return 'unpacked with *'
    if isinstance(p, ast.Call):
        if p.func is node:
            return None
        f = p.func
        fname = f.id if isinstance(f, ast.Name) else None
        if fname in HARMLESS:
            return None
        if fname in TRAVERSERS:
            return f"{fname}()"
        return f"handed to {unparse(f, 30)}()"
    if isinstance(p, ast.keyword):
        return f"handed on as {p.arg}="
    if isinstance(p, (ast.Return, ast.Yield)):
        return 'returned'
    if isinstance(p, (ast.Assign, ast.AnnAssign)) and getattr(p, 'value', None) is node:
        tgt = p.targets[0] if isinstance(p, ast.Assign) else p.target
        if isinstance(tgt, (ast.Attribute, ast.Subscript)):
            return 'stored'
        return None             # alias: not followed (rare; a second name for the same iterator)
    if isinstance(p, (ast.List, ast.Tuple, ast.Set, ast.Dict)):
        return None if isinstance(getattr(p, 'parent', None), ast.Compare) else 'stored in a display'
    if isinstance(p, ast.BinOp) and isinstance(p.op, ast.Add):
        return 'concatenated'
    return None


def _materialised_at(fi, name):
    """Line after which `name` is bound to a materialised collection: `name = list(name)` ..."""
    best = None
    for st in ast.walk(fi.node):
        if isinstance(st, ast.Assign) and len(st.targets) == 1 and isinstance(st.targets[0], ast.Name) and \
                st.targets[0].id == name:
            v = st.value
            ok = (isinstance(v, ast.Call) and isinstance(v.func, ast.Name) and v.func.id in MATERIALISERS) or \
                isinstance(v, (ast.List, ast.Tuple, ast.ListComp, ast.Set, ast.Dict, ast.DictComp, ast.SetComp))
            if ok and (best is None or st.lineno < best.lineno):
                best = st
    return best


# (function, name): confirmed by reading that the eager library accepts any iterable there (so a one-shot iterator is a
# legal argument).  Other Iterable-annotated parameters are handed to code that insists on a list (the solutes of
# create_solution) or are only looked at once.
SINGLE_PASS = {
    ('Container.__init__', 'initial_contents'): 'one loop over the entries',
    ('Recipe.create_container', 'initial_contents'): 'checked at declaration and traversed again by the constructor at bake',
    ('Recipe.uses', 'arg'): 'an iterable of containers / plates among the arguments',
    ('Recipe.get_substance_used', 'destinations'): 'an iterable of containers / plates',
}


def single_pass_iterables(ctx, rule, qualnames):
    from .c09 import _path_counts
    model = ctx.model
    n = 0
    for q in qualnames:
        fi = model.func(q)
        for name, how in sorted(_candidates(fi).items()):
            if (q, name) not in SINGLE_PASS:
                continue
            n += 1
            mat = _materialised_at(fi, name)

            def pred(node, name=name, mat=mat):
                ev = _event(node, name)
                if ev is None:
                    return False
                if mat is not None:
                    # the materialising statement itself is the single traversal; later uses are of the collection
                    inside = any(x is node for x in ast.walk(mat))
                    if inside:
                        return True
                    if node.lineno > mat.lineno or (node.lineno == mat.lineno and not inside):
                        return False
                return True
            fall, done = _path_counts(fi.node.body, pred)
            worst = max(fall | done) if (fall | done) else 0
            events = sorted({(x.lineno, _event(x, name)) for x in ast.walk(fi.node) if pred(x)})
            ctx.ob(rule, fi, events[1][0] if worst > 1 and len(events) > 1 else fi.node.lineno,
                   f"{q}: `{name}` ({how}) is traversed at most once on every path", worst <= 1,
                   fact=f"up to {worst} traversal(s) / hand-overs on one path: " + ', '.join(f"{e} (line {ln})" for ln, e in events[:4]),
                   why='a generator, map or filter object is empty after its first traversal: the second pass silently '
                       'sees nothing', key=f"iterable traversed twice: {name}")
    ctx.count('iterable_parameters', n)
    if n < len([1 for (q_, _n) in SINGLE_PASS if q_ in qualnames]):
        from ..model import AnalysisError
        raise AnalysisError(f"single-pass iterables: {n} of the confirmed (function, parameter) pairs found in {list(qualnames)}")
    return n

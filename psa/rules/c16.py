"""C16 - Recipe lifecycle discipline is enforced.  Typestate: gate dominance over effect sets (engines F, O, M).

R1 lock gate before the first effect of every mutator; R2 `locked` set only by bake, after the all-used gate;
R3 declared operands; R4 unique names; R5 stage rules; R6 queries are pure."""
from __future__ import annotations

import ast
import re

from ..effects import receiver_effects
from ..flow import MUTATOR_METHODS, Param, Ref, LoopVar, deep_walk, strip_refs, show, facts_at
from ..model import AnalysisError, walk_no_nested, unparse
from .common import (root_of_expr, path_from_param, mentions_param_attr, mentions_self_attr, dominates, const_value,
                     gate_with, floor, line_of, call_name)

VALUE_TYPES = ('Container', 'Plate', 'PlateSlicer')


def recipe_state_attrs(model):
    init = model.func('Recipe.__init__')
    attrs = set()
    for n in ast.walk(init.node):
        if isinstance(n, ast.Attribute) and isinstance(n.ctx, ast.Store) and isinstance(n.value, ast.Name) \
                and n.value.id == 'self':
            attrs.add(n.attr)
    return attrs


def is_self_state(e, state_attrs):
    p = path_from_param(e)
    return p is not None and p[0] == 'self' and p[1] and p[1][0] in state_attrs


def is_locked_false(c):
    """Normalised comparison meaning `self.locked` is false."""
    def is_locked(x):
        p = path_from_param(x)
        return p == ('self', ['locked'])
    if c.op == 'falsy' and is_locked(c.left):
        return True
    if c.op in ('eq', 'is') and ((is_locked(c.left) and const_value(c.right) is False) or
                                 (is_locked(c.right) and const_value(c.left) is False)):
        return True
    if c.op in ('ne', 'isnot') and ((is_locked(c.left) and const_value(c.right) is True) or
                                    (is_locked(c.right) and const_value(c.left) is True)):
        return True
    return False


def effect_events(ctx, fi, state_attrs, eff):
    """(stmt, description, pre_state, kind, callee) for every effect of method fi on recipe state."""
    ff = ctx.flow(fi.qualname)
    ev = []
    for stmt, target, key, value, before, rt in ff.stores:
        if is_self_state(rt, state_attrs):
            ev.append((stmt, f"store {key}", before, 'store', None))
    for call, stmt, before in ff.calls:
        f = call.func
        if isinstance(f, ast.Attribute):
            if f.attr in MUTATOR_METHODS and is_self_state(f.value, state_attrs):
                ev.append((stmt, f"{show(f.value)}.{f.attr}()", before, 'mutcall', None))
            elif isinstance(f.value, Param) and f.value.name == 'self':
                callee = ctx.model.lookup_method('Recipe', f.attr)
                if callee is not None and eff.get(callee.qualname, set()) & state_attrs:
                    ev.append((stmt, f"self.{f.attr}()", before, 'selfcall', callee))
    ev.sort(key=lambda x: getattr(x[0], 'lineno', 0))
    return ev


def run(ctx):
    from .configtime import derived_values as _derived
    _derived(ctx, 'C16.R1', ('Recipe', 'RecipeStep'))
    from .configtime import no_identity_test_against_literals as _no_is_literal
    _no_is_literal(ctx, 'C16.R1', classes=('Recipe', 'RecipeStep'))
    from .atomic import validate_before_mutate as _atomic
    _atomic(ctx, 'C16.R3', ('Recipe.uses', 'Recipe.transfer', 'Recipe.create_container', 'Recipe.create_solution', 'Recipe.create_solution_from', 'Recipe.remove', 'Recipe.dilute', 'Recipe.fill_to', 'Recipe.start_stage', 'Recipe.end_stage'))
    from .iterables import single_pass_iterables as _single_pass
    _single_pass(ctx, 'C16.R3', ('Recipe.uses',))
    model = ctx.model
    recipe = model.cls('Recipe')
    state_attrs = recipe_state_attrs(model)
    for need in ('steps', 'results', 'locked', 'used', 'stages'):
        if need not in state_attrs:
            raise AnalysisError(f"Recipe.__init__ no longer initialises self.{need}")
    eff = {k: {a.rstrip('*') for a in v} for k, v in receiver_effects(model).items()}
    public = [m for n, m in recipe.methods.items() if not n.startswith('_')]
    mutators = [m for m in public if eff.get(m.qualname, set()) & state_attrs]
    queries = [m for m in public if not (eff.get(m.qualname, set()) & state_attrs)]
    floor(ctx, 'Recipe public methods', len(public), 12)
    floor(ctx, 'Recipe mutators', len(mutators), 8)

    # ---------------------------------------------------------------- R1 lock gate
    events = {m.qualname: effect_events(ctx, m, state_attrs, eff) for m in mutators}
    gated = set()
    changed = True
    verdict = {}
    while changed:
        changed = False
        for m in mutators:
            if m.qualname in gated:
                continue
            bad = None
            evs = events[m.qualname]
            for stmt, desc, before, kind, callee in evs:
                if gate_with(before, is_locked_false, 'RuntimeError'):
                    continue
                if kind == 'selfcall' and callee.qualname in gated:
                    continue
                # gated through a dominating call to a gated method
                if any(k2 == 'selfcall' and c2.qualname in gated and dominates(s2, stmt)
                       for s2, d2, b2, k2, c2 in evs):
                    continue
                bad = (stmt, desc)
                break
            verdict[m.qualname] = bad
            if bad is None:
                gated.add(m.qualname)
                changed = True
    for m in mutators:
        bad = verdict[m.qualname]
        n_ev = len(events[m.qualname])
        ctx.ob('C16.R1', m, (bad[0].lineno if bad else m.node.lineno), f"lock gate before first effect of {m.name}",
               bad is None, fact=f"{n_ev} effect events on {sorted(eff[m.qualname] & state_attrs)}",
               why=(f"effect `{bad[1]}` is reachable without passing `if self.locked: raise RuntimeError`" if bad else ''),
               key='mutator without lock gate')
    # spec floor: the step-adding and declaring vocabulary of the property must all be mutators
    for name in ('uses', 'create_container', 'create_solution', 'create_solution_from', 'transfer', 'remove', 'dilute',
                 'fill_to', 'start_stage', 'end_stage', 'bake'):
        if name not in recipe.methods:
            raise AnalysisError(f"Recipe.{name} vanished")
        ctx.ob('C16.R1', recipe.methods[name], recipe.methods[name].node.lineno, f"{name} is a state-changing method",
               recipe.methods[name] in mutators, fact='effect set derived from the body', nontrivial=False,
               why='the method no longer records anything in the recipe', key='vocabulary method without effect')

    # ---------------------------------------------------------------- R2 locked only set by bake
    bake = recipe.methods['bake']
    ffb = ctx.flow('Recipe.bake')
    locked_stores = []
    for fi in model.funcs.values():
        for n in ast.walk(fi.node) if fi.parent is None else []:
            if isinstance(n, ast.Attribute) and n.attr == 'locked' and isinstance(n.ctx, ast.Store):
                locked_stores.append((fi, n))
    for fi, n in locked_stores:
        st = n
        while not isinstance(st, ast.stmt):
            st = st.parent
        val = const_value(st.value) if isinstance(st, ast.Assign) else None
        if fi.qualname == 'Recipe.__init__':
            ok, why = val is False, 'a new recipe must start unlocked'
        elif fi.qualname == 'Recipe.bake':
            ok, why = val is True, 'bake may only lock'
        else:
            ok, why = False, 'only bake may change the locked flag'
        ctx.ob('C16.R2', fi, n.lineno, f"store to .locked in {fi.qualname}", ok, fact=f"value {val!r}", why=why,
               key=f"store to locked = {val!r}", nontrivial=False)
    set_true = [s for s in ffb.stores if s[2] == 'self.locked' and const_value(s[3]) is True]
    ctx.ob('C16.R2', bake, bake.node.lineno, 'bake sets self.locked = True', bool(set_true),
           why='bake no longer locks the recipe', key='bake does not lock', nontrivial=False)
    for ex in ffb.normal_exits():
        v = ex.state.env.get('self.locked')
        ok = v is not None and const_value(v) is True
        ctx.ob('C16.R2', bake, ex.line, f"normal exit of bake at line {ex.line} is locked", ok,
               fact=f"self.locked = {show(v) if v is not None else 'unchanged'}",
               why='a path returns from bake without locking the recipe', key='bake exit not locked')
    for stmt, target, key, value, before, rt in set_true:
        def all_used(c):
            return c.op in ('eq', 'le', 'notin', 'falsy', 'truth') and \
                any(mentions_self_attr(x, 'used') for x in (c.left, c.right) if x is not None) and \
                any(mentions_self_attr(x, 'results') for x in (c.left, c.right) if x is not None)
        g = gate_with(before, all_used, 'ValueError')
        ctx.ob('C16.R2', bake, stmt.lineno, 'locking is dominated by the all-declared-objects-used gate', bool(g),
               fact=str(g[0]) if g else 'no fact relating self.used and self.results',
               why='bake can succeed although a declared object was never used', key='all-used gate missing')
        # the steps loop must come before locking
        loops = [s for s in bake.node.body if isinstance(s, ast.For) and 'self.steps' in unparse(s.iter)]
        ctx.ob('C16.R2', bake, stmt.lineno, 'locking follows the loop over the steps',
               bool(loops) and all(dominates(l, stmt) for l in loops), nontrivial=False,
               why='recipe is locked before its steps ran', key='lock before steps')

    # the all-used gate compares sizes: every name marked used must be the declared name of an object of the step,
    # never a name taken from an operation's result (a result may carry another name)
    from .c08 import _is_operation
    adds = [(c, s, b) for c, s, b in ffb.calls if isinstance(c.func, ast.Attribute) and c.func.attr in ('add', 'update')
            and path_from_param(c.func.value) == ('self', ['used'])]
    for c, s, b in adds:
        a = c.args[0] if c.args else None
        from_result = any(isinstance(n, ast.Call) and _is_operation(n.orig if hasattr(n, 'orig') else n) for n in deep_walk(a)) \
            if a is not None else False
        # a set of the step record handed over whole: whatever was put into it after the operations ran counts
        # (names read from step.frm / step.to then, which hold the results of the step as well)
        raw = c.orig.args[0] if hasattr(c, 'orig') and c.orig.args else (c.args[0] if c.args else None)
        if not from_result and isinstance(raw, ast.Attribute) and isinstance(raw.value, ast.Name) and raw.value.id == 'step':
            op_lines = [s2.lineno for c2, s2, b2 in ffb.calls if _is_operation(c2.orig if hasattr(c2, 'orig') else c2)]
            for c2, s2, b2 in ffb.calls:
                o2 = c2.orig if hasattr(c2, 'orig') else c2
                if isinstance(o2.func, ast.Attribute) and o2.func.attr in ('add', 'update') and \
                        unparse(o2.func.value, 60) == unparse(raw, 60) and op_lines and s2.lineno > max(op_lines) and \
                        o2.args and re.search(r"step\.(to|frm)\b", unparse(o2.args[0], 200)):
                    from_result = True
        ctx.ob('C16.R2', bake, s.lineno, f"name marked used `{show(a, 30)}` is a declared name of the step", not from_result,
               fact='derived from the step record' if not from_result else 'derived from the result of an operation',
               why='a name that was never declared enters the used set: the size comparison with the declared objects no '
                   'longer detects an unused object', key='used name from an operation result')
    # ---------------------------------------------------------------- R3 declared operands
    step_adders = []
    for m in mutators:
        ff = ctx.flow(m.qualname)
        appends = [(c, s, b) for c, s, b in ff.calls if isinstance(c.func, ast.Attribute) and c.func.attr == 'append'
                   and path_from_param(c.func.value) == ('self', ['steps'])]
        if appends and m.name != 'bake':
            step_adders.append((m, ff, appends))
    floor(ctx, 'step-adding methods', len(step_adders), 7)
    n_r3 = 0
    for m, ff, appends in step_adders:
        for p in m.param_names():
            ann = m.annotation(p) or ''
            if not any(t in ann for t in VALUE_TYPES):
                continue
            n_r3 += 1
            ok = declared_gate(m, ff, appends, p)
            ctx.ob('C16.R3', m, m.node.lineno, f"{m.name}({p}: {ann}) requires `{p}` to be declared", ok,
                   fact='gate `<name> not in self.results -> ValueError` ' + ('dominates' if ok else 'does not dominate')
                        + ' self.steps.append',
                   why=f"an undeclared {ann} can be recorded as an operand of a {m.name} step",
                   key=f"undeclared operand {p} accepted")
    floor(ctx, 'declared-operand obligations', n_r3, 6)

    # ---------------------------------------------------------------- R4 unique names, creation through uses
    writers = []
    for m in recipe.methods.values():
        if m.name == 'bake':
            continue
        ff = ctx.flow(m.qualname)
        for stmt, target, key, value, before, rt in ff.stores:
            p = path_from_param(rt)
            if p is not None and p[0] == 'self' and p[1][:1] == ['results'] and p[1][1:] == ['[]']:
                writers.append((m, stmt, rt, before))
    for m, stmt, rt, before in writers:
        okm = m.name == 'uses'

        def fresh_name(c, rt=rt):
            return c.op == 'notin' and mentions_self_attr(c.right, 'results') and \
                unparse(strip_refs(c.left)) == unparse(strip_refs(rt.slice))
        g = gate_with(before, fresh_name, 'ValueError')
        ctx.ob('C16.R4', m, stmt.lineno, f"new key in self.results written by {m.name}", okm and bool(g),
               fact=(str(g[0]) if g else 'no `name not in self.results` gate'),
               why=('only `uses` may add names' if not okm else 'an existing name can be overwritten'),
               key=f"results writer {m.name}")
    # names are registered one at a time: a bulk registration (`results.update(..)`, `results |= ..`) cannot see two
    # objects with one name inside the batch - the later one silently replaces the earlier
    bulk = []
    for m in recipe.methods.values():
        if m.name == 'bake':
            continue
        for x in ast.walk(m.node):
            if isinstance(x, ast.Call) and isinstance(x.func, ast.Attribute) and x.func.attr == 'update' and \
                    unparse(x.func.value) == 'self.results':
                bulk.append((m, x.lineno, unparse(x, 60)))
            if isinstance(x, ast.AugAssign) and isinstance(x.op, ast.BitOr) and unparse(x.target) == 'self.results':
                bulk.append((m, x.lineno, unparse(x, 60)))
            if isinstance(x, ast.Assign) and any(unparse(t) == 'self.results' for t in x.targets) and m.name != '__init__':
                bulk.append((m, x.lineno, unparse(x, 60)))
    for m, line, txt in bulk:
        ctx.ob('C16.R4', m, line, f"{m.name} registers names one at a time, each after its own uniqueness test", False, fact=txt,
               why='two objects with the same name inside one batch are both accepted: the second replaces the first',
               key=f"bulk registration in {m.name}")
    ctx.ob('C16.R4', recipe.methods['uses'], recipe.methods['uses'].node.lineno, '`uses` registers declared objects',
           any(m.name == 'uses' for m, *_ in writers), why='uses no longer stores the declared object',
           key='uses does not register', nontrivial=False)
    for m, ff, appends in step_adders:
        ctors = [(c, s, b) for c, s, b in ff.calls if isinstance(c.func, ast.Name) and c.func.id == 'Container']
        if not ctors:
            continue
        uses_calls = [(c, s, b) for c, s, b in ff.calls if isinstance(c.func, ast.Attribute) and c.func.attr == 'uses'
                      and isinstance(c.func.value, Param)]
        ok = False
        for c, s, b in uses_calls:
            if any(isinstance(a, Ref) and isinstance(a.value, ast.Call) and call_name(a.value)[1] == 'Container'
                   for a in c.args) and all(dominates(s, ap[1]) for ap in appends):
                ok = True
        ctx.ob('C16.R4', m, m.node.lineno, f"{m.name}: created container is declared through uses() before the step",
               ok, why='a recipe-created container bypasses the unique-name check', key='creation bypasses uses')

    # ---------------------------------------------------------------- R5 stages
    _stage_rules(ctx, recipe, ffb)

    # ---------------------------------------------------------------- R6 queries are pure
    pure_expected = ['get_substance_used', 'get_container_flows', 'get_amount_remaining', 'visualize']
    qfuncs = [recipe.methods[n] for n in pure_expected if n in recipe.methods]
    if len(qfuncs) < 4:
        raise AnalysisError('a tracking query of Recipe vanished')
    step_cls = model.cls('RecipeStep')
    for n in ('dataframe', '_repr_html_'):
        if n in step_cls.methods:
            qfuncs.append(step_cls.methods[n])
    for q in qfuncs:
        ff = ctx.flow(q.qualname)
        bad = None
        for stmt, target, key, value, before, rt in ff.stores:
            r = root_of_expr(rt)
            if isinstance(r, (Param, LoopVar)) or (isinstance(r, ast.Subscript)):
                bad = (stmt, f"store {key}")
                break
        if bad is None:
            for call, stmt, before in ff.calls:
                f = call.func
                if isinstance(f, ast.Attribute) and f.attr in MUTATOR_METHODS:
                    r = root_of_expr(f.value)
                    if isinstance(r, (Param, LoopVar)):
                        bad = (stmt, f"{show(f.value)}.{f.attr}()")
                        break
                if isinstance(f, ast.Attribute) and isinstance(f.value, Param) and f.value.name == 'self':
                    callee = model.lookup_method(q.cls.name, f.attr)
                    if callee is not None and eff.get(callee.qualname):
                        bad = (stmt, f"self.{f.attr}() mutates")
                        break
        # nested helpers
        for sub in q.nested:
            for n in ast.walk(sub.node):
                if isinstance(n, (ast.Attribute, ast.Subscript)) and isinstance(n.ctx, ast.Store):
                    b = n
                    while isinstance(b, (ast.Attribute, ast.Subscript)):
                        b = b.value
                    params = {a.arg for a in sub.node.args.args} if not isinstance(sub.node, ast.Lambda) else set()
                    if isinstance(b, ast.Name) and (b.id in params or b.id == 'self'):
                        bad = bad or (n, f"helper {sub.name} stores through {b.id}")
        ctx.ob('C16.R6', q, (bad[0].lineno if bad else q.node.lineno), f"{q.qualname} has no effect on recipe/step state",
               bad is None, fact='effect set empty' if bad is None else bad[1],
               why='a tracking query changes the recipe it reports on', key='query with effects')

    return {'explanation': 'Typestate analysis of class Recipe: effect sets of all public methods are inferred '
                           '(stores, in-place container methods, transitive self-calls); every effect event must be '
                           'dominated by the gate `self.locked -> RuntimeError` (directly or through a gated callee); '
                           'locked is only set by bake after the all-used gate; Container/Plate/PlateSlicer operands '
                           'of step-adding methods must pass a `name in self.results` gate; only `uses` adds names; '
                           'stage gates and stage bookkeeping; tracking queries have empty effect sets. '
                           'Decides the structural lifecycle clauses, not run-time sequences.',
            'exhaustive': True,
            'coverage': {'public_methods': len(public), 'mutators': [m.name for m in mutators],
                         'queries': [m.name for m in queries], 'state_attributes': sorted(state_attrs)}}


def steps_appends(ff):
    return [(c, s, b) for c, s, b in ff.calls if isinstance(c.func, ast.Attribute) and c.func.attr == 'append'
            and path_from_param(c.func.value) == ('self', ['steps'])]


def declared_gate(m, ff, appends, p):
    """Is every `self.steps.append` of method m reachable only if parameter p (when it is a Container / Plate / slice)
    passed a `name in self.results` test whose failure raises ValueError?"""
    from ..flow import normalise_fact

    def pure_name(e, depth=0):
        # the name of the operand itself (x.name / x.plate.name, chosen by its type) - not something computed from it:
        # a name cut at '[' or lower-cased matches other objects than the one that will be looked up when baking
        from ..flow import Phi
        e = strip_refs(e)
        if depth > 8:
            return False
        if isinstance(e, Phi):
            return all(pure_name(o, depth + 1) for o in e.options)
        if isinstance(e, ast.IfExp):
            return pure_name(e.body, depth + 1) and pure_name(e.orelse, depth + 1)
        if isinstance(e, ast.Attribute) and e.attr == 'name':
            v = strip_refs(e.value)
            while isinstance(v, ast.Attribute):
                v = strip_refs(v.value)
            return isinstance(v, Param) and v.name == p
        return False

    def declared(c):
        return c.op == 'in' and mentions_param_attr(c.left, p, 'name') and pure_name(c.left) and mentions_self_attr(c.right, 'results')

    def undeclared(c):
        return c.op == 'notin' and mentions_param_attr(c.left, p, 'name') and pure_name(c.left) and mentions_self_attr(c.right, 'results')

    def benign(f):
        t = f.test
        if isinstance(t, ast.Call) and isinstance(t.func, ast.Name) and t.func.id == 'isinstance' \
                and isinstance(root_of_expr(t.args[0]), Param) and root_of_expr(t.args[0]).name == p:
            return True
        if any(undeclared(c) for c in normalise_fact(f)):
            return True
        # a test that reads nothing but this parameter and constants (e.g. the message variant chosen by a helper's
        # constant argument) does not make the refusal depend on anything else
        return all(n.name == p for n in deep_walk(t) if isinstance(n, Param))
    # a look-up that tests something computed from the name (cut, lower-cased, ..) instead of the name is no gate for the
    # objects whose names it changes - in whichever type branch it sits
    for ex in ff.raise_exits():
        for c in facts_at(ex.state):
            if c.op in ('notin', 'in') and mentions_param_attr(c.left, p, 'name') and mentions_self_attr(c.right, 'results') \
                    and not pure_name(c.left):
                return False
    for call, stmt, before in appends:
        if gate_with(before, declared, 'ValueError'):
            continue
        found = False
        for ex in ff.raise_exits():
            if ex.exc != 'ValueError' or not gate_with(ex.state, undeclared):
                continue
            extra = [f for k, f in ex.state.facts.items() if k not in before.facts]
            if all(benign(f) for f in extra):
                found = True
                break
        if not found:
            return False
    return True


def _stage_rules(ctx, recipe, ffb):
    model = ctx.model
    ss, es = recipe.methods['start_stage'], recipe.methods['end_stage']
    ffs, ffe = ctx.flow('Recipe.start_stage'), ctx.flow('Recipe.end_stage')
    pname = ss.param_names()[0]

    def store_of(ff, key):
        return [s for s in ff.stores if s[2] == key]

    cs = store_of(ffs, 'self.current_stage')
    css = store_of(ffs, 'self.current_stage_start')
    ctx.ob('C16.R5', ss, ss.node.lineno, 'start_stage records the stage name',
           bool(cs) and all(isinstance(s[3], Param) and s[3].name == pname for s in cs),
           why='the open stage is not the name given', key='start_stage name')

    def is_len_steps(e):
        e = strip_refs(e)
        return isinstance(e, ast.Call) and isinstance(e.func, ast.Name) and e.func.id == 'len' and len(e.args) == 1 \
            and path_from_param(e.args[0]) == ('self', ['steps'])
    ctx.ob('C16.R5', ss, (css[0][0].lineno if css else ss.node.lineno),
           'start_stage snapshots len(self.steps) exactly', bool(css) and all(is_len_steps(s[3]) for s in css),
           fact=show(css[0][3]) if css else 'no store', why='stage start bound is not a pure snapshot of len(steps)',
           key='stage start bound')
    first = min([s[0] for s in cs + css], key=lambda s: s.lineno) if cs + css else None
    if first is not None:
        before = ffs.state_before(first)

        def name_free(c):
            return c.op == 'notin' and isinstance(strip_refs(c.left), Param) and mentions_self_attr(c.right, 'stages')

        def none_open(c):
            return c.op == 'eq' and ((path_from_param(c.left) == ('self', ['current_stage']) and const_value(c.right) == 'all')
                                     or (path_from_param(c.right) == ('self', ['current_stage']) and const_value(c.left) == 'all'))
        ctx.ob('C16.R5', ss, first.lineno, 'gate: stage name must be new', bool(gate_with(before, name_free, 'ValueError')),
               why='a stage name can be reused', key='stage name gate')
        ctx.ob('C16.R5', ss, first.lineno, 'gate: no other stage may be open', bool(gate_with(before, none_open, 'ValueError')),
               why='a second stage can be opened while one is open', key='one open stage gate')
    pe = es.param_names()[0]
    st_store = [s for s in ffe.stores if s[2] and s[2].startswith('self.stages[')]
    ok_slice = False
    for s in st_store:
        v = strip_refs(s[3])
        if isinstance(v, ast.Call) and isinstance(v.func, ast.Name) and v.func.id == 'slice' and len(v.args) == 2:
            a0, a1 = v.args
            if path_from_param(a0) == ('self', ['current_stage_start']) and is_len_steps(a1) and \
                    isinstance(strip_refs(s[5].slice), Param):
                ok_slice = True
    ctx.ob('C16.R5', es, (st_store[0][0].lineno if st_store else es.node.lineno),
           'end_stage stores slice(start snapshot, len(self.steps)) under the stage name', ok_slice,
           fact=show(st_store[0][3]) if st_store else 'no store', why='stage does not cover exactly its steps',
           key='stage slice')
    from .common import on_every_normal_path
    for _once in (1,):
        recorded = any(on_every_normal_path(s[0], es.node) for s in st_store)
        ctx.ob('C16.R5', es, (st_store[0][0].lineno if st_store else es.node.lineno),
               'every normal path of end_stage records the stage', recorded,
               fact='the store to self.stages is unconditional (every other arm raises)' if recorded else 'a path ends the stage without recording it',
               why='a stage that was opened and closed leaves no record: its name can be used again and queries on it fail',
               key='end_stage path without record')
    reset = store_of(ffe, 'self.current_stage')
    ctx.ob('C16.R5', es, (reset[0][0].lineno if reset else es.node.lineno), "end_stage resets the open stage to 'all'",
           bool(reset) and all(const_value(s[3]) == 'all' for s in reset), why='stage stays open', key='stage reset')
    if st_store:
        before = ffe.state_before(st_store[0][0])

        def matches(c):
            return c.op == 'eq' and {tuple(path_from_param(x)[1]) if path_from_param(x) else None for x in (c.left, c.right)} \
                >= {('current_stage',)} and any(isinstance(strip_refs(x), Param) and strip_refs(x).name == pe
                                                for x in (c.left, c.right))
        ctx.ob('C16.R5', es, st_store[0][0].lineno, 'gate: only the open stage can be ended',
               bool(gate_with(before, matches, 'ValueError')), why='a stage that is not open can be ended',
               key='end_stage gate')
    # bake closes an open stage before iterating
    bake = recipe.methods['bake']
    closes = [(c, s, b) for c, s, b in ffb.calls if isinstance(c.func, ast.Attribute) and c.func.attr == 'end_stage'
              and isinstance(c.func.value, Param)]
    loops = [s for s in bake.node.body if isinstance(s, ast.For) and 'self.steps' in unparse(s.iter)]
    ok = False
    for c, s, b in closes:
        top = s
        while getattr(top, 'parent', None) is not bake.node:
            top = top.parent
        if loops and all(dominates(top, l) for l in loops) and c.args and \
                path_from_param(c.args[0]) == ('self', ['current_stage']):
            ok = True
    ctx.ob('C16.R5', bake, (closes[0][1].lineno if closes else bake.node.lineno),
           'bake closes an open stage before running the steps', ok,
           why='steps of a still-open stage are not attributed to it', key='bake closes stage')
    # ... and only an open one: the close is guarded by a comparison of the open stage with the "no stage open" marker
    # that __init__ / end_stage store (a truth test takes the marker 'all' for an open stage, and '' for none)
    init = recipe.methods.get('__init__')
    marker = None
    if init is not None:
        for st in ast.walk(init.node):
            if isinstance(st, ast.Assign) and any(isinstance(t, ast.Attribute) and t.attr == 'current_stage' for t in st.targets) \
                    and isinstance(st.value, ast.Constant):
                marker = st.value.value
    for c, s, b in closes:
        guard = None
        node_ = s
        while getattr(node_, 'parent', None) is not None and node_ is not bake.node:
            par = node_.parent
            if isinstance(par, ast.If) and any(node_ is x for x in par.body):
                guard = par.test
                break
            node_ = par
        ok_guard = False
        if isinstance(guard, ast.Compare) and len(guard.ops) == 1 and 'current_stage' in unparse(guard.left) + unparse(guard.comparators[0]):
            other = guard.comparators[0] if 'current_stage' in unparse(guard.left) else guard.left
            if isinstance(other, ast.Constant) and other.value == marker:
                ok_guard = isinstance(guard.ops[0], ast.NotEq) or (marker is None and isinstance(guard.ops[0], ast.IsNot))
        ctx.ob('C16.R5', bake, s.lineno, 'bake closes a stage only when one is open (comparison with the marker of "none open")',
               ok_guard, fact=f"guard `{unparse(guard) if guard is not None else 'none'}`; marker {marker!r}",
               why='with a truth test the marker itself counts as an open stage (and an open stage named \'\' as none): '
                   'the record of the stages is overwritten or an open stage is left open', key='bake close guard')

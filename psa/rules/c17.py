"""C17 - remove deletes exactly the selected substances.
Filter predicate + volume recompute + per-well forwarding + non-interference of the recorded trash (D)."""
from __future__ import annotations

import ast

from ..flow import (Ref, Param, LoopVar, Elt, Phi, Acc, Sym, strip_refs, show, pathkey, same_value, deep_walk, walk_no_sym)
from ..model import AnalysisError, unparse, walk_no_nested
from .common import root_of_expr, path_from_param, const_value, floor, call_name, is_call_to
from .c03 import contents_stores, is_attr, is_items_of_contents
from . import c10, c07


def run(ctx):
    from .configtime import derived_values as _derived
    _derived(ctx, 'C17.R4', ('Recipe', 'RecipeStep', 'Container', 'Plate', 'PlateSlicer', 'Slicer'))
    from .configtime import decisions_not_taken_on_display_values as _coarse
    _coarse(ctx, 'C17.R4', ('Container', 'Plate', 'PlateSlicer', 'Recipe', 'RecipeStep'))
    from .c08 import every_declaration_is_recorded as _recorded
    _recorded(ctx, 'C17.R4')
    # per-well amounts gathered with numpy.vectorize need an explicit result type: without it the type of the first
    # well decides, and an empty first well (int 0) truncates every later amount to whole storage units
    from .c15 import t5 as _vectorize_dtype
    _vectorize_dtype(ctx, 'C17.R4', only=('Recipe.bake',), dtype_only=True)
    # contents are keyed by Substance objects: the key laws this property's bookkeeping relies on
    from .identity import identity_discipline as _identity
    _identity(ctx, 'C17.R1', classes=('Substance',), memoised=False)
    model = ctx.model
    fi = model.func('Container.remove')
    ff = ctx.flow('Container.remove')
    what = fi.param_names()[0]
    cs = [c for c in contents_stores(ff) if c[4]]
    if not cs:
        raise AnalysisError('Container.remove no longer builds the kept contents as a whole')
    for stmt, obj, okey, value, whole, rt, before in cs:
        d = filter_descriptor(ff, value)
        if d is None:
            ctx.ob('C17.R1', fi, stmt.lineno, 'kept contents are a filter of the original contents', False,
                   fact=show(value, 80), why='the kept contents are not computed entry by entry', key='remove filter shape')
            continue
        it, key, val, conds = d
        own = is_items_of_contents(it) and isinstance(strip_refs(it.func.value.value), Param) and \
            strip_refs(it.func.value.value).name == fi.param_names(drop_self=False)[0]
        ctx.ob('C17.R1', fi, stmt.lineno, "the filter ranges over the container's own contents", own,
               fact=f"for .. in {show(it, 50)}", why='entries of another container are kept', key='remove filter domain')
        key_ok = isinstance(strip_refs(key), LoopVar) and strip_refs(key).path == (0,)
        val_ok = isinstance(strip_refs(val), LoopVar) and strip_refs(val).path == (1,)
        ctx.ob('C17.R1', fi, stmt.lineno, 'every kept entry keeps its substance and its amount unchanged', key_ok and val_ok,
               fact=f"{{{show(key, 20)}: {show(val, 30)}}}",
               why='the amount of a substance that is not removed changes', key='kept value changed')
        excl = set()
        bad = None
        for c, truth in conds:
            # normal form: the entry is kept when <c> is <truth>
            if isinstance(c, ast.UnaryOp) and isinstance(c.op, ast.Not):
                c, truth = c.operand, not truth
            if isinstance(c, ast.Compare) and len(c.ops) == 1:
                op, l, r = c.ops[0], c.left, c.comparators[0]
                r0 = strip_refs(r) if not isinstance(r, (ast.Tuple, ast.List, ast.Set)) else r
                if ((isinstance(op, ast.NotIn) and truth) or (isinstance(op, ast.In) and not truth)) and \
                        _is_what(l, what) and isinstance(r0, (ast.Tuple, ast.List, ast.Set)):
                    for e in r0.elts:
                        excl.add(_item_role(e))
                    continue
                if (isinstance(op, ast.NotEq) and truth) or (isinstance(op, ast.Eq) and not truth):
                    for a_, b_ in ((l, r), (r, l)):
                        if _is_what(a_, what):
                            excl.add(_item_role(b_))
                            break
                    else:
                        bad = c
                    continue
            bad = c
        ok = bad is None and excl == {'item', 'item._type'}
        ctx.ob('C17.R1', fi, stmt.lineno, 'an entry is kept iff neither the substance nor its class is the selector',
               ok, fact=f"excluded when selector equals {sorted(x for x in excl if x)}" + (f"; unrecognised condition {show(bad, 40)}" if bad is not None else ''),
               why='the filter keeps a selected substance or removes an unselected one', key='remove filter predicate')
    # R2 volume recompute
    c10.pairing(ctx, 'C17.R2', only=('remove',))
    # R3 per-well forwarding
    c07.forwarding(ctx, 'C17.R3', only=('remove',))
    # ... and a remove step of a recipe acts on the wells it addressed
    c07.addressed_selection(ctx, 'C17.R3', only=('remove',))
    # ... and the selection of a slice is the documented one (selector grammar)
    from .c13 import selector_grammar
    selector_grammar(ctx, 'C17.R3')
    from .c10 import cached_results_intact
    cached_results_intact(ctx, 'C17.R4')    # the set of removed substances is not built inside a memoised result
    # R4 trash accounting
    trash(ctx, 'C17.R4')
    return {'explanation': 'R1: the kept contents are a dict comprehension over the container\'s own items whose key and '
                           'value are the bare loop variables (amounts untouched) and whose filter excludes exactly the '
                           'entries whose substance or class equals the selector. R2: the volume is recomputed from the '
                           'kept contents (C10 pairing rule). R3: slices and plates forward to the container method per '
                           'well with the selector unchanged. R4: the amount a recipe records as discarded must '
                           'data-depend on the addressed selection or on the post-state (non-interference). Not '
                           'decided: numerical equality of reported and actual discarded amounts.'}


def filter_descriptor(ff, value):
    """The kept contents as (domain iterable, key, value, [(condition, truth)]): a dict comprehension, or a dict that
    starts empty and is filled entry by entry in one loop with guard clauses."""
    dc = strip_refs(value)
    if isinstance(dc, ast.DictComp) and len(dc.generators) == 1:
        g = dc.generators[0]
        conds = []
        for c in g.ifs:
            if isinstance(c, ast.BoolOp) and isinstance(c.op, ast.And):
                conds.extend((x, True) for x in c.values)
            else:
                conds.append((c, True))
        return strip_refs(g.iter), dc.key, dc.value, conds
    v = value
    while isinstance(v, Ref) and isinstance(v.value, Ref):
        v = v.value
    built = c10.loop_built_dict(ff, v)
    if built is None:
        return None
    loop, elems = built
    if len(elems) != 1:
        return None
    stmt, key, val, guards = elems[0]
    it = ff.resolved.get(id(loop))
    if it is None:
        return None
    return strip_refs(it), key, val, [(f.test, f.truth) for f in guards]


def _is_what(e, what):
    e = strip_refs(e)
    return isinstance(e, Param) and e.name == what


def _item_role(e):
    e0 = strip_refs(e)
    if isinstance(e0, LoopVar) and e0.path == (0,):
        return 'item'
    if isinstance(e0, ast.Attribute) and e0.attr == '_type' and isinstance(strip_refs(e0.value), LoopVar) and \
            strip_refs(e0.value).path == (0,):
        return 'item._type'
    return None


def trash(ctx, rule='C17.R4'):
    model = ctx.model
    bake = model.func('Recipe.bake')
    ff = ctx.flow('Recipe.bake')
    # wells before and after a step are paired by position: both sequences must be the same traversal of the plate
    # (the recorded state before, the recorded state after) - a traversal of the addressed region zipped with a
    # traversal of the whole plate pairs different wells and stops at the shorter one
    import re as _re
    nzip = 0
    for lp in ast.walk(bake.node):
        if not (isinstance(lp, ast.For) and isinstance(lp.iter, ast.Call) and getattr(lp.iter.func, 'id', '') == 'zip'
                and len(lp.iter.args) == 2):
            continue
        texts = [unparse(a, 200) for a in lp.iter.args]
        if not any('wells' in t or '.get()' in t for t in texts):
            continue
        # local names for the recorded states: `before, after = step.to[0], step.to[1]`
        for st_ in ast.walk(bake.node):
            if isinstance(st_, ast.Assign) and len(st_.targets) == 1:
                tg, val = st_.targets[0], st_.value
                pairs = list(zip(tg.elts, val.elts)) if isinstance(tg, ast.Tuple) and isinstance(val, ast.Tuple) and \
                    len(tg.elts) == len(val.elts) else [(tg, val)]
                for t_, v_ in pairs:
                    if isinstance(t_, ast.Name) and _re.fullmatch(r"step\.(to|frm)\[[01]\]", unparse(v_, 40)) and \
                            sum(1 for y in ast.walk(bake.node) if isinstance(y, ast.Name) and y.id == t_.id and isinstance(y.ctx, ast.Store)) == 1:
                        texts = [_re.sub(rf"\b{t_.id}\b", unparse(v_, 40), t) for t in texts]
        nzip += 1
        norm = [_re.sub(r"\[[01]\]", '[K]', t) for t in texts]
        same = norm[0] == norm[1] and texts[0] != texts[1]
        ctx.ob(rule, bake, lp.lineno, 'wells before and after a step are paired through the same traversal of the plate', same,
               fact=f"zip({texts[0][:50]}, {texts[1][:50]})", why='position k of one sequence is another well than position k of '
               'the other (and zip stops at the shorter): what a well lost is computed against a different well',
               key='before/after wells paired through different traversals')
    ctx.count('well_pairings_in_bake', nzip)
    stores = [s for s in ff.stores if s[2] and (s[2] == 'step.trash' or s[2].startswith('step.trash['))]
    floor(ctx, 'stores to step.trash', len(stores), 2)
    for stmt, target, key, value, before, rt in stores:
        from ..dep import data_sources
        srcs = data_sources(value)
        plate_branch = any(isinstance(n, ast.Attribute) and n.attr == 'wells' for n in srcs)
        deps = set()
        for n in srcs:
            k = getattr(n, 'pkey', None)
            if k:
                deps.add(k)
        # a raw read of self.results[..] happens before the step stored anything: that is still the pre-state
        post = any(k.startswith('step.to[1]') for k in deps) or \
            any(isinstance(n, Ref) and (n.name.startswith('self.results[') or n.name == 'step.to[1]') for n in srcs)
        sel = any(isinstance(n, (Ref,)) and n.name == 'dest' for n in srcs)
        pre = any(k.startswith('step.to[0]') for k in deps) or \
            any(isinstance(n, Ref) and n.name == 'step.to[0]' for n in srcs)
        if plate_branch:
            ok = post or sel
            ctx.ob(rule, bake, stmt.lineno, 'trash recorded for a plate / slice depends on the addressed wells',
                   ok, fact=f"value depends on pre-state: {pre}, post-state: {post}, selection: {sel}",
                   why='the discarded amount is summed over all wells of the pre-state for substances that vanished '
                       'from the whole plate: removing from part of a plate records nothing (or too much)',
                   key='plate trash independent of the selection')
        else:
            ctx.ob(rule, bake, stmt.lineno, 'trash recorded for a container is the pre-state amount of each removed '
                                                'substance', pre, fact=f"value depends on pre-state: {pre}",
                   why='the discarded amount is not taken from the state before the removal', key='container trash source')

"""Linear systems in engine U (DESIGN D.4): vectors and matrices are typed entry-wise; at numpy.linalg.solve the units
of the unknowns are inferred from the inhomogeneous rows, propagated through the homogeneous ones, an unknown that no
row constrains means a singular system (raise), and every term of every row must then have one unit.

create_solution is explored for solute lists of one and two substances of every kind combination (vectors of length
2 and 3), create_solution_from for all solute/solvent kinds and both solvent forms."""
from __future__ import annotations

import ast
import itertools

from ..model import AnalysisError, unparse
from ..unitai import (Num, Lit, SymLit, S, Subst, Cont, Tup, ListV, DictV, Other, Obj, NONE, NoneV, Bool, UserStr, KINDS,
                      Raised, Incomplete, explore, is_num)
from ..units import U, ONE, base
from .. import uscan


class Vec(list):
    pass


class Mat(list):
    """list of Vec rows"""
    pass


def _zeros(n):
    return Vec(Lit(0.0) for _ in range(n))


def elementwise(I, node, op, a, b):
    def el(x, i):
        return x[i] if isinstance(x, Vec) else x
    n = max(len(x) for x in (a, b) if isinstance(x, Vec))
    for x in (a, b):
        if isinstance(x, Vec) and len(x) != n:
            raise Raised('ValueError', getattr(node, 'lineno', 0))
    return Vec(I.arith(op, el(a, i), el(b, i), node) for i in range(n))


def binop_hook(I, n, a, b):
    if isinstance(a, Vec) or isinstance(b, Vec):
        if (isinstance(a, Vec) or is_num(a)) and (isinstance(b, Vec) or is_num(b)):
            return elementwise(I, n, n.op, a, b)
    if isinstance(n.op, ast.Mult) and isinstance(a, (ListV, Tup)) and isinstance(b, Lit) and not is_num(a):
        return ListV(list(a) * int(b.v))
    return None


def _as_int(v):
    return int(v.v) if isinstance(v, Lit) and float(v.v).is_integer() else None


def numpy_hook(I, n, name, args, kwargs):
    if name == 'zeros':
        shape = args[0]
        if isinstance(shape, Tup) and len(shape) == 2 and all(_as_int(x) is not None for x in shape):
            return Mat(_zeros(_as_int(shape[1])) for _ in range(_as_int(shape[0])))
        if _as_int(shape) is not None:
            return _zeros(_as_int(shape))
        I.incomplete(n, f"numpy.zeros({shape!r})")
    if name == 'identity':
        k = _as_int(args[0])
        if k is None:
            I.incomplete(n, 'numpy.identity of a non-constant size')
        return Mat(Vec(Lit(1.0) if i == j else Lit(0.0) for j in range(k)) for i in range(k))
    if name == 'roll':
        v, k = args[0], _as_int(args[1])
        if isinstance(v, Vec) and k is not None:
            k %= len(v)
            return Vec(list(v[-k:]) + list(v[:-k])) if k else Vec(v)
        I.incomplete(n, f"numpy.roll({v!r}, {args[1]!r})")
    if name == 'array':
        a = args[0]
        if isinstance(a, (ListV, Tup)) and a and all(isinstance(r, (ListV, Tup)) for r in a):
            return Mat(Vec(r) for r in a)
        if isinstance(a, (ListV, Tup, Vec)):
            return Vec(a)
        I.incomplete(n, f"numpy.array({a!r})")
    if name == 'linalg.solve':
        return solve(I, n, args[0], args[1])
    return None


def solve(I, n, a, b):
    if not (isinstance(a, Mat) and isinstance(b, Vec) and a and len(a) == len(b)):
        I.incomplete(n, 'numpy.linalg.solve of something that is not a typed matrix / vector')
    ncol = len(a[0])
    if ncol != len(a):
        raise Raised('LinAlgError', n.lineno)
    cols = [None] * ncol

    def unit(v, additive=False):
        return I.as_unit(v, n, additive)
    # (1) inhomogeneous rows fix the units of the unknowns they mention
    for row, bi in zip(a, b):
        ub = unit(bi, True)
        if ub is None:
            continue
        for j, e in enumerate(row):
            ue = unit(e)
            if ue is None:
                continue
            c = ub / ue
            if cols[j] is not None:
                I.check_same(cols[j], c, n, 'row-units', f"unknown {j} gets two different units from the constraint rows")
            else:
                cols[j] = c
    # (2) homogeneous rows propagate from known to unknown columns
    changed = True
    while changed:
        changed = False
        for row in a:
            known = [(j, unit(e) * cols[j]) for j, e in enumerate(row) if unit(e) is not None and cols[j] is not None]
            if not known:
                continue
            for j, e in enumerate(row):
                if unit(e) is not None and cols[j] is None:
                    cols[j] = known[0][1] / unit(e)
                    changed = True
    # (3) an unknown no row constrains: a zero column -> singular
    if any(c is None for c in cols):
        raise Raised('LinAlgError', n.lineno)
    # (4) every row has one unit
    for i, (row, bi) in enumerate(zip(a, b)):
        terms = [unit(e) * cols[j] for j, e in enumerate(row) if unit(e) is not None]
        for t in terms[1:]:
            I.check_same(terms[0], t, n, 'row-units', f"terms of constraint row {i} have different units")
        ub = unit(bi, True)
        if ub is not None and terms:
            I.check_same(terms[0], ub, n, 'row-units', f"left and right side of constraint row {i} differ")
    return Vec(Num(c) for c in cols)


def subscript_hook(I, n, o, i):
    if isinstance(o, (Mat, Vec)):
        sl = n.slice
        if isinstance(sl, ast.Slice):
            lo = I.ev(sl.lower) if sl.lower is not None else None
            hi = I.ev(sl.upper) if sl.upper is not None else None
            li = _as_int(lo) if lo is not None else None
            hi_ = _as_int(hi) if hi is not None else None
            if (lo is not None and li is None) or (hi is not None and hi_ is None):
                I.incomplete(n, 'matrix slice with a non-constant bound')
            return type(o)(o[li:hi_])
        k = _as_int(i)
        if k is None:
            I.incomplete(n, f"index {i!r} into a typed vector")
        if not -len(o) <= k < len(o):
            raise Raised('IndexError', n.lineno)
        return o[k]
    return None


def store_hook(I, target, o, v):
    if isinstance(o, (Mat, Vec)):
        k = _as_int(I.ev(target.slice))
        if k is None:
            I.incomplete(target, 'store into a typed vector at a non-constant index')
        if not -len(o) <= k < len(o):
            raise Raised('IndexError', target.lineno)
        if isinstance(o, Mat):
            if not isinstance(v, Vec):
                I.incomplete(target, f"matrix row assigned {v!r}")
            if len(v) != len(o[k]):
                raise Raised('ValueError', target.lineno)
            o[k] = Vec(v)
        else:
            o[k] = v
        return True
    return False


def iter_hook(I, it, node):
    if isinstance(it, Vec):
        return list(it)
    if isinstance(it, Mat):
        return list(it)
    return None


def call_hook(I, n, args, kwargs):
    f = n.func
    if isinstance(f, ast.Name) and f.id == 'range' and len(args) == 1 and _as_int(args[0]) is not None:
        return ListV(Lit(i) for i in range(_as_int(args[0])))
    if isinstance(f, ast.Name) and f.id == 'len' and args and isinstance(args[0], (Mat, Vec)):
        return Lit(len(args[0]))
    if isinstance(f, ast.Name) and f.id == 'enumerate' and args:
        vals = I.iterate(args[0], n)
        if not getattr(args[0], 'open', False):
            return ListV(Tup([Lit(i), v]) for i, v in enumerate(vals))
    if isinstance(f, ast.Name) and f.id in ('abs',) and args and isinstance(args[0], Vec):
        return args[0]
    return None


def sum_hook(I, n, vals):
    return None


SOLVER_OPTS = {'binop_hook': binop_hook, 'numpy_hook': numpy_hook, 'subscript_hook': subscript_hook,
               'store_hook': store_hook, 'iter_hook': iter_hook, 'call_hook': call_hook, 'strict_other': True}


# ------------------------------------------------------------------------------------------------ scans
def _variants_create_solution():
    combos = {'concentration+total_quantity': ('concentration', 'total_quantity'),
              'concentration+quantity': ('concentration', 'quantity'),
              'quantity+total_quantity': ('quantity', 'total_quantity')}
    solutes = [[k] for k in KINDS] + [[a, b] for a, b in itertools.product(KINDS, repeat=2)]
    solvents = [('solvent=liquid', lambda: Subst('liquid', 'solvent')), ('solvent=container', lambda: Cont('solventc'))]
    for cname, keys in combos.items():
        for sol in solutes:
            for sname, smk in solvents:
                label = f"{cname} solute={'+'.join(sol)} {sname}"

                def mk(I, keys=keys, sol=sol, smk=smk):
                    kw = DictV()
                    for k in keys:
                        kw[k] = UserStr(k)
                    solute = ListV(Subst(k, f"solute{i}") for i, k in enumerate(sol)) if len(sol) > 1 else Subst(sol[0], 'solute0')
                    return {'solute': solute, 'solvent': smk(), 'name': NONE, 'kwargs': kw}
                yield label, mk


def _variants_distinct_concentrations():
    """Two solutes with two different concentration strings (each with its own unit pair) and a total quantity."""
    for sol in (['solid', 'liquid'], ['liquid', 'enzyme']):
        label = f"concentration[2 distinct]+total_quantity solute={'+'.join(sol)} solvent=liquid"

        def mk(I, sol=sol):
            kw = DictV()
            kw['concentration'] = ListV([UserStr('c0'), UserStr('c1')])
            kw['total_quantity'] = UserStr('total_quantity')
            return {'solute': ListV(Subst(k, f"solute{i}") for i, k in enumerate(sol)), 'solvent': Subst('liquid', 'solvent'),
                    'name': NONE, 'kwargs': kw}
        yield label, mk


def _variants_create_solution_from():
    for sk in KINDS:
        for vk, vmk in (('solvent=liquid', lambda: Subst('liquid', 'solvent')), ('solvent=solid', lambda: Subst('solid', 'solvent')),
                        ('solvent=container', lambda: Cont('solventc'))):
            label = f"solute={sk} {vk}"

            def mk(I, sk=sk, vmk=vmk):
                return {'source': Cont('source'), 'solute': Subst(sk, 'solute'), 'concentration': UserStr('concentration'),
                        'solvent': vmk(), 'quantity': UserStr('quantity'), 'name': NONE}
            yield label, mk


def scan_solver(ctx, qualname, quick_subset=True):
    key = (ctx.model.serial, qualname, 'solver', ctx.tier)
    if key in uscan._cache:
        return uscan._cache[key]
    fi = ctx.model.func(qualname)
    sc = uscan.Scan(qualname)
    gen = _variants_create_solution() if qualname.endswith('create_solution') else _variants_create_solution_from()
    opts = dict(SOLVER_OPTS)
    try:
        for label, mk in gen:
            if ctx.tier == 'quick' and qualname.endswith('create_solution') and quick_subset:
                # quick tier: single solutes of every kind, plus the mixed pairs enzyme+solid / liquid+enzyme
                sol = label.split('solute=')[1].split(' ')[0]
                if '+' in sol and sol not in ('enzyme+solid', 'liquid+enzyme'):
                    continue
            R = explore(ctx.model, fi, mk, opts)
            sc.add(label, R)
        if qualname.endswith('create_solution'):
            o2 = dict(opts)
            if ctx.tier == 'quick':
                o2['pc_nums'] = ('mol', 'g', 'L')
                o2['pc_dens'] = ('mol', 'g', 'L')
                o2['pq_bases'] = ('L', 'g')
            for label, mk in list(_variants_distinct_concentrations())[:(1 if ctx.tier == 'quick' else 2)]:
                sc.add(label, explore(ctx.model, fi, mk, o2))
    except Incomplete as exc:
        sc.incomplete = str(exc)
    uscan._cache[key] = sc
    return sc

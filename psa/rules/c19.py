"""C19 - Instructions and human-readable quantities state the true amounts.
Units at display sinks (U) + rescale invariant + same source (D)."""
from __future__ import annotations

import ast

from ..flow import (Ref, Param, LoopVar, Elt, Phi, Acc, Sym, strip_refs, show, pathkey, same_value, deep_walk, walk_no_sym)
from ..model import AnalysisError, unparse, walk_no_nested
from .common import root_of_expr, path_from_param, const_value, floor, call_name, is_call_to
from . import targets, unitspec
from .. import uscan

DISPLAY_CATS = ('display', 'hr-base', 'std-format', 'display-truncation', 'truncating-division', 'convert-from-unit', 'storage-label')
FEED_CATS = DISPLAY_CATS + ('convert-from-unit', 'qstr', 'storage-label', 'add-units', 'sum-mix', 'from-storage',
                            'prefix-strip')


def run(ctx):
    from .configtime import refusals_not_swallowed as _no_swallow
    _no_swallow(ctx, 'C19.R3')
    from .configtime import derived_values as _derived
    _derived(ctx, 'C19.R1', ('Container', 'Recipe', 'RecipeStep', 'Unit', 'Plate', 'PlateSlicer'))
    stated_amounts_before_mixing(ctx, 'C19.R3')
    stated_amounts_read_from_final_state(ctx, 'C19.R3')
    from .configtime import late_binding_closures as _late
    _late(ctx, 'C19.R2', classes=('Recipe', 'RecipeStep', 'Container', 'PlateSlicer'))
    from .configtime import groupby_on_sorted_input as _groupby
    _groupby(ctx, 'C19.R2', ('Recipe.bake', 'Container._transfer', 'PlateSlicer._transfer', 'Container._transfer_slice'))
    from .configtime import precision_zero_is_a_value as _prec0
    _prec0(ctx, 'C19.R1', classes=None)
    # contents are keyed by Substance objects: the key laws this property's bookkeeping relies on
    from .identity import identity_discipline as _identity
    _identity(ctx, 'C19.R2', classes=('Substance',), memoised=False)
    model = ctx.model
    from . import unitspec as _us
    _us.api_verified(ctx, 'C19.R1')
    n = 0
    for q in ('Container.__init__', 'Container.__init__#contents', 'Container._transfer', 'Container.dilute',
              'Container.fill_to', 'Container.dataframe'):
        sc = targets.scan(ctx, q)
        n += uscan.report_sinks(ctx, lambda cat: 'C19.R1' if cat in DISPLAY_CATS else None, sc,
                                fi=model.func(q.split('#')[0]))
    from .solver import scan_solver
    from .c12 import _without_enzyme_solute
    for q in ('Container.create_solution', 'Container.create_solution_from'):
        sc = scan_solver(ctx, q) if q.endswith('create_solution') else _without_enzyme_solute(ctx, None)
        n += uscan.report_sinks(ctx, lambda cat: 'C19.R1' if cat in DISPLAY_CATS else None, sc)
    sc = targets.scan_bake(ctx)
    n += uscan.report_sinks(ctx, lambda cat: 'C19.R1' if cat in FEED_CATS else None, sc)
    floor(ctx, 'display-related sink sites', n, 10)
    ctx.count('bake_variants', sc.variants)
    # instruction-building statements (anchor floor)
    nins = 0
    for fi in model.functions('pyplate/pyplate.py'):
        if fi.parent is None:
            for node in ast.walk(fi.node):
                if isinstance(node, ast.Attribute) and node.attr == 'instructions' and isinstance(node.ctx, ast.Store):
                    nins += 1
    floor(ctx, 'statements building .instructions', nins, 8)
    # R2 rescale invariant
    unitspec.rescale_helpers(ctx, 'C19.R2')
    # R3 same source
    same_source(ctx)
    return {'explanation': 'R1 (display sinks): in every f-string that prints an amount, the unit text printed after a '
                           'number must be the unit the number is expressed in (units engine; the pair comes from one '
                           'call of get_human_readable_unit / convert_from_storage_to_standard_format, whose value '
                           'argument must be in the base unit, or the number is in the literal unit printed); checked '
                           'in the constructors, transfer, dilute, fill_to, both solution builders, the container table '
                           'and the dilute/fill_to branches of bake for all substance kinds. R2: the two rescaling '
                           'helpers return (value, unit) pairs that agree on every path (paired update of value and '
                           'multiplier, bounded loop). R3: the quantity printed derives from the quantity applied. '
                           'Not decided: correctness to the displayed precision, wording.'}


def same_source(ctx):
    model = ctx.model
    for name in ('dilute', 'fill_to'):
        fi = model.func(f"Container.{name}")
        ff = ctx.flow(fi.qualname)
        adds = [(c, s, b) for c, s, b in ff.calls if is_call_to(c, '_add')]
        convs = [(c, s, b) for c, s, b in ff.calls if is_call_to(c, 'convert') and len(c.args) == 3 and
                 const_value(c.args[2]) == 'L']
        ok = False
        fact = f"{len(adds)} add call(s), {len(convs)} conversion(s) to L for display"
        if adds and convs:
            a = adds[0][0]
            # every add of the operation (a second one in an `except` branch that tops up "to the brim" included) adds the
            # amount the instruction states
            ok = all(any(same_value(c.args[1], a_.args[1]) or strip_refs(c.args[1]) is strip_refs(a_.args[1]) for c, s, b in convs)
                     for a_, s_, b_ in adds) \
                and all(same_value(c.args[0], a.args[0]) or strip_refs(c.args[0]) is strip_refs(a.args[0]) for c, s, b in convs)
            fact = f"printed volume = convert({show(convs[0][0].args[0], 15)}, {show(convs[0][0].args[1], 40)}, 'L'); added = {show(a.args[1], 40)}"
        ctx.ob('C19.R3', fi, (convs[0][1].lineno if convs else fi.node.lineno),
               f"{name}: the volume printed is the volume of the very amount that is added", ok, fact=fact,
               why='the instruction names another amount than the one added', key=f"{name} printed amount source")
    # recipe steps print the user's strings verbatim
    bake = model.func('Recipe.bake')
    ff = ctx.flow('Recipe.bake')
    n = 0
    for stmt, target, key, value, before, rt in ff.stores:
        if key != 'step.instructions':
            continue
        v = strip_refs(value)
        js = [x for x in walk_no_sym(v) if isinstance(x, ast.JoinedStr)] if not isinstance(v, Sym) else []
        for j in js:
            for fv in j.values:
                if not isinstance(fv, ast.FormattedValue):
                    continue
                e = fv.value
                e0 = strip_refs(e)
                if isinstance(e0, Elt) and _from_operands(e0):
                    n += 1
                    ok = isinstance(e, (Ref, Elt))
                    ctx.ob('C19.R3', bake, stmt.lineno, f"step instruction prints the operand `{show(e, 30)}` verbatim", ok,
                           fact='the formatted value is the step operand itself', nontrivial=False,
                           why='the instruction text shows a modified operand', key='operand not verbatim')
    floor(ctx, 'verbatim operands in step instructions', n, 3)
    # amounts printed by bake are computed from the state before / after this step, not from the declared objects
    from .c08 import stale_state_reads
    stale_state_reads(ctx, 'C19.R3')
    transfer_display_prestate(ctx, 'C19.R3')


def transfer_display_prestate(ctx, rule):
    """The amount a transfer instruction states is a fraction `ratio * X` of the source: X must be read from the state
    before the per-substance update (a fraction of what is left afterwards is not what was moved)."""
    from .c03 import find_ratio, strip_clamp
    from ..flow import definitions_of
    model = ctx.model
    fi = model.func('Container._transfer')
    ff = ctx.flow(fi.qualname)
    found = find_ratio(ff)
    if found is None:
        return
    ratio_val, loop = found
    entry = ff.state_before(loop)
    rid = {d.defid for d in definitions_of(ratio_val) if isinstance(d, Ref)} | \
          {d.defid for d in definitions_of(strip_clamp(ratio_val)) if isinstance(d, Ref)}
    if isinstance(ratio_val, Ref):
        rid.add(ratio_val.defid)

    def is_ratio(x):
        return isinstance(x, Ref) and (x.defid in rid or any(isinstance(d, Ref) and d.defid in rid for d in definitions_of(x)))
    n = 0
    for stmt, target, key, value, before, rt in ff.stores:
        if not (key or '').endswith('.instructions'):
            continue
        for m in deep_walk(value):
            if not (isinstance(m, ast.BinOp) and isinstance(m.op, ast.Mult)):
                continue
            sides = [(m.left, m.right), (m.right, m.left)]
            for r, x in sides:
                if not is_ratio(r):
                    continue
                n += 1
                late = []
                for q in deep_walk(x, follow_refs=False):
                    its = [q.iter] if isinstance(q, LoopVar) else [q]
                    for it in its:
                        for p_ in deep_walk(it, follow_refs=False):
                            k = getattr(p_, 'pkey', None)
                            if k and (k.endswith('.contents') or '.contents[' in k) and getattr(p_, 'ver', None) is not None:
                                base = k.split('.contents')[0] + '.contents'
                                if p_.ver > entry.vers.get(k, entry.vers.get(base, 0)):
                                    late.append(k)
                ctx.ob(rule, fi, getattr(m, 'lineno', stmt.lineno), 'the stated amount is a fraction of the source before the transfer',
                       not late, fact=f"ratio * {show(x, 40)}" + (f": reads {sorted(set(late))} after the update" if late else ''),
                       why='the instruction states a fraction of what is left after the transfer, not of what was there',
                       key='displayed fraction of the post-transfer state')
    ctx.count('displayed_fractions', n)


def _from_operands(e):
    v = e.value
    while isinstance(v, (Ref, Elt)):
        v = v.value
    return isinstance(v, ast.Attribute) and v.attr == 'operands'


def stated_amounts_before_mixing(ctx, rule):
    """create_solution states "Add <amount> of <solute> ..": the amounts are those that were added, read from the new
    container as it was built from the solved amounts.  Read after the solvent container was poured in, they include
    whatever solute the solvent container already held."""
    import ast as _ast
    from ..flow import Ref, Elt, deep_walk, strip_refs, show
    model = ctx.model
    fi = model.func('Container.create_solution')
    ff = ctx.flow('Container.create_solution')
    n = 0
    for c, s_, b in ff.calls:
        if not (isinstance(c.func, _ast.Attribute) and c.func.attr == 'append' and c.args):
            continue
        arg = c.args[0]
        if not any(isinstance(x, _ast.JoinedStr) for x in deep_walk(arg)):
            continue
        n += 1
        after_mix = None
        for x in deep_walk(arg):
            if isinstance(x, (Ref, Elt)):
                v = x.value if isinstance(x, Ref) else x.value
                v = strip_refs(v) if not isinstance(v, _ast.Call) else v
                if isinstance(v, _ast.Call) and isinstance(v.func, _ast.Attribute) and v.func.attr in ('transfer', '_transfer', '_add', '_self_add'):
                    after_mix = show(v, 60)
        ctx.ob(rule, fi, s_.lineno, 'the amounts stated for the solutes are read before the solvent is mixed in', after_mix is None,
               fact=(f"read from the result of `{after_mix}`" if after_mix else 'read from the container built from the solved amounts'),
               why='a solvent container that already holds some of the solute makes the instruction state more than was added',
               key='stated solute amounts read after mixing')
    ctx.count('stated_amount_sites', n)


def _base_name(e):
    """`X` of `X.contents`, `X.contents[k]`, `X.contents.items()` .. (None when the base is not a plain name)."""
    while isinstance(e, (ast.Subscript, ast.Call, ast.Attribute)):
        if isinstance(e, ast.Attribute) and e.attr in ('contents', 'volume') and isinstance(e.value, ast.Name):
            return e.value.id
        e = e.func if isinstance(e, ast.Call) else e.value
    return None


def _common_loop(a, b, top):
    def loops(n):
        out, p = set(), getattr(n, 'parent', None)
        while p is not None and p is not top:
            if isinstance(p, (ast.For, ast.While)):
                out.add(id(p))
            p = getattr(p, 'parent', None)
        return out
    return bool(loops(a) & loops(b))


def stated_amounts_read_from_final_state(ctx, rule):
    """An instruction that is composed from the state of a container (`X.contents`, `X.volume`) states the amounts the
    container holds when the operation is over.  A read that sits in a loop which also changes X (a call of
    `X._self_add`, a store into `X.contents`/`X.volume`) sees the running total of the entries handled so far: an
    entry that names a substance a second time is then stated with the accumulated amount, and once per entry."""
    model = ctx.model.plain()
    n = 0
    for fi in model.functions('pyplate/pyplate.py'):
        if fi.parent is not None:
            continue
        stores = [s for s in walk_no_nested(fi.node) if isinstance(s, (ast.Assign, ast.AugAssign)) and
                  any(isinstance(t, ast.Attribute) and t.attr == 'instructions'
                      for t in (s.targets if isinstance(s, ast.Assign) else [s.target]))]
        if not stores:
            continue
        # backward slice over local names: everything the instruction text is composed from
        exprs, names, seen = [s.value for s in stores], set(), set()
        defs = {}
        last = max(s.lineno for s in stores)

        def _names(t):
            if isinstance(t, ast.Name):
                return [t.id]
            if isinstance(t, (ast.Tuple, ast.List)):
                return [x for e in t.elts for x in _names(e)]
            if isinstance(t, ast.Starred):
                return _names(t.value)
            return []       # a store into an attribute or an element defines no local name
        for s in walk_no_nested(fi.node):
            if getattr(s, 'lineno', 0) > last:
                continue    # (definitions after the last instruction store do not reach it)
            if isinstance(s, ast.Assign):
                for t in s.targets:
                    for nm in _names(t):
                        defs.setdefault(nm, []).append((s, s.value))
            elif isinstance(s, ast.AugAssign) and isinstance(s.target, ast.Name):
                defs.setdefault(s.target.id, []).append((s, s.value))
            elif isinstance(s, ast.For):
                for nm in _names(s.target):
                    defs.setdefault(nm, []).append((s, s.iter))
            elif isinstance(s, ast.Expr) and isinstance(s.value, ast.Call) and isinstance(s.value.func, ast.Attribute) and \
                    s.value.func.attr in ('append', 'extend', 'insert') and isinstance(s.value.func.value, ast.Name):
                defs.setdefault(s.value.func.value.id, []).extend((s, a) for a in s.value.args)
        reads = []
        while exprs:
            e = exprs.pop()
            if id(e) in seen:
                continue
            seen.add(id(e))
            local = {nm.id for c in ast.walk(e) if isinstance(c, ast.comprehension) for nm in ast.walk(c.target)
                     if isinstance(nm, ast.Name)}
            for x in ast.walk(e):
                if isinstance(x, ast.Name) and (x.id, x.lineno) not in names and x.id not in local:
                    names.add((x.id, x.lineno))
                    for d, val in defs.get(x.id, []):
                        if isinstance(d, ast.For):
                            if d.lineno <= x.lineno <= d.end_lineno:      # a loop variable is used in its loop
                                exprs.append(val)
                        elif d.lineno <= x.lineno or _common_loop(d, x, fi.node):
                            exprs.append(val)
                if isinstance(x, ast.Attribute) and x.attr in ('contents', 'volume') and isinstance(x.value, ast.Name) and \
                        isinstance(x.ctx, ast.Load):
                    reads.append(x)
        for r in reads:
            base = r.value.id
            loops, p = [], getattr(r, 'parent', None)
            while p is not None and p is not fi.node:
                if isinstance(p, (ast.For, ast.While)):
                    loops.append(p)
                p = getattr(p, 'parent', None)
            bad = None
            for lp in loops:
                for s in ast.walk(lp):
                    if isinstance(s, ast.Call) and isinstance(s.func, ast.Attribute) and s.func.attr in ('_self_add',) and \
                            isinstance(s.func.value, ast.Name) and s.func.value.id == base:
                        bad = s
                    elif isinstance(s, (ast.Assign, ast.AugAssign)):
                        for t in (s.targets if isinstance(s, ast.Assign) else [s.target]):
                            if isinstance(t, (ast.Subscript, ast.Attribute)) and _base_name(t) == base:
                                bad = s
            n += 1
            ctx.ob(rule, fi, r.lineno, f"`{unparse(r)}` stated in the instruction is read when `{base}` is complete", bad is None,
                   fact=(f"read in the loop at line {loops[-1].lineno} that also runs `{unparse(bad)[:60]}`" if bad is not None
                         else f"no change of `{base}` in a loop around the read ({len(loops)} loop(s))"),
                   why='the instruction states running totals: a substance named by two entries is stated twice, the second time with the sum',
                   key=f"instruction reads {base}.{r.attr} inside the loop that changes it")
    floor(ctx, 'state reads composing an instruction', n, 2)

"""C04 - Values are immutable: operations never modify their arguments, even on failure.
Freshness / ownership analysis (engine O) of every mutation event in the four modules."""
from __future__ import annotations

import ast

from ..effects import receiver_effects, mutating_call_oracle
from ..flow import Param, Ref, strip_refs, show, pathkey
from ..fresh import Fresh, VALUE_CLASSES, BUILDER_CLASSES, WRITABLE, FRESH, SHELL, _selfname
from ..model import AnalysisError, unparse
from .common import floor, root_of_expr


def summary_eligible(fi):
    """Methods that are *meant* to mutate their receiver: constructors, private helpers, property setters and the
    array infrastructure of class Slicer.  Their effects are checked at every call site instead."""
    top = fi
    while top.parent is not None:
        top = top.parent
    if top.cls is None:
        return False
    return top.name == '__init__' or top.name.startswith('_') and not top.name.startswith('__') or top.is_setter or \
        top.cls.name == 'Slicer'


def rooted_at_self(ev):
    """Is the event's target rooted at the `self` of the (outermost) method?"""
    return ev.why.startswith('parameter ') and ev.why == f"parameter {_selfname(ev.fi)}"


def run(ctx):
    from .configtime import derived_values as _derived
    _derived(ctx, 'C04.R1', ('Slicer', 'PlateSlicer', 'Plate', 'Container'))
    from .configtime import no_shared_mutable_defaults as _mutdef
    _mutdef(ctx, 'C04.R1', classes=None)
    model = ctx.model
    fr = Fresh(model, mutating_call_oracle(model))
    events = []
    analysed = 0
    for fi in model.funcs.values():
        if fi.parent is not None:
            continue
        if fi.mod.rel not in ('pyplate/pyplate.py', 'pyplate/slicer.py', 'pyplate/experiment_design.py'):
            continue
        evs = fr.analyse(fi)
        analysed += 1
        ctx.functions_analysed.add(fi.qualname)
        for e in evs:
            e.top = fi
        events.extend(evs)
    floor(ctx, 'functions analysed for mutation events', analysed, 60)
    floor(ctx, 'mutation events', len(events), 100)
    ctx.count('mutation_events', len(events))
    ctx.count('closures_analysed', fr.stats['closures'])
    n_value = 0
    summaries = {}
    # a Substance is a value too (documented immutable): a store to one of its attributes anywhere in the library
    sub_attrs = tuple('.' + a for a in sorted(model.instance_attrs('Substance')) if a not in ('name',))
    for e in events:
        top = e.top
        cname = top.cls.name if top.cls is not None else None
        in_value = cname in VALUE_CLASSES
        in_builder = cname in BUILDER_CLASSES
        # relevance: objects of the value classes (or of the builder, whose rules are OWNED)
        relevant = in_value or in_builder or any(a in e.target_text for a in ('.contents', '.volume', '.wells',
                                                 '.plate', '.instructions', '.max_volume') + sub_attrs)
        if not relevant:
            continue
        n_value += 1
        if e.ok:
            ctx.ob('C04.R1', top, e.line, f"{e.desc} [{_where(e)}]", True, fact=f"{e.cls}: {e.why}",
                   key=f"mutation {e.target_text}")
            continue
        if rooted_at_self(e) and summary_eligible(e.fi):
            summaries.setdefault(top.qualname, []).append(e)
            ctx.ob('C04.R1', top, e.line, f"{e.desc} [{_where(e)}]", True,
                   fact=f"receiver mutation of a private/setter/constructor/Slicer helper: checked at its call sites",
                   key=f"summary {e.target_text}", nontrivial=False)
            continue
        rule = 'C04.R2' if 'shallow copy' in e.why else 'C04.R4' if e.cls == 'CACHED' else \
            'C04.R3' if in_builder else 'C04.R1'
        ctx.ob(rule, top, e.line, f"{e.desc} [{_where(e)}]", False, fact=f"{e.cls}: {e.why}",
               why=f"mutates an object that is not fresh in this activation ({e.why}): a caller's object changes",
               key=f"mutation of non-fresh object: {e.target_text}")
    floor(ctx, 'mutation events on value/builder objects', n_value, 40)

    # ---- the PlateSlicer.array setter reached from Slicer.__init__ must be an identity store
    ps = model.cls('PlateSlicer')
    if 'array' in ps.setters:
        init = ps.methods.get('__init__')
        ok, fact = False, 'PlateSlicer.__init__ not found'
        if init is not None:
            ff = ctx.flow('PlateSlicer.__init__')
            plate_store = [s for s in ff.stores if s[2] == 'self.plate']
            supers = [(c, s, b) for c, s, b in ff.calls if isinstance(c.func, ast.Attribute) and c.func.attr == '__init__'
                      and isinstance(c.func.value, ast.Call) and getattr(c.func.value.func, 'id', '') == 'super']
            fact = f"{len(plate_store)} store(s) to self.plate, {len(supers)} super().__init__ call(s)"
            if plate_store and supers:
                c, s, b = supers[0]
                a0 = strip_refs(c.args[0]) if c.args else None
                pv = strip_refs(plate_store[0][3])
                ok = isinstance(a0, ast.Attribute) and a0.attr == 'wells' and strip_refs(a0.value) is pv and \
                    ff.seq(plate_store[0][0]) < ff.seq(s)
                fact = f"super().__init__({show(c.args[0], 40) if c.args else ''}, ..) after self.plate = {show(plate_store[0][3], 30)}"
        sl_init = model.func('Slicer.__init__')
        array_stores = []
        for fi in model.funcs.values():
            for n in ast.walk(fi.node) if fi.parent is None else []:
                if isinstance(n, ast.Attribute) and n.attr == 'array' and isinstance(n.ctx, ast.Store):
                    array_stores.append((fi, n))
        only_ctor = all(fi.qualname == 'Slicer.__init__' for fi, n in array_stores)
        ctx.ob('C04.R1', sl_init, sl_init.node.lineno,
               'the array setter of PlateSlicer is only reached from the constructor and stores plate.wells into '
               'plate.wells (identity)', ok and only_ctor, fact=fact,
               why='constructing a slice re-points the wells of the plate it is taken from',
               key='array setter identity')

    # ---- results of operations are new objects: callers (and users) treat them as their own
    ops = ['Container._add', 'Container._transfer', 'Container._transfer_slice', 'Container.remove', 'Container.dilute',
           'Container.fill_to', 'Container.create_solution', 'Container.create_solution_from', 'PlateSlicer.remove',
           'PlateSlicer.fill_to', 'Plate.remove', 'Plate.fill_to']
    relied = set()
    for e in events:
        if e.ok and e.why.startswith('result of the operation '):
            relied.add(e.why.split('result of the operation ')[1].split('(')[0])
    ctx.count('operations_whose_results_are_mutated_by_callers', len(relied))
    nret = 0
    for q in ops:
        if q.split('.')[1] not in relied and not (q.split('.')[1] in ('_transfer', '_transfer_slice') and 'transfer' in relied):
            continue
        fi = model.func(q)
        ff = ctx.flow(q)
        for ex in ff.normal_exits():
            if ex.kind != 'return' or ex.value is None:
                continue
            v = ex.value
            elts = v.elts if isinstance(v, ast.Tuple) else (v.value.elts if isinstance(v, Ref) and isinstance(v.value, ast.Tuple) else [v])
            for i, e in enumerate(elts):
                nret += 1
                cls, why = fr.classify(e, ex.state, ff)
                ok = cls == FRESH
                ctx.ob('C04.R1', fi, ex.line, f"{q} returns a new object (result {i} at line {ex.line})", ok,
                       fact=f"{cls}: {why}", why='an operation hands back one of its arguments (or a shared object): what '
                       'the caller then does to the "result" happens to the argument', key=f"returned object not fresh in {q}")
    floor(ctx, 'returned objects of operations', nret, 4)

    # ---- R3: what the recipe keeps is a deep copy / a fresh result
    recipe = model.cls('Recipe')
    nres = 0
    for m in recipe.methods.values():
        ff = ctx.flow(m.qualname)
        for stmt, target, key, value, before, rt in ff.stores:
            if key and key.startswith('self.results['):
                nres += 1
                vals = [value]
                v0 = strip_refs(value)
                from ..flow import Elt
                cls, why = _kept_class(fr, value, before, ff)
                ctx.ob('C04.R3', m, stmt.lineno, f"object kept in self.results by {m.name}", cls == FRESH,
                       fact=f"{cls}: {why}", why='the recipe keeps (and later returns) an object shared with the caller',
                       key=f"results value not fresh in {m.name}")
    floor(ctx, 'stores into self.results', nres, 8)

    # reading must not write: `contents` is a plain dict.  In a defaultdict (or Counter) a subscript read of a missing
    # key inserts it, so an observer asked about a substance the container does not hold changes the container
    inserting = []
    for fi in model.funcs.values():
        if fi.mod.rel != 'pyplate/pyplate.py':
            continue
        for st in ast.walk(fi.node):
            if isinstance(st, (ast.Assign, ast.AnnAssign)) and st.value is not None:
                tg = st.targets if isinstance(st, ast.Assign) else [st.target]
                if any(isinstance(t, ast.Attribute) and t.attr == 'contents' for t in tg):
                    for c in ast.walk(st.value):
                        if isinstance(c, ast.Call) and unparse(c.func).split('.')[-1] in ('defaultdict', 'Counter'):
                            inserting.append((fi, st.lineno, unparse(st, 70)))
    anchor_fi = model.func('Container.__init__')
    for fi, line, txt in inserting:
        ctx.ob('C04.R1', fi, line, 'contents is a mapping whose reads do not insert', False, fact=txt,
               why='a subscript read of an absent substance adds it with amount 0: observers (get_concentration, dilute '
                   'looking up its solvent) modify the container they are asked about', key='contents reads insert')
    ctx.ob('C04.R1', anchor_fi, anchor_fi.node.lineno, 'contents is a plain dict everywhere it is created', not inserting,
           fact=f"{len(inserting)} inserting mapping(s)", why='see the reports', key='contents mapping type', nontrivial=False)
    return {'explanation': 'Freshness/ownership analysis: every mutation event of pyplate.py, slicer.py and '
                           'experiment_design.py (attribute/subscript/augmented stores, in-place container methods, '
                           'calls of receiver-mutating repo methods, writes through numpy views, and the closures '
                           'registered with apply/vectorize/frompyfunc analysed with the environment of their '
                           'registration site) must target an object that is FRESH (constructor, deepcopy, result of an '
                           'operation), LOCAL, builder-OWNED, or a direct field of a shallow copy. The rule holds per '
                           'statement on every path, so it also covers calls that raise part-way and every argument '
                           'position. Receiver mutation is allowed only in constructors, private helpers, setters and '
                           'the Slicer array helpers, whose call sites must pass fresh receivers. Values from '
                           '@cache methods are never mutated.',
            'exhaustive': True,
            'coverage': {'mutation_events': len(events), 'closures_at_registration_sites': fr.stats['closures'],
                         'functions': analysed}}


def _where(e):
    return e.fi.qualname


def _kept_class(fr, value, state, ff):
    """Class of a value stored into self.results: every alternative must be fresh or one of the recipe's own copies
    (a read of self.results[..])."""
    from ..flow import Phi, Elt
    from .common import path_from_param
    todo, seen = [value], set()
    worst = (FRESH, 'every alternative is a fresh object or one of the recipe\'s own copies')
    while todo:
        v = todo.pop()
        if id(v) in seen:
            continue
        seen.add(id(v))
        sv = v
        if isinstance(sv, Ref) and isinstance(sv.value, (Phi, ast.IfExp)):
            sv = sv.value
        if isinstance(sv, Phi):
            todo.extend(sv.options)
            continue
        if isinstance(sv, ast.IfExp):
            todo.extend([sv.body, sv.orelse])
            continue
        p = path_from_param(sv)
        if p is not None and p[0] == 'self' and p[1][:2] == ['results', '[]']:
            continue
        cls, why = fr.classify(sv, state, ff)
        if cls != FRESH:
            # a field of one of the alternatives (source.plate): look through
            base = strip_refs(sv)
            if isinstance(base, ast.Attribute):
                todo.append(base.value)
                continue
            worst = (cls, why)
    return worst

"""C05 - create_solution meets every stated constraint or refuses.
Units typing of the constraint rows + gates (engines U, F)."""
from __future__ import annotations

import ast

from ..flow import (Ref, Param, LoopVar, Elt, Phi, Acc, Sym, strip_refs, show, pathkey, same_value, deep_walk, walk_no_sym)
from ..model import AnalysisError, unparse, walk_no_nested
from .common import root_of_expr, path_from_param, const_value, floor, call_name, is_call_to, dominates
from .c03 import solver_postconditions
from .solver import scan_solver
from .. import uscan

ROW_CATS = ('row-units', 'add-units', 'convert-from-unit', 'qstr', 'qstr-format', 'truncating-division', 'sum-mix', 'compare-units', 'from-storage', 'round-then-scale',
            'to-storage', 'none-arith', 'add-cell')
SOLVENT_CATS = ('storage-label', 'factory-unit', 'storage-compare')


def run(ctx):
    from .configtime import refusals_not_swallowed as _no_swallow
    _no_swallow(ctx, 'C05.R3')
    from .configtime import derived_values as _derived
    _derived(ctx, 'C05.R1', ('Container', 'Unit', 'Substance'))
    from .configtime import recorded_operands_not_mutated as _rec_inplace
    _rec_inplace(ctx, 'C05.R4', ('Recipe.create_solution', 'Container.create_solution'))
    from .configtime import cached_arrays_not_updated_in_place as _cached_arrays
    _cached_arrays(ctx, 'C05.R1', ('Container.create_solution', 'Container.create_solution_from'))
    model = ctx.model
    from . import unitspec as _us
    _us.api_verified(ctx, 'C05.R1')
    # a solvent container is drawn from with Container.transfer by moles: the aliquot is what the solve assumed only
    # if the transfer measures the same total (all non-enzymes)
    from .c02 import transfer_measures
    transfer_measures(ctx, 'C05.R2', units=False)
    fi = model.func('Container.create_solution')
    sc = scan_solver(ctx, 'Container.create_solution')
    n1 = uscan.report_sinks(ctx, lambda cat: 'C05.R1' if cat in ROW_CATS else 'C05.R2' if cat in SOLVENT_CATS else None, sc)
    floor(ctx, 'unit sink sites in create_solution', n1, 5)
    ctx.count('solver_variants', sc.variants)
    # every argument combination / solute kind has an accepting path; refusals are ValueError
    by_variant = {}
    for label, kind, v, line, it in sc.outcomes:
        by_variant.setdefault(label, []).append((kind, v))
    never = sorted(l for l, outs in by_variant.items() if not any(k == 'return' for k, v in outs))
    ctx.ob('C05.R1', fi, fi.node.lineno, 'every argument combination, solute kind and solvent form has an accepting path',
           not never, fact=f"{len(by_variant)} variants explored", why=f"no accepting path for {never[:3]}",
           key='variant never accepted')
    bad_types = sorted({v for outs in by_variant.values() for k, v in outs if k == 'raise' and
                        v not in ('ValueError', 'LinAlgError', 'TypeError')})
    ctx.ob('C05.R3', fi, fi.node.lineno, 'infeasible requests are refused with ValueError (numpy.linalg.LinAlgError is '
                                         'a ValueError); TypeError only for arguments of the wrong type', not bad_types,
           fact=f"raise outcomes: {sorted({v for outs in by_variant.values() for k, v in outs if k == 'raise'})}",
           why=f"refusal with {bad_types}", key='refusal type create_solution')
    # ---- R3 post-conditions
    before = len(ctx.obs)
    solver_postconditions(ctx, 'C05.R3')
    ctx.obs[before:] = [o for o in ctx.obs[before:] if o.func == 'Container.create_solution']
    # ---- R4 aliquot of the solvent container, R5 only named solutes and solvent
    ff = ctx.flow('Container.create_solution')
    transfers = [(c, s, b) for c, s, b in ff.calls if is_call_to(c, 'transfer')]
    floor(ctx, 'solvent aliquot transfers', len(transfers), 1)
    for c, s, b in transfers:
        q = c.args[2]
        src_ok = any(isinstance(n, ast.Subscript) and const_value(n.slice) == -1 for n in deep_walk(q))
        ic = [n for n in deep_walk(q) if isinstance(n, Ref) and n.name == 'initial_contents']
        ctx.ob('C05.R4', fi, s.lineno, 'the solvent portion moved out of the solvent container is the last unknown',
               src_ok and bool(ic), fact=f"quantity argument {show(q, 40)} <- initial_contents[-1]",
               why='the aliquot taken from the solvent container is not the solved solvent amount',
               key='solvent aliquot amount')
        a0 = strip_refs(c.args[0])
        ctx.ob('C05.R4', fi, s.lineno, 'the aliquot is taken from the solvent container given by the caller',
               isinstance(a0, Param) and a0.name == 'solvent', fact=f"source {show(c.args[0], 30)}",
               why='the solvent is taken from another container', key='solvent aliquot source', nontrivial=False)
    # the aliquot is refused when the solvent container holds too little (the transfer's sufficiency gates), and in a
    # recipe the solvent container is the current one
    from .c03 import sufficiency
    from .c08 import current_operands
    sufficiency(ctx, 'C05.R3')
    current_operands(ctx, 'C05.R4', only=('solution',))
    # the container built before the aliquot must not already contain the solvent entry
    ics = [s for s in walk_no_nested(fi.node) if isinstance(s, ast.Assign) and isinstance(s.targets[0], ast.Name)
           and s.targets[0].id == 'initial_contents']
    ok5, fact5 = False, 'initial_contents not found'
    for st in ics:
        v = strip_refs(ff.resolved.get(id(st)))
        gens = [n for n in walk_no_sym(v) if isinstance(n, (ast.GeneratorExp, ast.ListComp))] if v is not None else []
        for g in gens:
            it = strip_refs(g.generators[0].iter)
            if isinstance(it, ast.Call) and isinstance(it.func, ast.Name) and it.func.id == 'zip' and len(it.args) == 2:
                a, b = it.args
                second = strip_refs(b)
                solv = isinstance(second, ast.BinOp) and isinstance(second.op, ast.Add) and \
                    any(isinstance(x, Param) or isinstance(x, Ref) for x in deep_walk(second.left)) and \
                    isinstance(strip_refs(second.right), ast.List) and len(strip_refs(second.right).elts) == 1
                unknowns = isinstance(a, Ref) and isinstance(strip_refs(a), ast.Call) and \
                    'solve' in unparse(strip_refs(a).func)
                elt = g.elt
                pair_ok = isinstance(elt, ast.Tuple) and len(elt.elts) == 2 and isinstance(strip_refs(elt.elts[0]), LoopVar) \
                    and strip_refs(elt.elts[0]).path == (1,) and not g.generators[0].ifs
                ok5 = solv and unknowns and pair_ok
                fact5 = f"zip({show(a, 20)}, {show(b, 40)}) -> {show(elt, 60)}"
    ctx.ob('C05.R5', fi, (ics[0].lineno if ics else fi.node.lineno),
           'the contents of the result are exactly the solved amounts of the named solutes and the solvent', ok5,
           fact=fact5, why='a substance is left out of or added to the result', key='result contents')
    return {'explanation': 'The constraint system of create_solution is interpreted with entry-wise units for solute '
                           'lists of one and two substances of every kind combination (thorough tier: all nine pairs), '
                           'both solvent forms and the three argument combinations, with every unit spelling of the '
                           'concentration and quantity strings as a nondeterministic choice: at numpy.linalg.solve the '
                           'units of the unknowns are inferred from the inhomogeneous rows and propagated through the '
                           'homogeneous ones, every term of every row (also in the residual loop) must have one unit, '
                           'and the strings built from the unknowns must carry exactly the inferred unit (mol / U per '
                           'kind). Effective molar mass and density of a container solvent must be built from stored '
                           'amounts under their storage unit. Post-conditions (all unknowns > 0, residual test over all '
                           'rows), the solvent aliquot and the result contents are checked with the flow engine. Not '
                           'decided: that the numerical solve meets the constraints, conditioning, the 1e-6 tolerance.',
            'coverage': {'variants': sc.variants, 'bound': 'solute lists of length 1 and 2'}}

"""C08 - Baking a recipe equals performing its steps eagerly, in order.
Stale-operand taint (M, D) + write-back + effect sets + order."""
from __future__ import annotations

import ast

from ..effects import receiver_effects
from ..flow import (Ref, Param, LoopVar, Elt, Phi, Acc, Sym, strip_refs, show, pathkey, same_value, deep_walk, walk_no_sym,
                    facts_at, MUTATOR_METHODS)
from ..model import AnalysisError, unparse, walk_no_nested
from .common import root_of_expr, path_from_param, const_value, floor, call_name, is_call_to, gate_with, dominates
from .c09 import bake_branches, _inside, _is_operation, record_protocol, _is_results_ref, OPS

VALUE_TYPES = ('Container', 'Plate', 'PlateSlicer')
STEP_METHOD = {'create_container': 'create_container', 'transfer': 'transfer', 'solution': 'create_solution',
               'solution_from': 'create_solution_from', 'remove': 'remove', 'dilute': 'dilute', 'fill_to': 'fill_to'}


def operand_types(ctx):
    """{operator: [annotation of each operand]} from the RecipeStep(..) construction in the step-adding method."""
    model = ctx.model
    out = {}
    for op, mname in STEP_METHOD.items():
        fi = model.func(f"Recipe.{mname}")
        ctors = [c for c in ast.walk(fi.node) if isinstance(c, ast.Call) and getattr(c.func, 'id', '') == 'RecipeStep']
        if not ctors:
            raise AnalysisError(f"Recipe.{mname}: RecipeStep construction not found")
        c = ctors[0]
        anns = []
        for a in c.args[4:]:
            anns.append((fi.annotation(a.id) or '') if isinstance(a, ast.Name) else '')
        frm_ann = fi.annotation(c.args[2].id) if isinstance(c.args[2], ast.Name) else ''
        out[op] = (anns, c, fi)
    return out


def recorded_operands(ctx, rule, only=None):
    """What a step-adding method records in the step is what the caller passed: each object argument of RecipeStep(..)
    is the parameter itself, a whole plate addressed as `param[:]`, or a container created by this very method - not
    something re-derived from it (its plate, an element of self.results, a sub-selection)."""
    model = ctx.model
    for op, (anns, ctor, fi) in sorted(operand_types(ctx).items()):
        if only is not None and op not in only:
            continue
        f2 = ctx.flow(fi.qualname)
        calls = [c for c, s, b in f2.calls if isinstance(c.func, ast.Name) and c.func.id == 'RecipeStep']
        if not calls:
            raise AnalysisError(f"Recipe.{fi.name}: RecipeStep construction not seen by the flow analysis")
        for c in calls:
            for i, a in enumerate(c.args[2:], start=2):
                raw = c.orig.args[i] if hasattr(c, 'orig') and i < len(c.orig.args) else None
                pname = raw.id if isinstance(raw, ast.Name) else None
                ann = (fi.annotation(pname) or '') if pname else ''
                objectish = any(t in ann for t in ('Container', 'Plate', 'PlateSlicer'))
                v = a
                descr, ok = '', True
                alts = _value_alternatives(v)
                for alt in alts:
                    t = strip_refs(alt)
                    if isinstance(t, Param):
                        continue
                    if isinstance(t, ast.Constant):
                        continue
                    if isinstance(t, ast.Subscript) and isinstance(strip_refs(t.value), Param) and \
                            isinstance(t.slice, ast.Slice) and t.slice.lower is None and t.slice.upper is None and t.slice.step is None:
                        continue        # a whole plate addressed as plate[:]
                    if isinstance(t, ast.Call) and isinstance(t.func, ast.Name) and t.func.id in ('Container', 'Plate'):
                        continue        # created by this step
                    if not objectish and not any(isinstance(n, ast.Attribute) and n.attr in ('plate', 'results', 'wells')
                                                 for n in deep_walk(t)):
                        continue        # plain data (quantities, keyword dicts, names)
                    ok = False
                    descr = show(alt, 60)
                ctx.ob(rule, fi, c.lineno if hasattr(c, 'lineno') else fi.node.lineno,
                       f"Recipe.{fi.name} records argument {i - 2} of the step as it was passed", ok,
                       fact=('the parameter itself / param[:] / a container created here' if ok else f"records {descr}"),
                       why='the step acts on something other than what the caller addressed (e.g. the whole plate '
                           'instead of the slice, or a selection re-derived when the step was declared)',
                       key=f"recorded operand {i - 2} of {fi.name}")


def _value_alternatives(v, depth=0):
    if depth > 8:
        return [v]
    if isinstance(v, Ref):
        return _value_alternatives(v.value, depth + 1) if isinstance(v.value, (Ref, Phi)) else [v]
    if isinstance(v, Phi):
        out = []
        for o in v.options:
            out.extend(_value_alternatives(o, depth + 1))
        return out
    return [v]


def declaration_refusals(ctx, rule):
    """Declaring a step must not refuse a program the eager library accepts: the only value-dependent refusal beyond
    'undeclared object' is the container-into-itself transfer, and it must be limited to two Containers (two regions
    of one plate share a name and are a legal eager transfer)."""
    from ..flow import facts_at
    model = ctx.model
    fi = model.func('Recipe.transfer')
    ff = ctx.flow(fi.qualname)
    n = 0
    for ex in ff.raise_exits():
        if (ex.exc or '') != 'ValueError':
            continue
        cmps = facts_at(ex.state)
        # the raise guarded by an equality of the two operands' names
        name_eq = [c for c in cmps if c.op == 'eq' and c.right is not None and not c.fact.exc and
                   all(any(isinstance(m, ast.Attribute) and m.attr == 'name' for m in deep_walk(x)) for x in (c.left, c.right))]
        if not name_eq:
            continue
        n += 1
        both = set()

        def conjuncts(e):
            e = strip_refs(e)
            if isinstance(e, ast.BoolOp) and isinstance(e.op, ast.And):
                for v in e.values:
                    yield from conjuncts(v)
            else:
                yield e
        for c in cmps:
            if c.op != 'truth':
                continue
            for t in conjuncts(c.left):     # a named temporary holding the conjunction counts like the tests themselves
                if isinstance(t, ast.Call) and getattr(t.func, 'id', '') == 'isinstance' and \
                        unparse(t.args[1].orig if hasattr(t.args[1], 'orig') else t.args[1]) == 'Container' and \
                        isinstance(strip_refs(t.args[0]), Param):
                    both.add(strip_refs(t.args[0]).name)
        ok = len(both) >= 2
        ctx.ob(rule, fi, ex.line, 'Recipe.transfer refuses equal names only for two Containers', ok,
               fact=f"refusal on equal names under isinstance(.., Container) of {sorted(both)}",
               why='a transfer between two regions of one plate (same name) is refused at declaration although the '
                   'eager transfer is legal', key='self-transfer refusal too wide')
    ctx.count('declaration_name_refusals', n)


def classify_operand(a, state, ff, optypes, depth=0):
    """CURRENT / STALE / OTHER for an operand of an operation call in bake."""
    seen = set()
    todo = [a]
    verdicts = []
    while todo:
        v = todo.pop()
        if v is None or id(v) in seen:
            continue
        seen.add(id(v))
        if isinstance(v, Ref) and v.name.startswith('self.results['):
            verdicts.append('CURRENT')
            continue
        if isinstance(v, Ref):
            # a slicer copy whose .plate was re-pointed to the current plate
            key = f"{v.name}.plate"
            if isinstance(v.value, ast.Call) and getattr(v.value.func, 'id', '') in ('deepcopy', 'copy'):
                # (the slice's plate must be the current plate object itself - not a copy of it: two slices of one
                # plate have to share it, and the step's effect has to land in the object that is written back)
                pv = state.env.get(key)
                if pv is not None and _reads_current(pv):
                    verdicts.append('CURRENT')
                    continue
                # the re-pointing store sits in the same branch as the copy (the join dropped the one-sided path)
                rebound = [st for st in ff.stores if st[2] == key and dominates(v.stmt, st[0]) and _reads_current(st[3])]
                if rebound:
                    verdicts.append('CURRENT')
                    continue
                inner = classify_operand(v.value.args[0], state, ff, optypes, depth + 1) if depth < 6 else 'OTHER'
                verdicts.append('STALE' if inner == 'STALE' else inner)
                continue
            todo.append(v.value)
        elif isinstance(v, Phi):
            opts = list(v.options)
            # `if isinstance(x, Container): x = self.results[x.name]`: on the paths where the declared operand reaches
            # the call unchanged it is not a container
            rebound = [o for o in opts if isinstance(o, Ref) and isinstance(getattr(o.stmt, 'parent', None), ast.If)
                       and _is_value_type_test(o.stmt.parent.test, o.name) and any(o.stmt is x for x in o.stmt.parent.body)]
            if rebound:
                opts = [o for o in opts if not (isinstance(strip_refs(o), Elt) or isinstance(o, Elt))] or rebound
            todo.extend(opts)
        elif isinstance(v, ast.IfExp):
            todo.extend([v.body, v.orelse])
        elif isinstance(v, Elt):
            src = strip_refs(v.value)
            if isinstance(src, ast.Attribute) and src.attr == 'operands':
                ann = optypes[v.index] if isinstance(v.index, int) and v.index < len(optypes) else ''
                verdicts.append('STALE' if any(t in ann for t in VALUE_TYPES) else 'OTHER')
            elif isinstance(src, ast.Call):
                verdicts.append('CURRENT' if _is_operation(src.orig if hasattr(src, 'orig') else src) else 'OTHER')
            else:
                todo.append(v.value)
        elif isinstance(v, ast.Subscript):
            k = getattr(v, 'pkey', None) or ''
            if path_from_param(v.value) == ('self', ['results']):
                verdicts.append('CURRENT')
            elif k in ('step.frm[0]', 'step.to[0]'):
                verdicts.append('STALE')        # the object kept when the step was declared (until it is re-bound)
            elif k.startswith('step.frm[') or k.startswith('step.to['):
                verdicts.append('CURRENT')      # a post-state appended by this step
            else:
                todo.append(v.value)
        elif isinstance(v, ast.Attribute):
            if v.attr in ('name',):
                verdicts.append('OTHER')
            else:
                todo.append(v.value)
        else:
            verdicts.append('OTHER')
    if 'STALE' in verdicts:
        return 'STALE'
    if 'CURRENT' in verdicts:
        return 'CURRENT'
    return 'OTHER'


def writeback_origin(ctx, rule):
    """Each result of a pairwise operation in bake goes back under the name its operand was read from."""
    model = ctx.model
    bake = model.func('Recipe.bake')
    ff = ctx.flow('Recipe.bake')
    branches = bake_branches(ctx)
    # each result goes back under the name its operand was read from
    for op, (body, node) in sorted(branches.items()):
        stores = [s for s in ff.stores if s[2] and s[2].startswith('self.results[') and _inside(s[0], node)]
        for stmt, target, key, value, before, rt in stores:
            src = _result_source(value)
            if src is None:
                continue
            call, idx = src
            raw = call.orig if hasattr(call, 'orig') else call
            args = list(call.args)
            if isinstance(call.func, ast.Attribute) and not (isinstance(raw.func.value, ast.Name) and raw.func.value.id in model.classes):
                args = [args[0], call.func.value] + args[1:] if call.func.attr in ('_transfer', '_transfer_slice') else args
            if not isinstance(idx, int) or idx >= len(args) or call_name(call)[1] not in ('transfer', 'create_solution_from'):
                continue
            if call_name(call)[1] == 'create_solution_from' and idx > 0:
                continue            # the last result is the created container, stored under the step's destination
            okey = _origin_key(args[idx], before, ff)
            ok = okey is not None and (same_value(strip_refs(okey), strip_refs(rt.slice)) or _same_name(okey, rt.slice))
            ctx.ob(rule, bake, stmt.lineno, f"`{op}` branch: result {idx} of `{call_name(call)[1]}` goes back under the name "
                                                f"operand {idx} was read from", ok,
                   fact=f"stored under `{show(rt.slice, 20)}`, operand read from `{show(okey, 20) if okey is not None else '?'}`",
                   why='the updated object is stored under another name: one declared object is lost, another overwritten',
                   key=f"write-back name mismatch in {op}")



def _name_roots(e, depth=0):
    """The objects whose name an expression denotes: `x.name`, `x.plate.name`, and conditional / joined choices between
    them (`x.plate.name if isinstance(x, PlateSlicer) else x.name`).  None if it is anything else."""
    if depth > 10:
        return None
    if isinstance(e, Ref):
        return _name_roots(e.value, depth + 1)
    if isinstance(e, Phi):
        parts = [_name_roots(o, depth + 1) for o in e.options]
        return None if any(p_ is None for p_ in parts) else set().union(*parts)
    if isinstance(e, ast.IfExp):
        a, b = _name_roots(e.body, depth + 1), _name_roots(e.orelse, depth + 1)
        return None if a is None or b is None else a | b
    if isinstance(e, ast.Attribute) and e.attr == 'name':
        v = e.value
        if isinstance(strip_refs(v), ast.Attribute) and strip_refs(v).attr == 'plate':
            v = strip_refs(v).value
        r = v
        hops = 0
        while isinstance(r, Ref) and isinstance(r.value, Ref) and hops < 10:
            r = r.value
            hops += 1
        if isinstance(r, Ref):
            return {('ref', r.defid)}
        r0 = strip_refs(r)
        k = getattr(r0, 'pkey', None)
        if k:
            return {('path', k)}
        if isinstance(r0, Param):
            return {('param', r0.name)}
    return None


def _same_name(a, b):
    """Do two name expressions denote the name of the same object (whatever its kind)?"""
    ra, rb = _name_roots(a), _name_roots(b)
    return ra is not None and rb is not None and len(ra) == 1 and ra == rb


def operands_written_back(ctx, rule, only=None):
    """Completeness of the write-back: every current object an operation of bake hands back in updated form (both sides
    of a transfer, the stock of create_solution_from) is stored into self.results in that branch."""
    model = ctx.model
    bake = model.func('Recipe.bake')
    ff = ctx.flow('Recipe.bake')
    branches = bake_branches(ctx)
    n = 0
    for op, (body, node) in sorted(branches.items()):
        if only is not None and op not in only:
            continue
        stores = [s for s in ff.stores if s[2] and s[2].startswith('self.results[') and _inside(s[0], node)]
        stored = []
        for stmt, target, key, value, before, rt in stores:
            src = _result_source(value)
            if src is not None:
                stored.append((call_name(src[0])[1], src[1]))
        seen_calls = set()
        for c, st_, b in ff.calls:
            raw = c.orig if hasattr(c, 'orig') else c
            if not (_is_operation(raw) and _inside(st_, node)) or id(raw) in seen_calls:
                continue
            seen_calls.add(id(raw))
            name = call_name(c)[1]
            if name not in ('transfer', 'create_solution_from'):
                continue
            want = (0, 1) if name == 'transfer' else (0,)
            for idx in want:
                if idx >= len(c.args) or _origin_key(c.args[idx], b, ff) is None:
                    continue
                n += 1
                ok = (name, idx) in stored
                ctx.ob(rule, bake, getattr(st_, 'lineno', node.lineno),
                       f"`{op}` branch: result {idx} of `{name}` is stored back into self.results", ok,
                       fact=f"results of {name} stored: {sorted(i for nm, i in stored if nm == name)}",
                       why='the updated source / stock is dropped: the recipe keeps the object as it was before the step '
                           '(material is duplicated)', key=f"result {idx} of {name} not written back in {op}")
    return n


def _result_source(value):
    """(call, index) if the stored value is (a field of) the index-th result of an operation call."""
    seen, todo = set(), [value]
    found = None
    while todo:
        v = todo.pop()
        if v is None or id(v) in seen:
            continue
        seen.add(id(v))
        if isinstance(v, Ref):
            todo.append(v.value)
        elif isinstance(v, Phi):
            todo.extend(v.options)
        elif isinstance(v, ast.IfExp):
            todo.extend([v.body, v.orelse])
        elif isinstance(v, ast.Attribute):
            todo.append(v.value)
        elif isinstance(v, Elt):
            c = strip_refs(v.value)
            if isinstance(c, ast.Call) and _is_operation(c.orig if hasattr(c, 'orig') else c):
                if found is not None and (found[0] is not c or found[1] != v.index):
                    if call_name(found[0])[1] == call_name(c)[1] and found[1] == v.index:
                        continue        # the same result position of the Container / Plate variant of one operation
                    return None
                found = (c, v.index)
    return found


def _origin_key(operand, state, ff):
    """The key K of the read `self.results[K]` an operand of an operation was resolved from (directly, or through a
    slice copy whose .plate was re-pointed to self.results[K])."""
    keys = []
    seen, todo = set(), [operand]
    while todo:
        v = todo.pop()
        if v is None or id(v) in seen:
            continue
        seen.add(id(v))
        if isinstance(v, Ref):
            if isinstance(v.value, ast.Call) and getattr(v.value.func, 'id', '') == 'deepcopy':
                for st in ff.stores:
                    if st[2] == f"{v.name}.plate" and dominates(v.stmt, st[0]):
                        todo.append(st[3])
                continue
            if v.name.startswith('self.results['):
                # value stored earlier in this step under that key
                for st in ff.stores:
                    if st[0] is v.stmt and st[2] == v.name:
                        keys.append(st[5].slice)
                continue
            todo.append(v.value)
        elif isinstance(v, Phi):
            todo.extend(v.options)
        elif isinstance(v, ast.Subscript) and path_from_param(v.value) == ('self', ['results']):
            keys.append(v.slice)
        elif isinstance(v, ast.Attribute):
            todo.append(v.value)
    if not keys:
        return None
    first = keys[0]
    return first if all(same_value(strip_refs(k), strip_refs(first)) for k in keys) else None


STATE_ATTRS = ('contents', 'volume', 'wells', 'max_volume', 'instructions', 'max_volume_per_well')


def stale_state_reads(ctx, rule):
    """In bake, the state (contents / volume / wells ..) of an object may only be read from a current object - never
    from the declaration-time object kept in the step record (its name and type may be read)."""
    from ..flow import walk_no_sym
    model = ctx.model
    bake = model.func('Recipe.bake')
    ff = ctx.flow('Recipe.bake')
    branches = bake_branches(ctx)
    optypes = operand_types(ctx)
    n = 0
    for op, (body, node) in sorted(branches.items()):
        anns = optypes[op][0]
        bad = []
        reads = 0
        for stmt in ast.walk(node):
            if not isinstance(stmt, ast.stmt) or id(stmt) not in ff.pre or not _inside(stmt, node):
                continue
            if isinstance(stmt, (ast.If, ast.For, ast.While, ast.With, ast.Try, ast.FunctionDef)):
                exprs = [getattr(stmt, 'test', None) or getattr(stmt, 'iter', None)]
            else:
                exprs = [x for x in ast.iter_child_nodes(stmt) if isinstance(x, ast.expr)]
            st = ff.state_before(stmt)
            for ex in exprs:
                if ex is None:
                    continue
                for a in ast.walk(ex):
                    if isinstance(a, ast.Attribute) and a.attr in STATE_ATTRS and isinstance(a.ctx, ast.Load):
                        reads += 1
                        base = ff.resolve(a.value, st)
                        if classify_operand(base, st, ff, anns) == 'STALE':
                            bad.append((stmt.lineno, unparse(a, 40)))
        n += reads
        ctx.ob(rule, bake, (bad[0][0] if bad else node.lineno), f"`{op}` branch: object state is read from current objects only",
               not bad, fact=f"{reads} reads of contents/volume/wells/instructions" + (f"; stale: {bad[:2]}" if bad else ''),
               why='an amount is computed from the object given when the step was declared, not from the state before '
                   'this step: it ignores what earlier steps did', key=f"stale state read in {op}")
    return n


def _is_value_type_test(test, name):
    return isinstance(test, ast.Call) and getattr(test.func, 'id', '') == 'isinstance' and len(test.args) == 2 and \
        isinstance(test.args[0], ast.Name) and test.args[0].id == name and \
        any(t in unparse(test.args[1]) for t in VALUE_TYPES)


def _reads_current(v):
    if _is_results_ref(v):
        return True         # the value stored into self.results[..] earlier in this step
    v0 = strip_refs(v)
    if isinstance(v0, Phi):
        return all(_reads_current(o) for o in v0.options)
    return isinstance(v0, ast.Subscript) and path_from_param(v0.value) == ('self', ['results'])


def current_operands(ctx, rule, only=None):
    """Every Container / Plate / slice operand of an operation call in bake is the current object."""
    model = ctx.model
    bake = model.func('Recipe.bake')
    ff = ctx.flow('Recipe.bake')
    branches = bake_branches(ctx)
    optypes = operand_types(ctx)
    # ---------------------------------------------------------------- R1 current-operand rule
    nops = 0
    for op, (body, node) in sorted(branches.items()):
        if only is not None and op not in only:
            continue
        anns = optypes[op][0]
        calls = [(c, s, b) for c, s, b in ff.calls if _is_operation(c.orig if hasattr(c, 'orig') else c) and _inside(s, node)]
        for c, s, b in calls:
            nops += 1
            operands = list(c.args) + [k.value for k in c.keywords]
            raw = c.orig if hasattr(c, 'orig') else c
            if isinstance(c.func, ast.Attribute) and not (isinstance(raw.func.value, ast.Name) and raw.func.value.id in model.classes):
                operands.insert(0, c.func.value)
            stale = []
            cur = 0
            for a in operands:
                v = classify_operand(a, b, ff, anns)
                if v == 'STALE':
                    stale.append(show(a, 30))
                elif v == 'CURRENT':
                    cur += 1
            ctx.ob(rule, bake, s.lineno, f"`{op}` branch: operands of `{unparse(raw, 50)}` are the current state", not stale,
                   fact=f"{cur} current operand(s) (from self.results), stale: {stale}",
                   why=f"{stale} is the object given when the step was declared, not the state produced by the earlier "
                       f"steps: the step does not see their effects", key=f"stale operand in {op}")
    return nops


def run(ctx):
    from .configtime import derived_values as _derived
    _derived(ctx, 'C08.R1', ('Recipe', 'RecipeStep', 'Slicer', 'PlateSlicer', 'Plate'))
    from .configtime import decisions_not_taken_on_display_values as _coarse
    _coarse(ctx, 'C08.R1', ('Container', 'Plate', 'PlateSlicer', 'Recipe', 'RecipeStep'))
    from .configtime import declarations_do_not_read_state as _decl_state
    _decl_state(ctx, 'C08.R7', ('Recipe.transfer', 'Recipe.create_solution', 'Recipe.create_solution_from', 'Recipe.remove',
                                'Recipe.dilute', 'Recipe.fill_to'))
    from .configtime import no_identity_test_against_literals as _no_is_literal
    _no_is_literal(ctx, 'C08.R4', classes=('Recipe', 'RecipeStep'))
    from .configtime import recorded_operands_not_mutated as _rec_inplace
    _rec_inplace(ctx, 'C08.R3', ('Recipe.uses', 'Recipe.transfer', 'Recipe.create_container', 'Recipe.create_solution', 'Recipe.create_solution_from', 'Recipe.remove', 'Recipe.dilute', 'Recipe.fill_to'))
    from .configtime import late_binding_closures as _late
    _late(ctx, 'C08.R5', classes=('Recipe', 'RecipeStep'))
    from .iterables import single_pass_iterables as _single_pass
    _single_pass(ctx, 'C08.R3', ('Recipe.create_container', 'Recipe.uses', 'Container.__init__'))
    # contents are keyed by Substance objects: the key laws this property's bookkeeping relies on
    from .identity import identity_discipline as _identity
    _identity(ctx, 'C08.R1', classes=('Substance',), memoised=False)
    model = ctx.model
    bake = model.func('Recipe.bake')
    ff = ctx.flow('Recipe.bake')
    branches = bake_branches(ctx)
    optypes = operand_types(ctx)
    # ---------------------------------------------------------------- R1 current-operand rule
    nops = current_operands(ctx, 'C08.R1')
    floor(ctx, 'operation calls in bake', nops, 8)
    stale_state_reads(ctx, 'C08.R1')
    # ---------------------------------------------------------------- R2 write-back by name
    for op, (body, node) in sorted(branches.items()):
        stores = [s for s in ff.stores if s[2] and s[2].startswith('self.results[') and _inside(s[0], node)]
        for stmt, target, key, value, before, rt in stores:
            k = rt.slice
            srcs = {getattr(n, 'pkey', None) for n in deep_walk(k)} | {n.name for n in deep_walk(k) if isinstance(n, Ref)}
            from_record = any(x and (x.startswith('step.to') or x.startswith('step.frm') or x in ('dest', 'source', 'dest_name', 'source_name'))
                              for x in srcs)
            from_operand = any(isinstance(n, Elt) and isinstance(strip_refs(n.value), ast.Attribute) and
                               strip_refs(n.value).attr == 'operands' for n in deep_walk(k))
            ok = from_record and not from_operand
            if from_operand:
                # acceptable if the step-adding method checked that operand as declared (C16.R3)
                from .c16 import declared_gate, steps_appends
                anns, ctor, mfi = optypes[op]
                idxs = [n.index for n in deep_walk(k) if isinstance(n, Elt) and isinstance(n.index, int) and
                        isinstance(strip_refs(n.value), ast.Attribute) and strip_refs(n.value).attr == 'operands']
                mff = ctx.flow(mfi.qualname)
                ok = bool(idxs)
                for i in idxs:
                    arg = ctor.args[4 + i] if 4 + i < len(ctor.args) else None
                    if not (isinstance(arg, ast.Name) and declared_gate(mfi, mff, steps_appends(mff), arg.id)):
                        ok = False
            ctx.ob('C08.R2', bake, stmt.lineno, f"`{op}` branch: result stored under the name of the step's own source / "
                                                f"destination (`{show(k, 25)}`)", ok,
                   fact=('key derives from the step record' if ok and not from_operand else 'key derives from an operand that the step-adding method checked as declared' if ok else 'key derives from an operand of the step'),
                   why='the result is stored under a name that was never checked as declared: an undeclared object '
                       'silently enters the results', key=f"result key from operand in {op}")
    writeback_origin(ctx, 'C08.R2')
    operands_written_back(ctx, 'C08.R2')

    # ---------------------------------------------------------------- R3 no effect before bake
    eff = {k: {a.rstrip('*') for a in v} for k, v in receiver_effects(model).items()}
    for op, (anns, ctor, fi) in sorted(optypes.items()):
        f2 = ctx.flow(fi.qualname)
        bad = []
        for c, s, b in f2.calls:
            raw = c.orig if hasattr(c, 'orig') else c
            if isinstance(raw.func, ast.Attribute) and raw.func.attr in OPS and not \
                    (isinstance(raw.func.value, ast.Name) and raw.func.value.id == 'self'):
                bad.append(unparse(raw, 40))
        res_writes = [s for s in f2.stores if s[2] and s[2].startswith('self.results[')]
        ctx.ob('C08.R3', fi, fi.node.lineno, f"Recipe.{fi.name} only records the step (no operation, no result written)",
               not bad and not res_writes, fact=f"operation calls: {bad}; writes to self.results: {len(res_writes)}",
               why='a step takes effect before bake', key=f"effect before bake in {fi.name}")
    recorded_operands(ctx, 'C08.R3')
    declaration_refusals(ctx, 'C08.R7')
    operands_recorded_as_given(ctx, 'C08.R7')
    every_declaration_is_recorded(ctx, 'C08.R7')
    # ---------------------------------------------------------------- R4 order
    loops = [s for s in bake.node.body if isinstance(s, ast.For)]
    step_loops = [l for l in loops if path_from_param(ff.resolved.get(id(l))) == ('self', ['steps'])]
    raw_ok = len(step_loops) == 1 and isinstance(step_loops[0].iter, ast.Attribute)
    ctx.ob('C08.R4', bake, (step_loops[0].lineno if step_loops else bake.node.lineno),
           'bake runs the steps in one loop over self.steps itself (no copy, sort, reverse or slice)', raw_ok,
           fact=f"{len(step_loops)} loop(s) over self.steps" + (f": for .. in {unparse(step_loops[0].iter)}" if step_loops else ''),
           why='steps are not executed once each in the order they were added', key='step loop')
    steps_only_appended(ctx, 'C08.R4')
    # ---------------------------------------------------------------- R5 one application per step
    before = len(ctx.obs)
    record_protocol(ctx, 'C08.R5x', once_rule='C08.R5')
    # ... and to the wells the step addressed: the eager operation on plate[sel] changes those wells only
    from .c07 import addressed_selection
    addressed_selection(ctx, 'C08.R5')
    ctx.obs[before:] = [o for o in ctx.obs[before:] if o.rule == 'C08.R5']
    # a valid stage program can be declared: start_stage / end_stage compare stage names by value (C16.R5's gates)
    from . import c16 as _c16
    before_ = len(ctx.obs)
    _c16._stage_rules(ctx, model.cls('Recipe'), ff)
    for o_ in ctx.obs[before_:]:
        o_.rule = 'C08.R4'
    # ---------------------------------------------------------------- R6 result dictionary
    rets = [e for e in ff.normal_exits() if e.kind == 'return']
    ok = bool(rets) and all(path_from_param(e.value) == ('self', ['results']) for e in rets)
    ctx.ob('C08.R6', bake, (rets[0].line if rets else bake.node.lineno), 'bake returns self.results', ok, nontrivial=False,
           why='the returned dictionary is not the recipe\'s result dictionary', key='bake return')
    return {'explanation': 'R1 (stale-operand taint): every Container/Plate/slice operand of an operation call in bake '
                           'must be current - read from self.results, the result of an operation, or a deep copy of '
                           'the declared slice whose .plate was re-pointed to self.results - and must not be the object '
                           'kept in the step record at declaration time (operand types come from the annotations of the '
                           'step-adding methods). R2: results are stored under the names of the step\'s own source / '
                           'destination. R3: step-adding methods call no operation and write no result. R4: one loop over '
                           'self.steps itself; steps are only appended. R5: one application per step. R6: bake returns '
                           'self.results. Not decided: equality of the baked objects with an eager fold for all programs.'}


def operands_recorded_as_given(ctx, rule):
    """A step is carried out with the operands the user wrote.  The text operands of a declaration (quantity,
    concentration, capacity: parameters annotated `str`) reach `RecipeStep(..)` as the parameter itself - not re-rendered
    (`f"{value:g} {unit}"` keeps six digits), not rebound on the way."""
    model = ctx.model.plain()
    n = 0
    for fi in model.funcs.values():
        if fi.cls is None or fi.cls.name != 'Recipe' or fi.parent is not None:
            continue
        recorders = _step_recorders(model)
        if fi.name in recorders:
            continue
        calls = [c for c in ast.walk(fi.node) if isinstance(c, ast.Call) and
                 ((isinstance(c.func, ast.Name) and c.func.id == 'RecipeStep') or
                  (isinstance(c.func, ast.Attribute) and c.func.attr in recorders and isinstance(c.func.value, ast.Name) and c.func.value.id == 'self'))]
        if not calls:
            continue
        a = fi.node.args
        text = {p.arg for p in a.posonlyargs + a.args + a.kwonlyargs if p.annotation is not None and
                'str' in ast.unparse(p.annotation).replace('Substance', '').split('[')[0]}
        text.discard('name')        # the name of a new container is chosen by the declaration when it is not given
        rebound = {}
        for x in ast.walk(fi.node):
            if isinstance(x, ast.Name) and isinstance(x.ctx, ast.Store) and x.id in text:
                rebound.setdefault(x.id, x.lineno)
        for c in calls:
            first = 2 if isinstance(c.func, ast.Name) else 1      # RecipeStep(self, kind, ..) / self._recorder(kind, ..)
            for arg in list(c.args[first:]) + [k.value for k in c.keywords]:
                inside = sorted({y.id for y in ast.walk(arg) if isinstance(y, ast.Name) and y.id in text})
                if not inside:
                    continue
                for p in inside:
                    n += 1
                    verbatim = isinstance(arg, ast.Name) or (isinstance(arg, (ast.Tuple, ast.List, ast.Dict)) and any(
                        isinstance(e, ast.Name) and e.id == p for e in ast.walk(arg) if isinstance(getattr(e, 'parent', None), (ast.Tuple, ast.List, ast.Dict))))
                    ok = verbatim and p not in rebound
                    ctx.ob(rule, fi, c.lineno, f"{fi.qualname}: the step records `{p}` as it was given", ok,
                           fact=(f"`{p}` is rebound at line {rebound[p]}" if p in rebound else
                                 ('passed on as the parameter itself' if verbatim else f"recorded as `{ast.unparse(arg)[:70]}`")),
                           why='the step is carried out with another quantity text than the eager call would get: a re-rendered number loses digits',
                           key=f"text operand {p} not verbatim")
    from .common import floor as _floor
    _floor(ctx, 'text operands recorded by declarations', n, 4)


def every_declaration_is_recorded(ctx, rule):
    """Each call of a declaring method that returns normally has added its step: no `return` leaves the method before
    `self.steps.append(RecipeStep(..))` (a declaration judged to be a repetition or a no-op and silently dropped is an
    operation the eager run would have carried out)."""
    model = ctx.model.plain()
    n = 0
    for fi in model.funcs.values():
        if fi.cls is None or fi.cls.name != 'Recipe' or fi.parent is not None:
            continue
        recorders = _step_recorders(model)
        if fi.name in recorders:
            continue
        appends = [c for c in walk_no_nested(fi.node) if isinstance(c, ast.Call) and isinstance(c.func, ast.Attribute) and
                   ((c.func.attr == 'append' and c.args and any(isinstance(y, ast.Call) and isinstance(y.func, ast.Name) and
                                                                y.func.id == 'RecipeStep' for y in ast.walk(c.args[0]))) or
                    (c.func.attr in recorders and isinstance(c.func.value, ast.Name) and c.func.value.id == 'self'))]
        if not appends:
            continue
        n += 1
        first = min(a.lineno for a in appends)
        early = [r for r in walk_no_nested(fi.node) if isinstance(r, ast.Return) and r.lineno < first]
        # an append under a condition: some path may pass it by
        cond = [a for a in appends if any(isinstance(p, (ast.If, ast.For, ast.While, ast.Try)) for p in _ancestors(a, fi.node))]
        ok = not early and not cond
        ctx.ob(rule, ctx.model.funcs.get(fi.qualname, fi), (early[0].lineno if early else (cond[0].lineno if cond else first)),
               f"{fi.qualname}: every normal exit has recorded the step", ok,
               fact=(f"`return` at line {early[0].lineno} leaves before the step is appended (line {first})" if early else
                     ('the append is conditional' if cond else f"the append at line {first} is on every path to the exit")),
               why='a declaration that is dropped is a step the eager sequence of calls performs and bake does not',
               key='declaration returns without recording')
    from .common import floor as _floor
    _floor(ctx, 'declaring methods of Recipe', n, 6)


def _ancestors(node, top):
    p = getattr(node, 'parent', None)
    while p is not None and p is not top:
        yield p
        p = getattr(p, 'parent', None)


def steps_only_appended(ctx, rule):
    """`Recipe.steps` only grows at its end: the stages are recorded as index ranges into it (`slice(start, len(steps))`),
    so removing, inserting, reordering or replacing the list shifts every stage recorded after that point."""
    model = ctx.model
    muts = []
    for m in model.cls('Recipe').methods.values():
        for n in ast.walk(m.node):
            if isinstance(n, ast.Call) and isinstance(n.func, ast.Attribute) and n.func.attr in MUTATOR_METHODS and \
                    unparse(n.func.value) == 'self.steps':
                muts.append((m, n))
            if isinstance(n, (ast.Assign, ast.AugAssign)) and m.name != '__init__':
                tg = n.targets if isinstance(n, ast.Assign) else [n.target]
                if any(unparse(t).startswith('self.steps') for t in tg):
                    muts.append((m, n))
            if isinstance(n, ast.Delete) and any(unparse(t).startswith('self.steps') for t in n.targets):
                muts.append((m, n))
    ok = bool(muts) and all(isinstance(n, ast.Call) and n.func.attr == 'append' for m, n in muts)
    offenders = [(m, n) for m, n in muts if not (isinstance(n, ast.Call) and n.func.attr == 'append')]
    where = offenders[0] if offenders else None
    ctx.ob(rule, (where[0] if where else 'Recipe'), (where[1].lineno if where else 0), 'steps are only ever appended', ok,
           fact=(f"`{unparse(where[1], 70)}`" if where else f"{len(muts)} mutation(s) of self.steps, all of them append"),
           why='the order or the positions of the steps change after they were added: the stages (index ranges into the list) '
               'and the timeframes of the queries then name other steps', key='steps mutation', nontrivial=False)


def _step_recorders(model):
    """Private methods of Recipe that build a RecipeStep from their parameters and append it to `self.steps` on every path
    (a shared `_add_step(kind, frm, to, *operands)`): a call of one of them records the step."""
    out = set()
    for fi in model.funcs.values():
        if fi.cls is None or fi.cls.name != 'Recipe' or fi.parent is not None or not fi.name.startswith('_') or fi.name.startswith('__'):
            continue
        makes = [c for c in walk_no_nested(fi.node) if isinstance(c, ast.Call) and isinstance(c.func, ast.Name) and c.func.id == 'RecipeStep']
        appends = [c for c in walk_no_nested(fi.node) if isinstance(c, ast.Call) and isinstance(c.func, ast.Attribute) and
                   c.func.attr == 'append' and ast.unparse(c.func.value) == 'self.steps']
        conditional = any(isinstance(p, (ast.If, ast.For, ast.While, ast.Try)) for a_ in appends for p in _ancestors(a_, fi.node))
        early = any(isinstance(r, ast.Return) and appends and r.lineno < min(a_.lineno for a_ in appends) for r in walk_no_nested(fi.node))
        if makes and appends and not conditional and not early:
            out.add(fi.name)
    return out

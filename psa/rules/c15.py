"""C15 - Container flows and amount remaining balance with the recipe's state.
Signed dependence (D) + ndarray / vectorize typing (M) + units (U)."""
from __future__ import annotations

import ast

from ..dep import signed_leaves
from ..flow import (Ref, Param, LoopVar, Elt, Phi, Acc, Sym, FuncRef, strip_refs, show, pathkey, same_value, deep_walk,
                    walk_no_sym, facts_at, normalise_fact)
from ..model import AnalysisError, unparse, walk_no_nested
from .common import root_of_expr, path_from_param, const_value, floor, call_name, is_call_to, gate_with, alternatives, leaf_key
from .c09 import atoms_of, signature, fmt, stage_rules, record_protocol
from . import targets
from .. import uscan


def run(ctx):
    from .configtime import derived_values as _derived
    _derived(ctx, 'C15.R4', ('Recipe', 'RecipeStep', 'Plate', 'Container', 'Slicer', 'PlateSlicer'))
    from .configtime import decisions_not_taken_on_display_values as _coarse
    _coarse(ctx, 'C15.R4', ('Container', 'Plate', 'PlateSlicer', 'Recipe', 'RecipeStep'))
    from .c08 import steps_only_appended as _append_only
    _append_only(ctx, 'C15.R4')
    from .configtime import no_identity_test_against_literals as _no_is_literal
    _no_is_literal(ctx, 'C15.R1', classes=('Recipe', 'RecipeStep'))
    from .configtime import no_shared_mutable_defaults as _mutdef
    _mutdef(ctx, 'C15.R4', classes=('Recipe', 'RecipeStep'))
    from .configtime import precision_zero_is_a_value as _prec0
    _prec0(ctx, 'C15.R3', classes=('Recipe', 'RecipeStep'))
    from .atomic import validate_before_mutate as _atomic
    _atomic(ctx, 'C15.R4', ('Recipe.start_stage', 'Recipe.end_stage'))
    from .configtime import config_at_call_time
    config_at_call_time(ctx, 'C15.R3', classes=('Recipe', 'RecipeStep', 'Unit', 'Substance'))
    model = ctx.model
    from . import unitspec as _us
    _us.api_verified(ctx, 'C15.R3')
    fi = model.func('Recipe.get_container_flows')
    ff = ctx.flow(fi.qualname)
    # ---------------------------------------------------------------- R1 polarity of in / out
    sigs = {'in': {}, 'out': {}}
    guards = {'in': [], 'out': []}
    n_aug = 0
    for stmt in walk_no_nested(fi.node):
        if not isinstance(stmt, ast.AugAssign) or id(stmt) not in ff.pre:
            continue
        t = stmt.target
        if not (isinstance(t, ast.Subscript) and isinstance(t.slice, ast.Constant) and t.slice.value in ('in', 'out')):
            continue
        n_aug += 1
        st = ff.state_before(stmt)
        v = ff.resolve(stmt.value, st)
        sign = 1 if isinstance(stmt.op, ast.Add) else -1
        for a, sset in signature(v, sign).items():
            sigs[t.slice.value].setdefault(a, set()).update(sset)
        guards[t.slice.value].append((stmt, st, atoms_of(v)))
    floor(ctx, 'accumulations into flows', n_aug, 3)
    want = {'in': {'step.to[1]': {'+'}, 'step.to[0]': {'-'}},
            'out': {'step.frm[0]': {'+'}, 'step.frm[1]': {'-'}, 'step.trash': {'+'}}}
    # a remove step may also be accounted per well as (before - after) of the destination, under `step.trash`
    per_well_remove = {'step.to[0]': {'+'}, 'step.to[1]': {'-'}}
    out_sig = dict(sigs['out'])
    to_terms_guarded = True
    for stmt, st, at in guards['out']:
        if at & {'step.to[0]', 'step.to[1]'}:
            def has_trash(c):
                return c.op == 'truth' and getattr(strip_refs(c.left), 'pkey', None) == 'step.trash'
            if not gate_with(st, has_trash):
                to_terms_guarded = False
    core_out = {k: v for k, v in out_sig.items() if k not in per_well_remove}
    extra_out = {k: v for k, v in out_sig.items() if k in per_well_remove}
    ok_out = {k: v for k, v in core_out.items() if k != 'step.trash'} == {k: v for k, v in want['out'].items() if k != 'step.trash'} \
        and (core_out.get('step.trash') == {'+'} or extra_out == per_well_remove) \
        and (not extra_out or (extra_out == per_well_remove and to_terms_guarded)) \
        and core_out.get('step.trash', {'+'}) == {'+'}
    ctx.ob('C15.R1', fi, fi.node.lineno, "flows['in'] has the specified polarity", sigs['in'] == want['in'],
           fact=f"derived dependence {fmt(sigs['in'])}", why=f"specified: {fmt(want['in'])}", key='polarity of flows in')
    ctx.ob('C15.R1', fi, fi.node.lineno, "flows['out'] has the specified polarity", ok_out,
           fact=f"derived dependence {fmt(out_sig)}",
           why=f"specified: {fmt(want['out'])} (a remove step may instead contribute to[0]: +, to[1]: - under step.trash)",
           key='polarity of flows out')
    # per-well typing: for a plate every term must be a per-well array, not a total broadcast to all wells
    for k in ('in', 'out'):
        for stmt, st, at in guards[k]:
            def on_plate(c):
                t = strip_refs(c.left)
                return c.op == 'truth' and isinstance(t, ast.Call) and getattr(t.func, 'id', '') == 'isinstance' and \
                    unparse(t.args[1].orig if hasattr(t.args[1], 'orig') else t.args[1]) == 'Plate'
            if not gate_with(st, on_plate):
                continue
            v = ff.resolve(stmt.value, st)
            per_well = any(isinstance(n, ast.Attribute) and n.attr == 'wells' for n in deep_walk(v))
            # source and destination of a transfer can be regions of one plate: the before/after difference of the whole
            # plate is negative in the wells of the other side, so a per-well transfer term must be clipped at zero
            def has_trash(c):
                return c.op == 'truth' and getattr(strip_refs(c.left), 'pkey', None) == 'step.trash'
            if per_well and not gate_with(st, has_trash):
                top = strip_refs(v)
                clipped = isinstance(top, ast.Call) and isinstance(top.func, ast.Attribute) and \
                    top.func.attr in ('maximum', 'clip', 'fmax') and any(const_value(a) == 0 for a in top.args[1:])
                ctx.ob('C15.R1', fi, stmt.lineno, f"flows['{k}'] of a plate: the per-well transfer term cannot be negative",
                       clipped, fact=('clipped at zero' if clipped else f"term {show(v, 60)} is a bare difference"),
                       why='for a transfer between two regions of one plate the wells of the other side get a negative '
                           'flow (flows are never negative)', key=f"unclipped per-well term {k}")
            ctx.ob('C15.R2', fi, stmt.lineno, f"flows['{k}'] of a plate is accumulated per well", per_well,
                   fact=('term is computed from the wells array' if per_well else f"term {show(v, 60)} is a scalar total"),
                   why='a total over all wells is added to every well: per-well flows of a plate are wrong',
                   key=f"scalar total broadcast into plate flows {k}")
    # inflow is only credited on steps without trash (a pure withdrawal / removal never counts as inflow), and only for
    # the queried object
    for k in ('in', 'out'):
        for stmt, st, at in guards[k]:
            sides = {a.split('[')[0] for a in at if '[' in a} or ({'step.to'} if 'step.trash' in at else set())
            for side in sorted(sides):
                def same_object(c, side=side):
                    def is_rec(x):
                        return any(isinstance(n, ast.Attribute) and n.attr == 'name' and
                                   getattr(strip_refs(n.value), 'pkey', None) == f"{side}[0]" for n in deep_walk(x))

                    def is_query(x):
                        return any(isinstance(n, Param) for n in deep_walk(x, follow_refs=False))
                    return c.op == 'eq' and c.right is not None and \
                        ((is_rec(c.left) and is_query(c.right)) or (is_rec(c.right) and is_query(c.left)))
                g = gate_with(st, same_object)
                ctx.ob('C15.R1', fi, stmt.lineno, f"flows['{k}'] term from `{side.replace('step.', '')}` is counted only for "
                                                  f"the queried object", bool(g), fact=str(g[0]) if g else 'no name test',
                       why='flows of other objects are attributed to the queried one', key=f"flow object test {k}")
            # the two sides of a step are looked at independently: a term that reads the source record must not sit under
            # a condition on the destination record (an `elif` chain drops the outflow of a step whose source and
            # destination are the same object)
            if sides == {'step.frm'}:
                entry = st.loops[-1][2] if st.loops else {}
                cross = [f for kf, f in st.facts.items() if kf not in entry and
                         any((getattr(n, 'pkey', None) or '').startswith('step.to[') or
                             (isinstance(n, Ref) and n.name.startswith('step.to[')) for n in deep_walk(f.test))]
                ctx.ob('C15.R1', fi, stmt.lineno, f"flows['{k}'] term from `frm` does not depend on what the destination side matched",
                       not cross, fact=(f"under a condition on the destination record: {show(cross[0].test, 60)}" if cross
                                        else 'conditions on the source record only'),
                       why='a step whose source and destination are the queried object (two regions of one plate) loses its outflow',
                       key=f"source side conditional on destination side {k}")
            if k == 'in':
                def no_trash(c):
                    return c.op == 'falsy' and getattr(strip_refs(c.left), 'pkey', None) == 'step.trash'
                g = gate_with(st, no_trash)
                ctx.ob('C15.R1', fi, stmt.lineno, "inflow is not credited on a step that discards material", bool(g),
                       fact=str(g[0]) if g else 'no test on step.trash', why='a removal is counted as (negative) inflow',
                       key='inflow on remove step')
    # the totals are sums over the steps: they are rounded once, after the loop (rounding the running totals in every
    # iteration drops every flow below the display precision)
    step_loops = [l for l in walk_no_nested(fi.node) if isinstance(l, ast.For) and id(l) in ff.resolved and
                  any(isinstance(n, ast.Subscript) and path_from_param(n.value) == ('self', ['steps'])
                      for n in deep_walk(ff.resolved[id(l)]))]
    acc_roots = set()
    for l in step_loops:
        for n in ast.walk(l):
            if isinstance(n, ast.AugAssign):
                t = n.target
                while isinstance(t, (ast.Subscript, ast.Attribute)):
                    t = t.value
                if isinstance(t, ast.Name):
                    acc_roots.add(t.id)
    for l in step_loops:
        bad = []
        for n in ast.walk(l):
            if isinstance(n, ast.Call) and ((isinstance(n.func, ast.Name) and n.func.id == 'round' and n.args) or
                                            (isinstance(n.func, ast.Attribute) and n.func.attr == 'round')):
                tgt = n.args[0] if isinstance(n.func, ast.Name) else n.func.value
                names = {x.id for x in ast.walk(tgt) if isinstance(x, ast.Name)}
                if names & acc_roots:
                    bad.append(n)
        ctx.ob('C15.R1', fi, (bad[0].lineno if bad else l.lineno), 'the running totals are not rounded inside the loop over the steps',
               not bad, fact=f"{len(bad)} rounding(s) of {sorted(acc_roots)} inside the loop",
               why='flows smaller than the display precision vanish step by step: in - out no longer balances with the '
                   'amount remaining', key='running totals rounded per step')
    precision_of_requested_unit(ctx, 'C15.R3', ('Recipe.get_container_flows', 'Recipe.get_amount_remaining',
                                                  'Recipe.get_substance_used'))
    from .c09 import per_instance_state, record_completeness
    per_instance_state(ctx, 'C15.R4')
    record_completeness(ctx, 'C15.R4')
    from .c17 import trash as _trash
    _trash(ctx, 'C15.R4')       # the outflow of a remove step is what the step recorded as discarded
    # the record of one step is not built inside the memoised result of an observer: a later recipe that starts from
    # an equal container would be handed the changed set
    from .c10 import cached_results_intact
    cached_results_intact(ctx, 'C15.R4')
    # get_amount_remaining: mode/index agreement
    gi = model.func('Recipe.get_amount_remaining')
    gf = ctx.flow(gi.qualname)
    # the object whose amounts are reported: every way it can be chosen (nested ifs, conditional expressions,
    # an index or a record picked into a variable first), with the conditions of each choice
    picks = {}
    for ex in gf.normal_exits():
        if ex.kind != 'return' or ex.value is None:
            continue
        for n in deep_walk(ex.value):
            if not (isinstance(n, ast.Attribute) and n.attr in ('contents', 'wells')):
                continue
            for conds, leaf in alternatives(gf, n.value):
                k = leaf_key(leaf)
                if k is None or not (k.startswith('step.to[') or k.startswith('step.frm[')):
                    continue
                side, idx = k.split('[')[0], k.split('[')[1].rstrip(']')
                after, dest = set(), set()
                # the conditions of the choice and the conditions under which this return is reached
                for f in list(conds) + [f_ for f_ in ex.state.facts.values() if f_ not in conds]:
                    for c in normalise_fact(f):
                        if c.op in ('eq', 'ne') and any(const_value(x) == 'after' for x in (c.left, c.right) if x is not None):
                            after.add(c.op == 'eq')
                        if c.op in ('eq', 'ne') and c.right is not None and any(
                                isinstance(m, ast.Attribute) and m.attr == 'name' and getattr(m.value, 'pkey', None) == 'step.to[0]'
                                for x in (c.left, c.right) for m in deep_walk(x)):
                            dest.add(c.op == 'eq')
                a_ = next(iter(after)) if len(after) == 1 else None
                d_ = next(iter(dest)) if len(dest) == 1 else None
                picks.setdefault((side, idx, a_, d_), getattr(leaf, 'lineno', ex.line))
    floor(ctx, 'record picks in get_amount_remaining', len(picks), 4)
    for (side, idx, after, dest), line in sorted(picks.items(), key=str):
        ok = after is not None and idx == ('1' if after else '0')
        ctx.ob('C15.R1', gi, line, f"mode {'after' if after else 'before'} picks index {1 if after else 0} of {side}",
               ok, fact=f"picks {side}[{idx}] under mode == 'after': {after}", why='the state before/after is confused',
               key=f"mode index {side}")
    # the to-side is taken iff the queried object is the step's destination
    for (side, idx, after, dest), line in sorted(picks.items(), key=str):
        ok = dest is not None and dest == (side == 'step.to')
        ctx.ob('C15.R1', gi, line, f"{side} is read when the queried object {'is' if side == 'step.to' else 'is not'} "
                                   f"the step's destination", ok,
               fact=f"{side}[{idx}] chosen under `step.to[0].name == <queried>.name` being {dest}",
               why='the amount of the wrong object is reported', key=f"side selection {side}")
    revs = [c for c, s, b in gf.calls if isinstance(c.func, ast.Name) and c.func.id == 'reversed']
    rev_ok = False
    for c, s, b in gf.calls:
        if isinstance(c.func, ast.Name) and c.func.id == 'reversed':
            rev_ok = any(cc.op == 'eq' and any(const_value(x) == 'after' for x in (cc.left, cc.right)) for cc in facts_at(b))
    ctx.ob('C15.R1', gi, gi.node.lineno, "mode 'after' scans the steps backwards (last step touching the object), "
                                         "'before' forwards", rev_ok and len(revs) == 1, fact=f"{len(revs)} reversed() call(s)",
           why='the first/last step of the timeframe is confused', key='scan direction')
    # ---------------------------------------------------------------- R2 executable and float-typed plate path
    t4(ctx, fi, ff)
    t5(ctx)
    distinct_accumulators(ctx, 'C15.R2')
    # ---------------------------------------------------------------- R3 units
    for q in ('Recipe.get_container_flows', 'Recipe.get_amount_remaining'):
        sc = targets.scan(ctx, q)
        uscan.report_sinks(ctx, lambda cat: 'C15.R3' if cat in ('convert-from-unit', 'storage-label', 'add-units', 'sum-mix', 'truncating-division',
                                                                'qstr', 'compare-units') else None, sc)
    # ---------------------------------------------------------------- R4 stage slicing / record protocol
    before = len(ctx.obs)
    stage_rules(ctx)
    record_protocol(ctx, 'C15.R4')
    for o in ctx.obs[before:]:
        o.rule = 'C15.R4'
    return {'explanation': 'R1: signed data dependence of flows[in] / flows[out] on the step records must be {to[1]: +, '
                           'to[0]: -} and {frm[0]: +, frm[1]: -, trash: +}, each term under the name test of the queried '
                           'object, inflow only on steps without trash; get_amount_remaining picks index 1 / reversed '
                           'order for mode after and index 0 / forward order for before, the to-side iff the object is '
                           'the destination. R2: the plate path is executable and float-typed (no builtin round() on '
                           'per-well arrays; numeric numpy.vectorize calls carry otypes so that an empty first well does '
                           'not fix an integer dtype). R3: both functions convert every stored amount with its own '
                           'storage unit. R4: stage slices and the record protocol of bake. Not decided: the identity '
                           'in - out = change of remaining for all programs; non-negativity of flows.'}


def t4(ctx, fi, ff):
    """builtin round() on a value that may be an ndarray raises TypeError."""
    n = 0
    for c, s, b in ff.calls:
        if isinstance(c.func, ast.Name) and c.func.id == 'round' and c.args:
            arg = c.args[0]
            raw = c.orig.args[0] if hasattr(c, 'orig') else None
            may_array = False
            # the rounded value is an element of a dict / variable that may hold numpy arrays
            base = raw
            while isinstance(base, ast.Subscript):
                base = base.value
            names = {base.id} if isinstance(base, ast.Name) else set()
            for st in walk_no_nested(fi.node):
                if isinstance(st, ast.Assign) and any(isinstance(t, ast.Name) and t.id in names for t in st.targets):
                    if any(isinstance(x, ast.Call) and unparse(x.func).split('.')[-1] in ('zeros', 'array', 'vectorize', 'zeros_like')
                           for x in ast.walk(st.value)):
                        may_array = True
            if not names:
                continue
            n += 1
            if may_array:
                # excluded on this path by an isinstance(.., ndarray) test?
                for cc in facts_at(b):
                    t = strip_refs(cc.left)
                    if cc.op == 'falsy' and isinstance(t, ast.Call) and getattr(t.func, 'id', '') == 'isinstance' and \
                            'ndarray' in unparse(t.args[1].orig if hasattr(t.args[1], 'orig') else t.args[1]) and \
                            same_value(t.args[0], arg):
                        may_array = False
            ctx.ob('C15.R2', fi, s.lineno, f"round({unparse(raw, 30)}, ..) is applied to scalars only", not may_array,
                   fact=('the variable may hold a numpy array (per-well flows of a plate)' if may_array else 'scalar'),
                   why='the builtin round() raises TypeError on a numpy array: flows of a plate cannot be queried',
                   key='builtin round on ndarray')
    floor(ctx, 'round() calls in get_container_flows', n, 1)


def distinct_accumulators(ctx, rule):
    """The running totals of what entered and what left are two objects.  For a plate they are arrays that are updated
    in place (`flows[k] += ..`): built with `dict.fromkeys(keys, array)` or from one name they are one array, and both
    answers become inflow + outflow."""
    model = ctx.model
    fi = model.func('Recipe.get_container_flows')
    n = 0
    for st in ast.walk(fi.node):
        if not (isinstance(st, ast.Assign) and len(st.targets) == 1 and isinstance(st.targets[0], ast.Name)):
            continue
        v = st.value
        shared = None
        is_acc = False
        if isinstance(v, ast.Dict) and {getattr(k, 'value', None) for k in v.keys} >= {'in', 'out'}:
            is_acc = True
            names = [x.id for x in v.values if isinstance(x, ast.Name)]
            if len(names) != len(set(names)):
                shared = f"both keys hold the one object `{names[0]}`"
        elif isinstance(v, ast.DictComp):
            src = unparse(v.generators[0].iter)
            if 'in' in src and 'out' in src or 'flows' in src:
                is_acc = True
                if isinstance(v.value, ast.Name) and v.value.id not in {x.id for x in ast.walk(v.generators[0].target) if isinstance(x, ast.Name)}:
                    shared = f"every key holds the one object `{v.value.id}`"
        elif isinstance(v, ast.Call) and unparse(v.func) == 'dict.fromkeys' and v.args:
            src = unparse(v.args[0])
            if ('in' in src and 'out' in src) or 'flows' in src:
                is_acc = True
                val = v.args[1] if len(v.args) > 1 else None
                if val is not None and not isinstance(val, ast.Constant):
                    shared = f"dict.fromkeys binds every key to the one object `{unparse(val, 40)}`"
        if not is_acc:
            continue
        n += 1
        ctx.ob(rule, fi, st.lineno, f"the totals of inflow and outflow are separate objects (`{unparse(st, 50)}`)",
               shared is None, fact=shared or 'one value expression per key',
               why='the per-well arrays are updated in place: one shared array makes "in" and "out" both report '
                   'inflow + outflow', key='in and out share one accumulator')
    floor(ctx, 'definitions of the flow totals', n, 1)


def t5(ctx, rule='C15.R2', only=None, dtype_only=False):
    """numpy.vectorize / frompyfunc discipline over the whole library (or the functions named in `only`)."""
    model = ctx.model
    n = 0
    for fi in model.functions():
        if fi.parent is not None:
            continue
        if only is not None and fi.qualname not in only:
            continue
        for c in ast.walk(fi.node):
            if not (isinstance(c, ast.Call) and unparse(c.func).split('.')[-1] == 'vectorize' and c.args):
                continue
            n += 1
            kws = {k.arg for k in c.keywords}
            fn = c.args[0]
            numeric = None
            body = None
            if isinstance(fn, ast.Lambda):
                body = [fn.body]
            elif isinstance(fn, ast.Name):
                defs = [d for d in ast.walk(fi.node) if isinstance(d, ast.FunctionDef) and d.name == fn.id]
                if defs:
                    body = [r.value for r in ast.walk(defs[0]) if isinstance(r, ast.Return) and r.value is not None]
            if body is not None:
                src = ' '.join(unparse(b, 400) for b in body)
                numeric = any(k in src for k in ('sum(', 'convert', 'get_volume', 'get_concentration', 'amount')) or \
                    any(_numeric_expr(b) for b in body)
                objecty = any(k in src for k in ('set(', '.transfer(', '.remove(', '.fill_to(', 'elem,', 'return elem'))
                if objecty and not numeric:
                    numeric = False
            if numeric:
                ok = 'otypes' in kws
                why = 'without otypes numpy takes the dtype from the first well: an empty first well (int 0) truncates ' \
                      'every later amount to an integer'
            else:
                if dtype_only:
                    continue
                ok = 'otypes' in kws or 'cache' in kws or numeric is None
                why = 'without cache=True numpy calls the function once more on the first element'
            ctx.ob(rule, fi, c.lineno, f"numpy.vectorize({unparse(fn, 30)}) in {fi.qualname}: "
                                           f"{'numeric result needs otypes' if numeric else 'no warm-up call'}", ok,
                   fact=f"keywords {sorted(kws)}", why=why,
                   key=f"vectorize without otypes: {unparse(fn, 30)}" if numeric else f"vectorize without cache: {unparse(fn, 30)}")
    if only is None:
        floor(ctx, 'numpy.vectorize call sites', n, 3)


def _numeric_expr(e):
    """Does the returned expression denote a number read from the stored amounts (contents.get(k, 0), contents[k],
    arithmetic on those)?"""
    if isinstance(e, ast.Constant):
        return isinstance(e.value, (int, float)) and not isinstance(e.value, bool)
    if isinstance(e, ast.BinOp):
        return _numeric_expr(e.left) or _numeric_expr(e.right)
    if isinstance(e, ast.IfExp):
        return _numeric_expr(e.body) or _numeric_expr(e.orelse)
    if isinstance(e, ast.Call):
        f = e.func
        if isinstance(f, ast.Name) and f.id in ('float', 'int', 'round', 'abs', 'len', 'sum', 'max', 'min'):
            return True
        if isinstance(f, ast.Attribute) and f.attr == 'get' and isinstance(f.value, ast.Attribute) and \
                f.value.attr in ('contents', 'trash'):
            return True
        return False
    if isinstance(e, ast.Subscript):
        return isinstance(e.value, ast.Attribute) and e.value.attr in ('contents', 'trash')
    if isinstance(e, ast.Attribute):
        return e.attr in ('volume', 'max_volume')
    return False


def precision_of_requested_unit(ctx, rule, qualnames):
    """An answer in the requested unit is rounded with the display precision of THAT unit: every lookup
    `config.precisions[K]` in the tracking queries has K = the `unit` the answer is expressed in (or 'default')."""
    from ..flow import definitions_of
    model = ctx.model
    n = 0
    for q in qualnames:
        fi = model.func(q)
        if 'unit' not in fi.param_names():
            continue
        ff = ctx.flow(q)
        seen = set()
        for sid, v in list(ff.resolved.items()):
            if v is None:
                continue
            for x in deep_walk(v, follow_refs=False):
                if not (isinstance(x, ast.Subscript) and getattr(x.value, 'pkey', None) == 'config.precisions'):
                    continue
                raw = getattr(x, 'orig', x)
                if id(raw) in seen:
                    continue
                seen.add(id(raw))
                k = x.slice
                if const_value(k) == 'default':
                    continue
                n += 1
                roots = definitions_of(k) if isinstance(k, (Ref, Phi)) else [k]
                ok = any((isinstance(strip_refs(r), Param) and strip_refs(r).name == 'unit') or
                         (isinstance(r, Ref) and r.name == 'unit') for r in roots) or \
                    (isinstance(strip_refs(k), Param) and strip_refs(k).name == 'unit')
                ctx.ob(rule, fi, getattr(x, 'lineno', fi.node.lineno), f"{fi.name}: the rounding precision is looked up for the requested unit",
                       ok, fact=f"config.precisions[{show(k, 40)}]",
                       why='the answer is rounded with the precision of another unit (e.g. 0 digits of uL for a value in mL)',
                       key=f"precision of another unit in {fi.name}")
    ctx.count('precision_lookups', n)

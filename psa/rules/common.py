"""Helpers shared by the rule modules."""
from __future__ import annotations

import ast

from ..flow import (Ref, Param, LoopVar, Elt, Phi, Acc, Sym, Free, Unknown, FuncRef, deep_walk, strip_refs, show,
                    facts_at, same_value)
from ..model import AnalysisError, walk_no_nested


def root_of_expr(e, through_calls=False):
    """Root object of an access path (following Ref identities): returns the root node (Param, LoopVar, Call,
    Name, ...) of `a.b[c].d`."""
    n = e
    while True:
        if isinstance(n, Ref):
            n = n.value
        elif isinstance(n, (ast.Attribute, ast.Subscript)):
            n = n.value
        elif isinstance(n, Elt):
            n = n.value
        elif through_calls and isinstance(n, ast.Call) and isinstance(n.func, ast.Attribute):
            n = n.func.value
        else:
            return n


def path_from_param(e):
    """('param name', [attr/sub chain]) if `e` is an access path rooted at a parameter, else None.  Ref identities
    that are plain aliases are followed."""
    chain = []
    n = e
    while True:
        if isinstance(n, Ref):
            n = n.value
        elif isinstance(n, ast.Attribute):
            chain.append(n.attr)
            n = n.value
        elif isinstance(n, ast.Subscript):
            chain.append('[]')
            n = n.value
        elif isinstance(n, Param):
            return n.name, list(reversed(chain))
        else:
            return None


def is_param_attr(e, pname, *attrs):
    p = path_from_param(e)
    return p is not None and p[0] == pname and p[1] == list(attrs)


def mentions_param_attr(e, pname, attr):
    """Does the (deeply resolved) expression read `<pname>....<attr>`?"""
    for n in deep_walk(e):
        if isinstance(n, ast.Attribute) and n.attr == attr:
            r = root_of_expr(n.value)
            if isinstance(r, Param) and r.name == pname:
                return True
    return False


def mentions_self_attr(e, attr, selfname='self'):
    for n in deep_walk(e):
        if isinstance(n, ast.Attribute) and n.attr == attr and isinstance(n.value, Param) and n.value.name == selfname:
            return True
    return False


def call_name(c):
    """('Class' or None, 'method') for Class.m(..) / x.m(..); (None, 'f') for f(..)."""
    f = c.func
    if isinstance(f, ast.Name):
        return None, f.id
    if isinstance(f, ast.Attribute):
        if isinstance(f.value, ast.Name):
            return f.value.id, f.attr
        return None, f.attr
    return None, None


def is_call_to(c, *names):
    return isinstance(c, ast.Call) and call_name(c)[1] in names


def block_chain(stmt):
    """[(block_list, index)] from the innermost block containing stmt outwards (within the function)."""
    out = []
    n = stmt
    while n is not None and not isinstance(n, (ast.FunctionDef, ast.AsyncFunctionDef, ast.Lambda, ast.Module)):
        p = getattr(n, 'parent', None)
        if p is None:
            break
        for fname in ('body', 'orelse', 'finalbody', 'handlers'):
            blk = getattr(p, fname, None)
            if isinstance(blk, list) and any(x is n for x in blk):
                out.append((blk, [i for i, x in enumerate(blk) if x is n][0], p, fname))
        n = p
    return out


def dominates(a, b):
    """Structural dominance: statement `a` is a direct member of a block that contains (an ancestor of) `b` at a
    later index - then every path reaching b has executed a (no gotos in Python).  `a` inside a try body does not
    dominate statements of its handlers."""
    if a is b:
        return False
    for blk, idx, parent, fname in block_chain(b):
        for i in range(idx):
            if blk[i] is a:
                return True
        # a `try` body statement followed by handler code: not dominance
    return False


def stmt_of(node):
    n = node
    while n is not None and not isinstance(n, ast.stmt):
        n = getattr(n, 'parent', None)
    return n


def orig(n):
    return getattr(n, 'orig', n)


def line_of(n):
    n0 = orig(n)
    return getattr(n0, 'lineno', 0) or getattr(n, 'lineno', 0)


def const_value(e):
    e = strip_refs(e)
    if isinstance(e, ast.Constant):
        return e.value
    if isinstance(e, ast.UnaryOp) and isinstance(e.op, ast.USub) and isinstance(e.operand, ast.Constant):
        return -e.operand.value
    return None


def floor(ctx, what, found, minimum):
    """Anchor floor: fewer sites than were confirmed by hand -> the analysis lost its footing (exit 2)."""
    if found < minimum:
        raise AnalysisError(f"anchor floor: {what}: found {found}, expected at least {minimum}")
    ctx.count(f"sites:{what}", found)


def gate_with(state, pred, exc=None):
    """Facts at `state` (normalised comparisons) satisfying pred, optionally tagged with exception type exc."""
    out = []
    for c in facts_at(state):
        if exc is not None and (c.exc is None or exc not in c.exc.split('|')):
            continue
        try:
            if pred(c):
                out.append(c)
        except Exception:
            continue
    return out


# ------------------------------------------------------------------------------------------------ decision trees
def alternatives(ff, v, conds=(), depth=0):
    """All ways a resolved value can have been chosen, as [(conditions, leaf)]: conditional expressions, joins of
    definitions made under different branch facts, aliases, and subscripts whose object or index is itself a choice
    are expanded.  A condition is a flow Fact (test, truth).  Bounded: depth 12, 64 alternatives."""
    import copy as _copy
    from ..flow import Fact
    if depth > 12:
        return [(conds, v)]
    if isinstance(v, Ref):
        return alternatives(ff, v.value, conds, depth + 1)
    if isinstance(v, Phi):
        out = []
        for o in v.options:
            extra = ()
            st = ff.pre.get(id(getattr(o, 'stmt', None))) if isinstance(o, Ref) else None
            if st is not None:
                extra = tuple(st.facts.values())
            out.extend(alternatives(ff, o, conds + extra, depth + 1))
            if len(out) > 64:
                break
        return out
    if isinstance(v, ast.IfExp):
        t = Fact(v.test, True, v.test)
        f = Fact(v.test, False, v.test)
        return alternatives(ff, v.body, conds + (t,), depth + 1) + alternatives(ff, v.orelse, conds + (f,), depth + 1)
    if isinstance(v, ast.Subscript) and getattr(v, 'pkey', None) is None or \
            (isinstance(v, ast.Subscript) and isinstance(v.value, (Ref, Phi, ast.IfExp))):
        vs = alternatives(ff, v.value, (), depth + 1)
        ss = alternatives(ff, v.slice, (), depth + 1)
        if len(vs) == 1 and len(ss) == 1 and not vs[0][0] and not ss[0][0]:
            return [(conds, v)]
        out = []
        for c1, a in vs:
            for c2, b in ss:
                n = _copy.copy(v)
                n.value, n.slice = a, b
                n.pkey = None
                out.append((conds + c1 + c2, n))
        return out[:64]
    return [(conds, v)]


def leaf_key(n):
    """'step.to[1]' for a (possibly re-assembled) read of a record entry."""
    n0 = strip_refs(n) if isinstance(n, Ref) else n
    k = getattr(n0, 'pkey', None)
    if k:
        return k
    if isinstance(n0, ast.Subscript):
        base = leaf_key(n0.value)
        idx = const_value(n0.slice)
        if base is not None and idx is not None:
            return f"{base}[{idx!r}]"
    if isinstance(n0, ast.Attribute):
        base = leaf_key(n0.value)
        if base is not None:
            return f"{base}.{n0.attr}"
    if isinstance(n0, ast.Name):
        return n0.id
    if isinstance(n0, Param):
        return n0.name
    return None


def on_every_normal_path(stmt, fn_node):
    """Is `stmt` executed on every path that leaves the function normally?  Syntactic: every enclosing `if` has its
    other arm ending in `raise`, and no loop / try / with encloses it; statements before it in its block that can
    return make it conditional as well."""
    n = stmt
    while True:
        par = getattr(n, 'parent', None)
        if par is None:
            return False
        for field in ('body', 'orelse', 'finalbody'):
            blk = getattr(par, field, None)
            if isinstance(blk, list) and any(x is n for x in blk):
                idx = [i for i, x in enumerate(blk) if x is n][0]
                for earlier in blk[:idx]:
                    if any(isinstance(r, ast.Return) for r in ast.walk(earlier)
                           if not isinstance(earlier, (ast.FunctionDef, ast.Lambda))):
                        return False
                if par is fn_node:
                    return True
                if isinstance(par, ast.If):
                    other = par.orelse if field == 'body' else par.body
                    if not other or not isinstance(other[-1], ast.Raise):
                        return False
                elif isinstance(par, ast.With):
                    pass
                else:
                    return False
                break
        else:
            return False
        n = par


def args_in_order(call, fi, drop_self=True):
    """The arguments of a call in the callee's parameter order, whether given by position or by keyword (None where a
    parameter is left to its default).  `fi` is the callee."""
    params = fi.param_names(drop_self=drop_self)
    out = [None] * len(params)
    for i, a in enumerate(call.args[:len(params)]):
        out[i] = a
    for k in call.keywords:
        if k.arg in params:
            out[params.index(k.arg)] = k.value
    return out

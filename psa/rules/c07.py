"""C07 - Plate operations act well-by-well on exactly the addressed wells.
Locality + forwarding + arity/attribute typing + once-per-step."""
from __future__ import annotations

import ast

from ..flow import (Ref, Param, LoopVar, Elt, Phi, Acc, Sym, FuncRef, strip_refs, show, pathkey, same_value, deep_walk,
                    walk_no_sym, facts_at)
from ..model import AnalysisError, unparse, walk_no_nested
from .common import root_of_expr, path_from_param, const_value, floor, call_name, is_call_to, dominates


def forwarding(ctx, rule, only=None):
    """The per-well function of PlateSlicer.remove / fill_to is the same-named Container method on the element with
    the outer parameters unchanged; Plate.* delegate to self[:]."""
    model = ctx.model
    for name in ('remove', 'fill_to'):
        if only is not None and name not in only:
            continue
        fi = model.func(f"PlateSlicer.{name}")
        ff = ctx.flow(fi.qualname)
        applies = [(c, s, b) for c, s, b in ff.calls if isinstance(c.func, ast.Attribute) and c.func.attr == 'apply']
        if not applies:
            raise AnalysisError(f"PlateSlicer.{name} no longer applies a per-well function")
        params = fi.param_names()
        for c, s, b in applies:
            fn = c.args[0] if c.args else None
            ok, fact = False, f"applies {show(fn, 60)}"
            body = None
            if isinstance(fn, ast.Lambda):
                body = fn.body
                eparams = [a.arg for a in fn.args.args]
            elif isinstance(fn, FuncRef):
                rets = [r for r in ast.walk(fn.node) if isinstance(r, ast.Return)]
                body = ff.resolve(rets[0].value, b) if len(rets) == 1 else None
                eparams = [a.arg for a in fn.node.args.args]
            if isinstance(body, ast.Call) and isinstance(body.func, ast.Attribute) and body.func.attr == name and \
                    len(eparams) == 1:
                recv = strip_refs(body.func.value)
                recv_ok = isinstance(recv, Param) and recv.name == eparams[0] or \
                    (isinstance(recv, ast.Name) and recv.id == eparams[0])
                args_ok = len(body.args) == len(params) and not body.keywords and all(
                    isinstance(strip_refs(a), Param) and strip_refs(a).name == p and strip_refs(a).func is fi
                    for a, p in zip(body.args, params))
                ok = recv_ok and args_ok
                fact = f"per well: elem.{name}({', '.join(show(a, 15) for a in body.args)})"
            ctx.ob(rule, fi, s.lineno, f"PlateSlicer.{name} forwards to Container.{name} per well with its own arguments",
                   ok, fact=fact, why='wells are given a different operation or different arguments than requested',
                   key=f"forwarding PlateSlicer.{name}")
            recv = c.func.value
            ctx.ob(rule, fi, s.lineno, f"PlateSlicer.{name} applies the function to its own selection",
                   isinstance(strip_refs(recv), (Param, Ref)) and not isinstance(strip_refs(recv), ast.Subscript) and
                   not any(isinstance(n, ast.Subscript) for n in walk_no_sym(recv) if not isinstance(recv, Sym)),
                   fact=f"receiver {show(recv, 30)}", why='the operation is applied to other wells than the addressed ones',
                   key=f"apply receiver PlateSlicer.{name}", nontrivial=False)
        # Plate.<name> delegates to the whole-plate slice
        pf = model.func(f"Plate.{name}")
        pff = ctx.flow(pf.qualname)
        ok = False
        fact = ''
        for ex in pff.normal_exits():
            v = strip_refs(ex.value)
            fact = show(v, 60)
            if isinstance(v, ast.Call) and isinstance(v.func, ast.Attribute) and v.func.attr == name:
                r = strip_refs(v.func.value)
                whole = isinstance(r, ast.Subscript) and isinstance(strip_refs(r.value), Param) and \
                    isinstance(r.slice, ast.Slice) and r.slice.lower is None and r.slice.upper is None and r.slice.step is None
                pp = pf.param_names()
                args_ok = len(v.args) == len(pp) and all(isinstance(strip_refs(a), Param) and strip_refs(a).name == p
                                                         for a, p in zip(v.args, pp))
                ok = whole and args_ok
        ctx.ob(rule, pf, pf.node.lineno, f"Plate.{name} delegates to self[:].{name} with its own arguments", ok,
               fact=fact, why='the whole-plate operation does not address all wells', key=f"delegation Plate.{name}")

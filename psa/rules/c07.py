"""C07 - Plate operations act well-by-well on exactly the addressed wells.
Locality + forwarding + arity/attribute typing + once-per-step."""
from __future__ import annotations

import ast

from ..flow import (Ref, Param, LoopVar, Elt, Phi, Acc, Sym, FuncRef, strip_refs, show, pathkey, same_value, deep_walk,
                    walk_no_sym, facts_at)
from ..model import AnalysisError, unparse, walk_no_nested
from .common import root_of_expr, path_from_param, const_value, floor, call_name, is_call_to, dominates


def _module_rooted(recv):
    r = recv
    while isinstance(r, ast.Attribute):
        r = r.value
    return isinstance(r, ast.Name) and r.id in ('np', 'numpy', 'pandas', 'pd', 'math', 'itertools', 'functools', 'styler', 'df')


def _passes_own_arguments(call, params, fi):
    """Does the call hand every parameter on unchanged, each in the position or under the keyword of the same name?"""
    got = {}
    for a, p in zip(call.args, params):
        got[p] = a
    if len(call.args) > len(params):
        return False
    for k in call.keywords:
        if k.arg is None or k.arg in got:
            return False
        got[k.arg] = k.value
    if set(got) != set(params):
        return False
    for p, a in got.items():
        a0 = strip_refs(a)
        if not (isinstance(a0, Param) and a0.name == p and (fi is None or a0.func is fi)):
            return False
    return True


def forwarding(ctx, rule, only=None):
    """The per-well function of PlateSlicer.remove / fill_to is the same-named Container method on the element with
    the outer parameters unchanged; Plate.* delegate to self[:]."""
    model = ctx.model
    for name in ('remove', 'fill_to'):
        if only is not None and name not in only:
            continue
        fi = model.func(f"PlateSlicer.{name}")
        ff = ctx.flow(fi.qualname)
        applies = [(c, s, b) for c, s, b in ff.calls if isinstance(c.func, ast.Attribute) and c.func.attr == 'apply']
        if not applies:
            raise AnalysisError(f"PlateSlicer.{name} no longer applies a per-well function")
        params = fi.param_names()
        for c, s, b in applies:
            fn = c.args[0] if c.args else None
            ok, fact = False, f"applies {show(fn, 60)}"
            body = None
            if isinstance(fn, ast.Lambda):
                body = fn.body
                eparams = [a.arg for a in fn.args.args]
            elif isinstance(fn, FuncRef):
                rets = [r for r in ast.walk(fn.node) if isinstance(r, ast.Return)]
                body = ff.resolve(rets[0].value, b) if len(rets) == 1 else None
                eparams = [a.arg for a in fn.node.args.args]
            if isinstance(body, ast.Call) and isinstance(body.func, ast.Attribute) and body.func.attr == name and \
                    len(eparams) == 1:
                recv = strip_refs(body.func.value)
                recv_ok = isinstance(recv, Param) and recv.name == eparams[0] or \
                    (isinstance(recv, ast.Name) and recv.id == eparams[0])
                args_ok = _passes_own_arguments(body, params, fi)
                ok = recv_ok and args_ok
                fact = f"per well: elem.{name}({', '.join(show(a, 15) for a in body.args)})"
            ctx.ob(rule, fi, s.lineno, f"PlateSlicer.{name} forwards to Container.{name} per well with its own arguments",
                   ok, fact=fact, why='wells are given a different operation or different arguments than requested',
                   key=f"forwarding PlateSlicer.{name}")
            recv = c.func.value
            r0 = strip_refs(recv)
            if isinstance(r0, ast.Call) and getattr(r0.func, 'id', '') in ('copy', 'deepcopy') and r0.args:
                r0 = strip_refs(r0.args[0])         # a (shallow) copy of the slice keeps its selection
            ctx.ob(rule, fi, s.lineno, f"PlateSlicer.{name} applies the function to its own selection",
                   isinstance(r0, Param) and r0.name == fi.param_names(drop_self=False)[0],
                   fact=f"receiver {show(recv, 30)}", why='the operation is applied to other wells than the addressed ones',
                   key=f"apply receiver PlateSlicer.{name}", nontrivial=False)
        # Plate.<name> delegates to the whole-plate slice
        pf = model.func(f"Plate.{name}")
        pff = ctx.flow(pf.qualname)
        ok = False
        fact = ''
        for ex in pff.normal_exits():
            v = strip_refs(ex.value)
            fact = show(v, 60)
            if isinstance(v, ast.Call) and isinstance(v.func, ast.Attribute) and v.func.attr == name:
                r = strip_refs(v.func.value)
                whole = isinstance(r, ast.Subscript) and isinstance(strip_refs(r.value), Param) and \
                    isinstance(r.slice, ast.Slice) and r.slice.lower is None and r.slice.upper is None and r.slice.step is None
                pp = pf.param_names()
                args_ok = _passes_own_arguments(v, pp, None)
                ok = whole and args_ok
        ctx.ob(rule, pf, pf.node.lineno, f"Plate.{name} delegates to self[:].{name} with its own arguments", ok,
               fact=fact, why='the whole-plate operation does not address all wells', key=f"delegation Plate.{name}")


EXTERNAL_METHOD_NAMES = {'get', 'copy', 'set', 'apply', 'remove', 'index', 'append', 'add', 'items', 'keys', 'values', 'join',
                         'split', 'format', 'round', 'sum', 'min', 'max', 'flatten', 'pop', 'replace', 'strip', 'count',
                         'endswith', 'update', 'use', 'export', 'dataframe', 'highlight_wells', 'get_dataframe'}


def arity(ctx, rule):
    """T1: a call whose callee resolves to repo methods none of which accepts it cannot execute."""
    model = ctx.model
    checked = 0
    for fi in model.functions():
        if fi.parent is not None or fi.mod.rel not in ('pyplate/pyplate.py', 'pyplate/slicer.py'):
            continue
        for c in ast.walk(fi.node):
            if not (isinstance(c, ast.Call) and isinstance(c.func, ast.Attribute)):
                continue
            name = c.func.attr
            cands = model.methods_named(name)
            if not cands or name.startswith('__'):
                continue
            if any(isinstance(a, ast.Starred) for a in c.args) or any(k.arg is None for k in c.keywords):
                continue
            recv = c.func.value
            via_class = isinstance(recv, ast.Name) and recv.id in model.classes
            if via_class:
                m = model.lookup_method(recv.id, name)
                cands = [m] if m is not None else []
                if not cands:
                    continue
            elif isinstance(recv, ast.Name) and recv.id in ('self',) and fi.cls is not None:
                m = model.lookup_method(fi.cls.name, name)
                cands = [m] if m is not None else cands
            elif name in EXTERNAL_METHOD_NAMES:
                continue
            elif _module_rooted(recv):
                continue            # numpy.linalg.solve(..), np.shape(..): a function of an imported module
            if isinstance(recv, ast.Call) and getattr(recv.func, 'id', '') == 'super':
                continue
            checked += 1
            kws = [k.arg for k in c.keywords]
            ok = any(m.accepts(len(c.args), kws, via_class=via_class) for m in cands)
            if ok:
                continue
            ctx.ob(rule, fi, c.lineno, f"call `{unparse(c, 60)}` matches the signature of a callee", False,
                   fact=f"candidates: {[m.qualname + ('(static)' if m.is_static else '') for m in cands]}; "
                        f"{len(c.args)} positional, keywords {kws}",
                   why='no method of that name accepts this call: the branch raises TypeError whenever it is reached',
                   key=f"arity {name}: {unparse(c, 60)}")
    ctx.ob(rule, 'PlateSlicer', 0, 'method calls with a resolvable callee match a signature', True,
           fact=f"{checked} calls checked", nontrivial=False, key='arity summary')
    floor(ctx, 'resolvable method calls', checked, 30)


def narrowed_classes(e, state, model, depth=0):
    """Classes an expression is known to range over from isinstance facts (through copy/deepcopy aliases)."""
    if depth > 8:
        return None
    v = e
    while isinstance(v, Ref):
        inner = v.value
        if isinstance(inner, ast.Call) and isinstance(inner.func, ast.Name) and inner.func.id in ('copy', 'deepcopy') and inner.args:
            return narrowed_classes(inner.args[0], state, model, depth + 1)
        v = inner
    if not isinstance(v, Param):
        return None
    classes = None
    for f in state.facts.values():
        t = f.test
        if isinstance(t, ast.Call) and isinstance(t.func, ast.Name) and t.func.id == 'isinstance' and len(t.args) == 2 and \
                strip_refs(t.args[0]) is v:
            tn = t.args[1]
            names = [unparse(x.orig if hasattr(x, 'orig') else x) for x in (tn.elts if isinstance(tn, ast.Tuple) else [tn])]
            names = [n for n in names if n in model.classes]
            if f.truth and names:
                classes = set(names) if classes is None else classes & set(names)
            elif not f.truth and classes is not None:
                classes -= set(names)
    return classes


def union_attributes(ctx, rule, qualnames):
    """T2: an attribute read on a value narrowed by isinstance(x, (A, B)) must exist on every member class."""
    model = ctx.model
    n = 0
    for q in qualnames:
        fi = model.func(q)
        ff = ctx.flow(q)
        seen = set()
        reads = {}
        for node in walk_no_nested(fi.node):
            if not isinstance(node, ast.stmt) or id(node) not in ff.pre:
                continue
            st = ff.state_before(node)
            exprs = []
            for sub in ast.iter_child_nodes(node):
                if isinstance(sub, ast.expr):
                    exprs.append(sub)
            if isinstance(node, (ast.If, ast.While)):
                exprs = [node.test]
            elif isinstance(node, ast.For):
                exprs = [node.iter]
            for ex in exprs:
                for a in ast.walk(ex):
                    if isinstance(a, ast.Attribute) and isinstance(a.ctx, ast.Load) and isinstance(a.value, ast.Name):
                        r = ff.resolve(a.value, st)
                        cl = narrowed_classes(r, st, model)
                        if not cl or len(cl) < 2:
                            continue
                        keyk = (a.value.id, tuple(sorted(cl)))
                        reads.setdefault(keyk, {}).setdefault(a.attr, a.lineno)
        for (var, cl), attrs in sorted(reads.items()):
            n += len(attrs)
            missing = {}
            for attr, line in attrs.items():
                for c in cl:
                    if attr not in model.instance_attrs(c):
                        missing.setdefault(c, []).append(attr)
            line = min(attrs.values())
            ctx.ob(rule, fi, line, f"attributes read on `{var}` exist on every class it may be ({', '.join(cl)})",
                   not missing, fact=f"narrowed by isinstance to {list(cl)}; reads {sorted(attrs)}",
                   why='; '.join(f"{c} has no {sorted(a)}" for c, a in sorted(missing.items())) +
                       ': that documented input raises AttributeError',
                   key=f"attributes of {var} missing on {','.join(sorted(missing))}")
    return n


def shape_dispatch(ctx, rule):
    model = ctx.model
    fi = model.func('PlateSlicer._transfer')
    ff = ctx.flow(fi.qualname)
    regs = ff.registrations
    found = {'one-to-many': None, 'many-to-one': None, 'element-wise': None}
    for call, stmt, before in regs:
        eqs = []
        for c in facts_at(before):
            if c.op == 'eq':
                l, r = show(c.left, 30), show(c.right, 30)
                eqs.append((l, r, const_value(c.right), const_value(c.left)))
        sizes1 = [e for e in eqs if e[2] == 1 or e[3] == 1]
        if any('.size' in e[0] or '.size' in e[1] for e in sizes1):
            who = [e[0] if '.size' in e[0] else e[1] for e in sizes1 if '.size' in e[0] or '.size' in e[1]][0]
            params = fi.param_names()
            if who.startswith(params[0]):
                found['one-to-many'] = (stmt, f"{who} == 1")
            elif who.startswith(params[1]):
                found['many-to-one'] = (stmt, f"{who} == 1")
        both = [e for e in eqs if '.size' in e[0] and '.size' in e[1]]
        shp = [e for e in eqs if '.shape' in e[0] and '.shape' in e[1]]
        if both and shp:
            found['element-wise'] = (stmt, f"{both[0][0]} == {both[0][1]} and {shp[0][0]} == {shp[0][1]}")
    for k, v in found.items():
        ctx.ob(rule, fi, (v[0].lineno if v else fi.node.lineno), f"pairing form {k} has a branch", v is not None,
               fact=v[1] if v else 'no per-well function is registered under that shape condition',
               why='a documented pairing form is not handled', key=f"pairing branch {k}")
    # every other combination raises ValueError
    others = [e for e in ff.raise_exits() if e.exc == 'ValueError' and
              any(c.op == 'ne' and ('.size' in show(c.left, 30) or '.shape' in show(c.left, 30)) or c.op == 'not-chain' or
                  (c.op in ('falsy',)) for c in facts_at(e.state))]
    rej = [e for e in ff.raise_exits() if e.exc == 'ValueError']
    ctx.ob(rule, fi, (rej[-1].line if rej else fi.node.lineno), 'any other combination of shapes is rejected with ValueError',
           bool(rej), fact=f"{len(rej)} ValueError exit(s)", why='mismatched shapes are not refused', key='shape mismatch rejection',
           nontrivial=False)


def addressed_selection(ctx, rule='C07.R4', only=None):
    """In bake, an operation of a step whose destination / source may be a slice must act on that slice re-bound to
    the current plate (a deep copy of the declared slice), not on the whole current plate."""
    from .c09 import bake_branches, _inside, _is_operation
    from .c08 import operand_types
    model = ctx.model
    bake = model.func('Recipe.bake')
    ff = ctx.flow('Recipe.bake')
    branches = bake_branches(ctx)
    steps = {'remove': 'Recipe.remove', 'fill_to': 'Recipe.fill_to', 'transfer': 'Recipe.transfer'}
    n = 0
    for op, q in steps.items():
        if only is not None and op not in only:
            continue
        body, node = branches[op]
        mfi = model.func(q)
        may_slice = [p for p in mfi.param_names() if 'PlateSlicer' in (mfi.annotation(p) or '')]
        if not may_slice:
            continue
        calls = [(c, s, b) for c, s, b in ff.calls if _is_operation(c.orig if hasattr(c, 'orig') else c) and _inside(s, node)]
        for c, s, b in calls:
            raw = c.orig if hasattr(c, 'orig') else c
            operands = list(c.args)
            if isinstance(c.func, ast.Attribute) and not (isinstance(raw.func.value, ast.Name) and raw.func.value.id in model.classes):
                operands.insert(0, c.func.value)
            plate_side = []
            stale_item = []
            for a in operands:
                srcs = list(deep_walk(a))
                from_results = any(isinstance(x, ast.Subscript) and path_from_param(x.value) == ('self', ['results']) for x in srcs) or \
                    any(isinstance(x, Ref) and (x.name.startswith('self.results[') or x.name.startswith('step.to[') or
                                                x.name.startswith('step.frm[')) for x in srcs) or \
                    any(getattr(x, 'pkey', '') in ('step.to[0]', 'step.frm[0]') for x in srcs)
                if not from_results:
                    continue
                keeps_selection = any(isinstance(x, ast.Call) and getattr(x.func, 'id', '') == 'deepcopy' for x in srcs)
                # re-slicing the current plate: with the resolved selection (.slices) it addresses the same wells; the
                # original index expression (.item) is the parent's for a slice of a slice
                for x in srcs:
                    if isinstance(x, ast.Subscript) and isinstance(strip_refs(x.value), ast.Subscript) and \
                            path_from_param(strip_refs(x.value).value) == ('self', ['results']):
                        sel = strip_refs(x.slice)
                        if isinstance(sel, ast.Attribute) and sel.attr == 'slices':
                            keeps_selection = True
                        elif isinstance(sel, ast.Attribute) and sel.attr == 'item':
                            stale_item.append(show(a, 30))
                plate_side.append((a, keeps_selection))
            if not plate_side:
                continue
            n += 1
            bad = [show(a, 30) for a, k in plate_side if not k]
            ctx.ob(rule, bake, s.lineno, f"`{op}` branch: `{unparse(raw, 50)}` acts on the addressed selection", not bad,
                   fact=(f"operand(s) {stale_item} re-slice the current plate with the index expression the slice was first "
                         f"made from: for a slice of a slice that is the parent's region" if stale_item else
                         f"operand(s) {bad} are the whole current object even when the step addressed a slice" if bad else
                         'every plate-side operand is the declared slice (copied) re-bound to the current plate, or the '
                         'whole object when the step addressed it'),
                   why='a step that addresses part of a plate is applied to every well', key=f"whole plate instead of selection in {op}")
    if only is None:
        floor(ctx, 'operations on possibly-sliced operands in bake', n, 3)


def run(ctx):
    from .configtime import derived_values as _derived
    _derived(ctx, 'C07.R1', ('Slicer', 'PlateSlicer', 'Plate'))
    from .configtime import decisions_not_taken_on_display_values as _coarse
    _coarse(ctx, 'C07.R1', ('Container', 'Plate', 'PlateSlicer', 'Recipe', 'RecipeStep'))
    # whatever the plate-level transfers compute themselves (a fail-early total, a pre-check) is unit-consistent
    from . import targets as _targets
    from .. import uscan as _uscan2
    for q_ in ('Container._transfer_slice', 'PlateSlicer._transfer'):
        _uscan2.report_sinks(ctx, lambda cat: 'C07.R2' if cat in ('add-units', 'compare-units', 'to-storage', 'to-storage-dim',
                                                                  'storage-compare', 'storage-label', 'qstr', 'convert-from-unit',
                                                                  'truncating-division') else None, _targets.scan(ctx, q_))
    from .configtime import no_identity_test_against_literals as _no_is_literal
    _no_is_literal(ctx, 'C07.R3', classes=('Container', 'Plate', 'PlateSlicer', 'Slicer'))
    from .configtime import no_shared_mutable_defaults as _mutdef, selection_not_changed_in_place as _sel_inplace
    _mutdef(ctx, 'C07.R1', classes=('Slicer', 'PlateSlicer', 'Plate'))
    _sel_inplace(ctx, 'C07.R1')
    from .configtime import stepped_extent_counts_round_up as _ceil
    _ceil(ctx, 'C07.R1')
    # a plate-level pre-check refuses exactly what the per-well chain of transfers refuses: it compares rounded values
    from .c03 import rounded_stock_compare as _stock
    _stock(ctx, 'C07.R2')
    from .configtime import late_binding_closures as _late
    _late(ctx, 'C07.R2', classes=('Container', 'Plate', 'PlateSlicer', 'Slicer'))
    from . import c01
    from ..fresh import Fresh
    from ..effects import mutating_call_oracle
    model = ctx.model
    # R1 locality
    before = len(ctx.obs)
    c01.writeback_locality(ctx)
    for o in ctx.obs[before:]:
        o.rule = 'C07.R1'
    fr = Fresh(model, mutating_call_oracle(model))
    nev = 0
    for q in ('PlateSlicer._transfer', 'Container._transfer_slice', 'PlateSlicer.remove', 'PlateSlicer.fill_to'):
        fi = model.func(q)
        for e in fr.analyse(fi):
            nev += 1
            if e.ok:
                ctx.ob('C07.R1', fi, e.line, f"{e.desc} [{e.fi.qualname}]", True, fact=f"{e.cls}: {e.why}",
                       key=f"mutation {e.target_text}")
            else:
                ctx.ob('C07.R1', fi, e.line, f"{e.desc} [{e.fi.qualname}]", False, fact=f"{e.cls}: {e.why}",
                       why='wells are written in an object that is not a fresh copy: the rest of the caller\'s plate changes',
                       key=f"mutation of non-fresh object: {e.target_text}")
    floor(ctx, 'mutation events in the plate operations', nev, 6)
    # a slice of a (stepped) slice addresses the documented wells
    from .c13 import subslice_composition
    subslice_composition(ctx, 'C07.R1')
    # wells are distinct objects
    from .c13 import distinct_wells
    distinct_wells(ctx, 'C07.R1')
    # two slices are rebound to one plate copy only if they address the very same plate object: otherwise the wells
    # of one plate are read from (and written to) a copy of the other
    c01.shared_plate_copy(ctx, 'C07.R1', identity_only=True)
    # the vectorisers call the per-well function once per addressed well (a second call repeats its effect on the
    # shared side of a one-to-many transfer)
    from .c02 import vectorize_once
    vectorize_once(ctx, 'C07.R1')
    # which wells a selector addresses (the grammar of Slicer.__init__) is part of "exactly the addressed wells"
    from .c13 import selector_grammar
    selector_grammar(ctx, 'C07.R1')
    # R2 forwarding
    forwarding(ctx, 'C07.R2')
    for name in ('get_volumes', 'get_substances', 'get_moles'):
        pf = model.func(f"Plate.{name}")
        pff = ctx.flow(pf.qualname)
        ok = False
        for ex in pff.normal_exits():
            v = strip_refs(ex.value)
            if isinstance(v, ast.Call) and isinstance(v.func, ast.Attribute) and v.func.attr == name:
                r = strip_refs(v.func.value)
                ok = isinstance(r, ast.Subscript) and isinstance(strip_refs(r.value), Param) and isinstance(r.slice, ast.Slice) \
                    and r.slice.lower is None and r.slice.upper is None
        ctx.ob('C07.R2', pf, pf.node.lineno, f"Plate.{name} delegates to self[:].{name}", ok, nontrivial=False,
               why='the plate observer does not cover all wells', key=f"delegation Plate.{name}")
    pt = model.func('Plate.transfer')
    ptf = ctx.flow(pt.qualname)
    ok = False
    for c, s, b in ptf.calls:
        if is_call_to(c, '_transfer'):
            from .common import args_in_order
            bound = args_in_order(c, model.func('PlateSlicer._transfer'))
            if len(bound) < 2 or bound[1] is None:
                continue
            d = bound[1]
            # destination is a slice: the Plate case was wrapped as [:]
            opts = d.options if isinstance(d, Phi) else [d]
            ok = any(isinstance(strip_refs(o), ast.Subscript) for o in opts) and \
                any(isinstance(strip_refs(o), Param) for o in opts)
    ctx.ob('C07.R2', pt, pt.node.lineno, 'Plate.transfer wraps a whole-plate destination as plate[:]', ok,
           why='a Plate destination is not addressed as all of its wells', key='Plate.transfer wraps destination')
    # R3 shape dispatch, executable branches
    shape_dispatch(ctx, 'C07.R3')
    arity(ctx, 'C07.R3')
    n = union_attributes(ctx, 'C07.R3', ('PlateSlicer._transfer', 'Container._transfer_slice', 'Container.transfer',
                                         'Plate.transfer'))
    ctx.count('union_attribute_reads', n)
    # R1b both results of every per-well transfer are threaded back (C01.R2 on the plate operations)
    before = len(ctx.obs)
    c01.result_threading(ctx)
    keep = []
    for o in ctx.obs[before:]:
        if o.func.startswith(('PlateSlicer._transfer', 'Container._transfer_slice')):
            o.rule = 'C07.R1'
            keep.append(o)
    ctx.obs[before:] = keep
    # a recipe transfer between two regions of one plate is a legal eager transfer: not refused at declaration
    from .c08 import declaration_refusals
    declaration_refusals(ctx, 'C07.R3')
    # R4 one application per recipe step
    addressed_selection(ctx)
    from .c08 import recorded_operands
    recorded_operands(ctx, 'C07.R4', only=('transfer', 'remove', 'fill_to'))
    from .c09 import record_protocol
    before = len(ctx.obs)
    record_protocol(ctx, 'C07.R4x', once_rule='C07.R4')
    ctx.obs[before:] = [o for o in ctx.obs[before:] if o.rule == 'C07.R4']
    return {'explanation': 'R1 (locality): Slicer.apply/set write exactly the keys they read, and every mutation in the '
                           'plate operations (including the per-well closures at their registration sites) targets a '
                           'deep copy of the plate, so unaddressed wells are untouched. R2 (forwarding): the per-well '
                           'function of PlateSlicer.remove/fill_to is the same-named Container method on the element with '
                           'the outer arguments unchanged; Plate.* delegate to self[:]. R3 (shape dispatch): the three '
                           'pairing branches exist, other shapes raise ValueError, and every branch is executable - each '
                           'call with a resolvable callee matches a signature (arity typing) and every attribute read on '
                           'an isinstance-narrowed union exists on all member classes. R4: every operator branch of bake '
                           'applies its operation exactly once per step. Not decided: numerical per-well equality with a '
                           'stand-alone container (the same Container methods run).'}

"""C18 - Answers in user units do not depend on the internal storage configuration.
Parametricity: the prefixes of config.volume_storage_unit / moles_storage_unit are free symbols (PVS, PMS) of engine
U; the analysis of every function that touches a stored value must go through with them uninstantiated."""
from __future__ import annotations

import ast

from ..model import AnalysisError, unparse
from ..unitai import Num, Lit, Tup
from .common import floor
from . import unitspec, targets
from .. import uscan

STORAGE_CATS = {'storage-label': 'C18.R2', 'storage-compare': 'C18.R3', 'compare-units': 'C18.R3',
                'config-compare': 'C18.R4', 'prefix-strip': 'C18.R1', 'from-storage': 'C18.R2', 'to-storage': 'C18.R2',
                'store-volume': 'C18.R2', 'store-contents': 'C18.R2', 'std-format': 'C18.R2',
                'round-stored-at-user-precision': 'C18.R3', 'sum-mix': 'C18.R2'}
OBSERVERS = ('Container.get_volume', 'Container.get_concentration')


def run(ctx):
    from .configtime import observers_convert_to_the_requested_unit as _obs_units
    _obs_units(ctx, 'C18.R2')
    from .c03 import rounded_stock_compare as _stock
    _stock(ctx, 'C18.R3')
    from .configtime import derived_values as _derived
    _derived(ctx, 'C18.R4', ('Container', 'Plate', 'PlateSlicer', 'Slicer', 'Recipe', 'RecipeStep', 'Unit', 'Substance'))
    from .configtime import config_file_precedence as _cfgfile
    _cfgfile(ctx, 'C18.R4')
    # per-well amounts gathered with numpy.vectorize need an explicit result type: without it the type of the first
    # well decides, and an empty first well (int 0) truncates every later amount to whole storage units
    from .c15 import t5 as _vectorize_dtype
    _vectorize_dtype(ctx, 'C18.R3', only=None, dtype_only=True)
    model = ctx.model
    from .configtime import config_at_call_time
    config_at_call_time(ctx, 'C18.R4', classes=None)
    from .configtime import late_binding_closures as _late
    _late(ctx, 'C18.R2', classes=None)
    # ---- R1 prefix-strip of the configuration strings, justified by the Config assertions
    unitspec.storage_pair(ctx, 'C18.R2', 'C18.R1')
    sc = __import__('psa.rules.c14', fromlist=['x']).scan_unit_function(ctx, 'Unit.convert_from_storage_to_standard_format')
    uscan.report_sinks(ctx, lambda cat: 'C18.R1' if cat == 'prefix-strip' else None, sc)
    cfg = model.func('Config.__init__')
    ctx.functions_analysed.add('Config.__init__')
    asserts = [unparse(n.test) for n in ast.walk(cfg.node) if isinstance(n, ast.Assert)]
    for attr, tail, lit in (('moles_storage_unit', '[-3:]', 'mol'), ('volume_storage_unit', '[-1]', 'L')):
        ok = any(f"self.{attr}{tail} == '{lit}'" == a or f"'{lit}' == self.{attr}{tail}" == a or
                 f"self.{attr}.endswith('{lit}')" == a for a in asserts)
        ctx.ob('C18.R1', cfg, cfg.node.lineno, f"Config guarantees that {attr} ends with {lit!r}", ok,
               fact=f"{len(asserts)} assertions in Config.__init__",
               why=f"the strip length used for {attr} is no longer justified", key=f"config assertion {attr}",
               nontrivial=False)
    # ---- R2/R3/R4 storage discipline in every function that touches a stored value
    nfun = 0
    for q in targets.TARGETS:
        sc = targets.scan(ctx, q)
        n = uscan.report_sinks(ctx, lambda cat: STORAGE_CATS.get(cat), sc,
                               pass_only=('from-storage', 'to-storage', 'store-volume', 'store-contents', 'std-format'))
        nfun += 1
    from .solver import scan_solver
    from .c12 import _without_enzyme_solute
    for sc in (scan_solver(ctx, 'Container.create_solution'), _without_enzyme_solute(ctx, None), targets.scan_bake(ctx)):
        uscan.report_sinks(ctx, lambda cat: STORAGE_CATS.get(cat), sc,
                           pass_only=('from-storage', 'to-storage', 'store-volume', 'store-contents', 'std-format',
                                      'compare-units'))
        nfun += 1
    from .c14 import scan_ctor
    for q_ in ('Container.__init__', 'Plate.__init__'):
        uscan.report_sinks(ctx, lambda cat: 'C18.R2' if cat in ('to-storage', 'qstr', 'storage-label') else None, scan_ctor(ctx, q_))
        nfun += 1
    floor(ctx, 'functions scanned for storage discipline', nfun, 8)
    # ---- R3 accept/refuse at a capacity is decided on rounded values: the representation error of an unrounded sum
    # differs between storage units (0.1 + 0.2 > 0.3 in mL, 100 + 200 == 300 in uL)
    from .c03 import rounded_capacity_compare
    rounded_capacity_compare(ctx, 'C18.R3', orientation=False)
    # ---- R3 observers return values free of the storage symbols
    for q in OBSERVERS:
        sc = targets.scan(ctx, q)
        bad = []
        nret = 0
        for label, kind, v, line, it in sc.outcomes:
            if kind != 'return':
                continue
            nret += 1
            if isinstance(v, Num) and it.bound_unit(v.unit).has_storage_symbol():
                bad.append(f"[{label}] returns a value in {it.bound_unit(v.unit)}")
        fi = model.func(q)
        ctx.ob('C18.R3', fi, fi.node.lineno, f"{q} returns values whose unit is free of the storage prefixes",
               not bad and nret > 0, fact=f"{nret} returning paths", why='; '.join(sorted(set(bad))[:3]),
               key='observer result depends on storage unit')
    return {'explanation': 'Engine U keeps the prefixes of the two storage-unit configuration strings symbolic (PVS, '
                           'PMS) throughout. Rules: the multiplier of a configuration string must be obtained by a '
                           'suffix-strip whose length the Config assertions justify; a value carrying PVS/PMS may '
                           'only meet values of the same unit and may reach a unit-labelled argument only under the '
                           'configuration string itself (a literal label such as mol/umol/uL on a stored value is a '
                           'violation); comparisons that decide accept/refuse are between equal units or of a '
                           'storage-free value with a constant; observer results are free of PVS/PMS. Holds for all '
                           'storage settings at once. Not decided: agreement only within rounding to '
                           'internal_precision (done in storage units).',
            'exhaustive': False}

"""C11 - dilute and fill_to reach their target by adding only solvent.
Effects (O, M) + gates (F) + non-interference (D) + measure table + unit consistency (U)."""
from __future__ import annotations

import ast

from ..dep import data_sources, depends_on
from ..flow import (Ref, Param, LoopVar, Elt, Phi, Acc, Sym, strip_refs, show, pathkey, same_value, deep_walk, walk_no_sym,
                    facts_at)
from ..model import AnalysisError, unparse, walk_no_nested
from ..unitai import Num, Lit
from ..units import ONE, base, PMS_MOL
from .common import root_of_expr, path_from_param, const_value, floor, call_name, is_call_to, gate_with
from .c03 import contents_stores, is_attr, zero, strip_clamp
from .c02 import total_descriptor, ALL, _is_contents_iter
from . import targets
from .. import uscan

UNIT_CATS = ('convert-from-unit', 'sum-mix', 'add-units', 'to-storage', 'from-storage', 'qstr', 'qstr-format', 'truncating-division', 'storage-label', 'round-then-scale',
             'compare-units', 'storage-compare', 'add-cell')


def run(ctx):
    from .configtime import refusals_not_swallowed as _no_swallow
    _no_swallow(ctx, 'C11.R1')
    from .configtime import refusals_not_rounded_for_display as _gate_digits
    _gate_digits(ctx, 'C11.R2', ('Container._self_add', 'Container.fill_to', 'Container.dilute'))
    # contents are keyed by Substance objects: the key laws this property's bookkeeping relies on
    from .identity import identity_discipline as _identity
    _identity(ctx, 'C11.R1', classes=('Substance',), memoised=False)
    model = ctx.model
    # capacity is enforced inside the add both operations go through (C03.R1 on _self_add)
    from .c03 import capacity_gates
    capacity_gates(ctx, 'C11.R1', only=('_self_add',))
    # that gate compares the stored volume: every writer of contents keeps it current
    from .c10 import pairing as _pairing
    _pairing(ctx, 'C11.R1')
    from . import unitspec as _us
    _us.api_verified(ctx, 'C11.R5')
    for name in ('dilute', 'fill_to'):
        fi = model.func(f"Container.{name}")
        ff = ctx.flow(fi.qualname)
        params = fi.param_names()
        if 'solvent' not in params:
            raise AnalysisError(f"Container.{name} has no `solvent` parameter")
        # ---- R1 only solvent is added
        cs = contents_stores(ff)
        ctx.ob('C11.R1', fi, (cs[0][0].lineno if cs else fi.node.lineno), f"{name} never writes contents itself",
               not cs, fact=f"{len(cs)} direct writes", why='contents are changed outside the gated add operation',
               key=f"{name} writes contents", nontrivial=False)
        changers = [(c, s, b) for c, s, b in ff.calls if is_call_to(c, '_add', '_self_add', 'transfer', '_transfer',
                                                                     'remove', 'create_solution', 'create_solution_from')]
        adds = [(c, s, b) for c, s, b in changers if call_name(c)[1] == '_add']
        ok = len(changers) == len(adds) == 1 and all(
            c.args and isinstance(strip_refs(c.args[0]), Param) and strip_refs(c.args[0]).name == 'solvent'
            for c, s, b in adds)
        ctx.ob('C11.R1', fi, (changers[0][1].lineno if changers else fi.node.lineno),
               f"{name}: the only contents-changing call is one _add of the `solvent` parameter", ok,
               fact=f"{[unparse(c.orig if hasattr(c, 'orig') else c, 50) for c, s, b in changers]}",
               why='something other than the named solvent is added (or the solvent is added twice)',
               key=f"{name} adds other than solvent")
        for ex in ff.normal_exits():
            v = ex.value
            src = _lineage(v)
            ok = src in ('add', 'copy')
            ctx.ob('C11.R1', fi, ex.line, f"{name}: the value returned at line {ex.line} is the container with solvent added "
                                          f"(or an unchanged copy)", ok, fact=f"returned value originates from: {src}",
                   why='the result is not the original container plus solvent', key=f"{name} result lineage")
            # the container the solvent is added to is self (or a renamed deep copy of self)
        for c, s, b in adds:
            recv = c.func.value
            base_ok = _is_self_or_copy(recv)
            ctx.ob('C11.R1', fi, s.lineno, f"{name}: solvent is added to this container", base_ok,
                   fact=f"receiver {show(recv, 40)}", why='solvent is added to another container',
                   key=f"{name} add receiver", nontrivial=False)
        # ---- R3 non-interference: the amount added depends on every entry of the contents
        for c, s, b in adds:
            q = strip_refs(c.args[1]) if len(c.args) > 1 else None
            val = None
            if isinstance(q, ast.JoinedStr):
                fv = [x for x in q.values if isinstance(x, ast.FormattedValue)]
                val = fv[0].value if fv else None
            if val is None:
                raise AnalysisError(f"Container.{name}: amount passed to _add not identified")
            srcs = data_sources(val)
            all_entries = any((isinstance(n, ast.Call) and _is_contents_iter(n)) or
                              (isinstance(n, ast.Attribute) and n.attr == 'volume' and isinstance(strip_refs(n.value), Param))
                              for n in srcs)
            single = sorted({show(n, 40) for n in srcs if isinstance(n, ast.Subscript) and is_attr(n.value, 'contents')} |
                            {show(n, 40) for n in srcs if isinstance(n, ast.Call) and isinstance(n.func, ast.Attribute)
                             and n.func.attr == 'get' and is_attr(n.func.value, 'contents')})
            ctx.ob('C11.R3', fi, s.lineno, f"{name}: the amount of solvent added depends on every component of the mixture",
                   all_entries, fact=('iterates over the contents / uses the volume' if all_entries else
                                      f"depends only on {single}"),
                   why='the target is measured against a total over all contents, but the added amount ignores the '
                       'other components: multi-component mixtures miss the target',
                   key=f"{name} added amount independent of contents[*]")
    # ---- R2 refusals
    fi = model.func('Container.dilute')
    ff = ctx.flow('Container.dilute')
    adds = [(c, s, b) for c, s, b in ff.calls if is_call_to(c, '_add')]
    for c, s, b in adds:
        def not_higher(cc):
            return cc.op == 'le' and isinstance(cc.left, Ref) and isinstance(cc.right, Ref) and \
                _from_call(cc.left, 'calculate_concentration_ratio') and _ratio_of_contents(cc.right)

        def positive(cc):
            return cc.op == 'lt' and zero(cc.left) and _from_call(cc.right, 'calculate_concentration_ratio')
        g1 = gate_with(b, not_higher, 'ValueError')
        g2 = gate_with(b, positive, 'ValueError')
        ctx.ob('C11.R2', fi, s.lineno, 'dilute refuses a target above the current concentration', bool(g1),
               fact=str(g1[0]) if g1 else 'no gate `new ratio > current ratio -> ValueError`',
               why='a "dilution" to a higher concentration is attempted (negative amount of solvent)',
               key='dilute higher-target gate')
        ctx.ob('C11.R2', fi, s.lineno, 'dilute refuses a non-positive target ratio', bool(g2),
               fact=str(g2[0]) if g2 else 'no gate', why='an unreachable concentration is accepted',
               key='dilute positive-ratio gate')
    from . import c03
    # fill_to refusal (shared with C03.R3)
    ft = model.func('Container.fill_to')
    fft = ctx.flow('Container.fill_to')
    for c, s, b in [(c, s, b) for c, s, b in fft.calls if is_call_to(c, '_add')]:
        q = strip_refs(c.args[1])
        fv = [x for x in q.values if isinstance(x, ast.FormattedValue)] if isinstance(q, ast.JoinedStr) else []
        val = strip_clamp(fv[0].value) if fv else None       # `max(required, 0)` after the rounded gate

        def nonneg(cc, val=val):
            vv = strip_refs(val)
            from ..flow import unround
            r = unround(cc.right)[0]
            direct = cc.op in ('le', 'lt') and zero(cc.left) and (cc.right is val or r is val or same_value(r, val))
            alt = cc.op in ('le', 'lt') and isinstance(vv, ast.BinOp) and isinstance(vv.op, ast.Sub) and \
                (cc.left is vv.right or same_value(cc.left, vv.right)) and (cc.right is vv.left or same_value(cc.right, vv.left))
            return direct or alt
        g = gate_with(b, nonneg, 'ValueError')
        ctx.ob('C11.R2', ft, s.lineno, 'fill_to refuses a target below the current quantity', bool(g),
               fact=str(g[0]) if g else f"amount added = {show(val, 50)}; no gate excludes a negative value",
               why='filling to less than is already present removes solvent instead of being refused',
               key='no gate on negative required amount')
    # a plate or slice is filled by the container operation on every addressed well, and the refusal of any well
    # leaves the call (a wrapper that catches it returns wells that are not at the target)
    from .c07 import forwarding
    forwarding(ctx, 'C11.R2', only=('fill_to',))
    # ---- R4 measure table of fill_to
    from .c02 import siblings
    before = len(ctx.obs)
    siblings(ctx)
    for o in ctx.obs[before:]:
        o.rule = 'C11.R4'
    ctx.obs[before:] = [o for o in ctx.obs[before:] if o.func == 'Container.fill_to']
    # ---- R5 unit consistency
    for q in ('Container.dilute', 'Container.fill_to'):
        sc = targets.scan(ctx, q)
        uscan.report_sinks(ctx, lambda cat: 'C11.R5' if cat in UNIT_CATS else None, sc)
    fi = model.func('Unit.calculate_concentration_ratio')
    cells = {}
    for tq in ('Unit.calculate_concentration_ratio', 'Unit.calculate_concentration_ratio#U'):
        sc = targets.scan(ctx, tq)
        uscan.report_sinks(ctx, lambda cat: 'C11.R5' if cat in UNIT_CATS else None, sc)
        for label, kind, v, line, it in sc.outcomes:
            pc = it.memo.get(('pc', 'concentration'))
            if pc is None:
                continue
            cells.setdefault(pc, []).append((label, kind, v, it))
    for (num, den), outs in sorted(cells.items()):
        bad = []
        rets = 0
        for label, kind, v, it in outs:
            if kind == 'raise':
                enzyme_solute = 'solute=enzyme' in label and num != 'U'      # excluded by the property
                if not (den == 'U' or v == 'ValueError' or enzyme_solute):
                    bad.append(f"[{label}] raises {v}")
                continue
            rets += 1
            r = v[0] if isinstance(v, list) else v
            want = ONE if num != 'U' else base('U') / PMS_MOL
            if den == 'U':
                bad.append(f"[{label}] accepts a denominator in activity units")
            elif not (isinstance(r, Num) and it.bound_unit(r.unit).same(want)):
                bad.append(f"[{label}] returns {r!r}, expected a ratio in {want}")
        ctx.ob('C11.R5', fi, fi.node.lineno, f"mole-ratio helper, cell {num}/{den}", not bad,
               fact=f"{len(outs)} outcomes, {rets} returning", why='; '.join(sorted(set(bad))[:2]),
               key=f"ratio cell {num}/{den}")
    floor(ctx, 'mole-ratio cells', len(cells), 12)
    return {'explanation': 'R1: in dilute and fill_to the only contents-changing call on the lineage of the result is '
                           'one _add of the `solvent` parameter to this container (capacity is enforced inside the add, '
                           'C03). R2: dilute is gated by new ratio <= current ratio and new ratio > 0, fill_to by '
                           'required amount >= 0. R3 (non-interference): the target is measured against a total over '
                           'all contents, so the added amount must data-depend on every entry (an iteration over the '
                           'contents, or the volume). R4: fill_to\'s current quantity follows the measure table of the '
                           'transfer. R5: every conversion in both functions and all 12 cells of the mole-ratio helper '
                           'are unit-consistent with symbolic storage prefixes. Not decided: numerical attainment; '
                           'same-dimension algebra slips in the ratio formulas.'}


def _lineage(v):
    todo, seen = [v], set()
    while todo:
        x = todo.pop()
        if x is None or id(x) in seen:
            continue
        seen.add(id(x))
        if isinstance(x, Ref):
            todo.append(x.value)
        elif isinstance(x, Phi):
            todo.extend(x.options)
        elif isinstance(x, ast.Call):
            n = call_name(x)[1]
            if n == '_add':
                return 'add'
            if n == 'deepcopy' and x.args and isinstance(strip_refs(x.args[0]), Param):
                return 'copy'
            return f"call {n}"
        elif isinstance(x, Param):
            return f"parameter {x.name}"
    return 'unknown'


def _is_self_or_copy(recv):
    todo, seen = [recv], set()
    ok = True
    while todo:
        x = todo.pop()
        if id(x) in seen:
            continue
        seen.add(id(x))
        if isinstance(x, Ref):
            todo.append(x.value)
        elif isinstance(x, Phi):
            todo.extend(x.options)
        elif isinstance(x, Param):
            ok = ok and x.name in ('self',)
        elif isinstance(x, ast.Call) and call_name(x)[1] == 'deepcopy' and x.args:
            todo.append(x.args[0])
        else:
            ok = False
    return ok


def _from_call(e, name):
    return depends_on(e, lambda n: isinstance(n, ast.Call) and call_name(n)[1] == name) and \
        not depends_on(e, lambda n: isinstance(n, ast.Attribute) and n.attr == 'contents')


def _ratio_of_contents(e):
    v = strip_refs(e)
    return isinstance(v, ast.BinOp) and isinstance(v.op, ast.Div) and \
        depends_on(v, lambda n: isinstance(n, ast.Attribute) and n.attr == 'contents')

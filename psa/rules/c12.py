"""C12 - create_solution_from dilutes a stock as requested and conserves material.
Units typing of the 2x2 system + dead-branch typing (engines U, F)."""
from __future__ import annotations

import ast

from ..flow import (Ref, Param, LoopVar, Elt, Phi, Acc, Sym, strip_refs, show, pathkey, same_value, deep_walk, walk_no_sym,
                    facts_at)
from ..model import AnalysisError, unparse, walk_no_nested
from .common import root_of_expr, path_from_param, const_value, floor, call_name, is_call_to, gate_with
from .c03 import solver_postconditions, zero, user_derived
from .solver import scan_solver
from .. import uscan
from . import targets

ROW_CATS = ('row-units', 'add-units', 'qstr', 'qstr-format', 'truncating-division', 'sum-mix', 'compare-units', 'to-storage', 'add-cell', 'round-then-scale')
STORAGE_CATS = ('convert-from-unit', 'from-storage', 'storage-label', 'storage-compare')


def run(ctx):
    from .configtime import refusals_not_swallowed as _no_swallow
    _no_swallow(ctx, 'C12.R4')
    from .configtime import derived_values as _derived
    _derived(ctx, 'C12.R3', ('Container', 'Unit', 'Substance'))
    from .configtime import decisions_not_taken_on_display_values as _coarse
    _coarse(ctx, 'C12.R3', ('Container', 'Plate', 'PlateSlicer', 'Recipe', 'RecipeStep'))
    model = ctx.model
    from . import unitspec as _us
    _us.api_verified(ctx, 'C12.R1')
    fi = model.func('Container.create_solution_from')
    ctx.assumptions.append('create_solution_from: the solute is a solid or a liquid (enzymes carry no moles; activity '
                           'numerators are refused with ValueError, which is checked)')
    n = uscan.report_sinks(ctx, lambda cat: 'C12.R1' if cat in ROW_CATS else 'C12.R3' if cat in STORAGE_CATS else
                           'C12.R2' if cat == 'type-compare' else None, _without_enzyme_solute(ctx, None))
    floor(ctx, 'unit sink sites in create_solution_from', n, 6)
    # each quantity unit has a reachable row, i.e. an accepting path (spec floor 3)
    sc2 = _without_enzyme_solute(ctx, None)
    accepted = {}
    refused_types = set()
    u_num = {'accept': 0, 'refuse': 0}
    for label, kind, v, line, it in sc2.outcomes:
        qb = it.memo.get(('pq', 'quantity'))
        pc = it.memo.get(('pc', 'concentration'))
        if kind == 'return' and qb is not None:
            accepted[qb] = accepted.get(qb, 0) + 1
        if kind == 'raise':
            refused_types.add(v)
        if pc is not None and pc[0] == 'U':
            u_num['accept' if kind == 'return' else 'refuse'] += 1
    for qb in ('g', 'L', 'mol'):
        ctx.ob('C12.R1', fi, fi.node.lineno, f"a total quantity given in {qb} has a constraint row and an accepting path",
               accepted.get(qb, 0) > 0, fact=f"{accepted.get(qb, 0)} accepting paths",
               why=f"a quantity in {qb} leaves the second row of the system empty: the solve is singular for every input",
               key=f"quantity unit {qb} unreachable")
    ctx.ob('C12.R1', fi, fi.node.lineno, 'an activity numerator is refused', u_num['accept'] == 0 and u_num['refuse'] > 0,
           fact=f"{u_num}", why='a concentration in activity units is accepted although the system has no row for it',
           key='activity numerator accepted')
    bad = sorted(t for t in refused_types if t not in ('ValueError', 'LinAlgError', 'TypeError'))
    ctx.ob('C12.R4', fi, fi.node.lineno, 'refusals raise ValueError (LinAlgError is a ValueError)', not bad,
           fact=f"raise outcomes {sorted(refused_types)}", why=f"refusal with {bad}", key='refusal type create_solution_from')
    # ---- R4 conservation: gates and construction
    before = len(ctx.obs)
    solver_postconditions(ctx, 'C12.R4')
    ctx.obs[before:] = [o for o in ctx.obs[before:] if o.func == 'Container.create_solution_from']
    ff = ctx.flow('Container.create_solution_from')
    transfers = [(c, s, b) for c, s, b in ff.calls if is_call_to(c, 'transfer')]
    ctors = [(c, s, b) for c, s, b in ff.calls if isinstance(c.func, ast.Name) and c.func.id == 'Container']
    floor(ctx, 'aliquot transfers in create_solution_from', len(transfers), 2)
    for c, s, b in transfers:
        src = strip_refs(c.args[0])
        # the source of an aliquot is the stock / the solvent container given by the caller (possibly already depleted)
        roots = {n.name for n in deep_walk(c.args[0]) if isinstance(n, Param)}
        ctx.ob('C12.R4', fi, s.lineno, f"aliquot taken from `{show(c.args[0], 20)}` comes from the caller's source / solvent",
               bool(roots & {'source', 'solvent'}), fact=f"derives from parameters {sorted(roots)}",
               why='material enters the result from somewhere else', key='aliquot source')
    for c, s, b in ctors:
        kws = {k.arg: k.value for k in c.keywords}
        ic = kws.get('initial_contents')
        if ic is None:
            continue
        v = strip_refs(ic)
        ok = isinstance(v, ast.List) and len(v.elts) == 1 and isinstance(strip_refs(v.elts[0]), ast.Tuple) and \
            isinstance(strip_refs(strip_refs(v.elts[0]).elts[0]), Param) and strip_refs(strip_refs(v.elts[0]).elts[0]).name == 'solvent'
        ctx.ob('C12.R4', fi, s.lineno, 'a fresh container holds pure solvent only', ok, fact=show(ic, 60),
               why='the new solution is seeded with something other than pure solvent', key='seed contents')
    # residuals returned
    from .common import alternatives
    from ..flow import normalise_fact
    for ex, conds, leaf in [(ex, conds, leaf) for ex in ff.normal_exits() for conds, leaf in alternatives(ff, ex.value)]:
        # (the returned tuple may be chosen by a conditional expression: each alternative with its condition)
        v = strip_refs(leaf)
        elts = v.elts if isinstance(v, ast.Tuple) else []
        names = []
        for e in elts:
            names.append(sorted({n.name for n in deep_walk(e) if isinstance(n, Param)}))
        pure_solvent = None
        for c in facts_at(ex.state) + [c_ for f_ in conds for c_ in normalise_fact(f_)]:
            t = strip_refs(c.left)
            if c.op in ('truth', 'falsy') and isinstance(t, ast.Call) and getattr(t.func, 'id', '') == 'isinstance' and \
                    any(isinstance(n, Param) and n.name == 'solvent' for n in deep_walk(t.args[0])):
                tn = unparse(t.args[1].orig if hasattr(t.args[1], 'orig') else t.args[1])
                if tn.strip() in ('Substance', 'Container'):
                    pure_solvent = (c.op == 'truth') == (tn.strip() == 'Substance')
        want_n = 2 if pure_solvent else 3
        ok = len(elts) == want_n and any('source' in n for n in names[:1]) and \
            (pure_solvent or any('solvent' in n for n in names[1:-1]))
        ctx.ob('C12.R4', fi, ex.line, f"the residual source{' and solvent' if len(elts) == 3 else ''} and the new solution are returned",
               ok, fact=f"returns {len(elts)} objects", why='a depleted input is not handed back: material is lost',
               key='residuals returned')
    # both results of every aliquot transfer replace their operands (C01.R2 on this function)
    from . import c01
    before = len(ctx.obs)
    c01._thread_in(ctx, fi, ff, None)
    for o in ctx.obs[before:]:
        o.rule = 'C12.R4'
    feasibility_gates(ctx, 'C12.R4')
    solute_already_present_is_counted(ctx, 'C12.R1')
    c01.no_bulk_contents_writes(ctx, 'C12.R4')
    # the molarity of the stock is computed from its stored volume: every writer of contents keeps it current
    from .c10 import pairing as _pairing
    _pairing(ctx, 'C12.R3', derived=False)
    # the new solution is an unlimited vessel: a capacity copied from the source or the solvent refuses requests the
    # stock can meet
    for c, s_, b in ff.calls:
        if isinstance(c.func, ast.Name) and c.func.id == 'Container':
            pn = model.func('Container.__init__').param_names()
            bound = dict(zip(pn, c.args))
            bound.update({k.arg: k.value for k in c.keywords if k.arg})
            mv = bound.get('max_volume')
            derived = mv is not None and any(isinstance(n, Param) and n.name in ('source', 'solvent') for n in deep_walk(mv))
            ctx.ob('C12.R4', fi, s_.lineno, 'the new solution is created without a capacity taken from an input', not derived,
                   fact=f"max_volume = {show(mv, 50) if mv is not None else 'default (unlimited)'}",
                   why='a request the stock can meet is refused with "Exceeded maximum volume" because the source vial is small',
                   key='capacity of the new solution')
    column_provenance(ctx, 'C12.R1')
    _tail(ctx)
    return _explanation()


def feasibility_gates(ctx, rule):
    """create_solution_from refuses a stock without the solute and a solvent that is the solute (by value)."""
    fi = ctx.model.func('Container.create_solution_from')
    ff = ctx.flow('Container.create_solution_from')
    solves = [(c, s, b) for c, s, b in ff.calls if isinstance(c.func, ast.Attribute) and c.func.attr == 'solve']
    for c, s, b in solves:
        def present(cc):
            return cc.op == 'in' and isinstance(strip_refs(cc.left), Param) and strip_refs(cc.left).name == 'solute'

        def distinct(cc):
            return cc.op == 'ne' and {getattr(strip_refs(x), 'name', None) for x in (cc.left, cc.right)} == {'solute', 'solvent'}
        g1, g2 = gate_with(b, present, 'ValueError'), gate_with(b, distinct, 'ValueError')
        ctx.ob(rule, fi, s.lineno, 'the stock must contain the solute', bool(g1), fact=str(g1[0]) if g1 else 'no gate',
               why='a stock without the solute reaches the solver', key='solute present gate')
        ctx.ob(rule, fi, s.lineno, 'solute and solvent must differ', bool(g2), fact=str(g2[0]) if g2 else 'no gate',
               why='diluting a substance with itself is accepted', key='solute differs gate')


def _tail(ctx):
    # the stock's residual must reach the recipe's results, and the aliquots rely on a correct transfer
    from .c08 import operands_written_back
    operands_written_back(ctx, 'C12.R4', only=('solution_from',))
    tsc = targets.scan(ctx, 'Container._transfer')
    uscan.report_sinks(ctx, lambda cat: 'C12.R4' if cat in ('convert-from-unit', 'sum-mix', 'add-units', 'to-storage', 'qstr',
                                                            'storage-label', 'compare-units', 'store-contents',
                                                            'store-volume', 'from-storage') else None, tsc)


def _explanation():
    return {'explanation': 'The 2x2 system of create_solution_from is interpreted with entry-wise units for every '
                           'numerator/denominator pair, every quantity unit, solid and liquid solutes and pure or '
                           'container solvents: the unknowns get their units from the quantity row and must be the mL '
                           'the f-strings claim; effective density / molar mass / molarity are typed g/mL, g/mol, '
                           'mol/L; each of the three quantity units must have a reachable row; comparisons of a '
                           'number with a string are dead branches; stored amounts must be labelled with their own '
                           'storage unit. Conservation is structural: the result is built only by aliquot transfers '
                           'from the caller\'s source / solvent container and a fresh container of pure solvent, all '
                           'residuals are returned, and the gates (x, y >= 0, quantity > 0, solute present, solute != '
                           'solvent) dominate the solve. Not decided: numerical attainment of the target.'}


def _without_enzyme_solute(ctx, sc):
    """Restrict a scan of create_solution_from to the variants with a non-enzyme solute."""
    key = (ctx.model.serial, 'Container.create_solution_from', 'non-enzyme', ctx.tier)
    if key in uscan._cache:
        return uscan._cache[key]
    from ..unitai import explore, Incomplete
    from .solver import _variants_create_solution_from, SOLVER_OPTS
    fi = ctx.model.func('Container.create_solution_from')
    out = uscan.Scan('Container.create_solution_from')
    try:
        for label, mk in _variants_create_solution_from():
            if 'solute=enzyme' in label:
                continue
            out.add(label, explore(ctx.model, fi, mk, dict(SOLVER_OPTS)))
    except Incomplete as exc:
        out.incomplete = str(exc)
    uscan._cache[key] = out
    return out


def column_provenance(ctx, rule):
    """Non-interference between the columns of the 2x2 system: the unknown that is drawn from the stock multiplies
    coefficients computed from the stock (and the solute, the request), never from the solvent container, and vice
    versa.  Which unknown belongs to which object is read from where the solved amounts are used."""
    fi = ctx.model.func('Container.create_solution_from')
    ff = ctx.flow(fi.qualname)
    objs = ('source', 'solvent')

    def params(e):
        return {n.name for n in deep_walk(e) if isinstance(n, Param) and n.name in objs}

    def vec(e, depth=0):
        """[deps of component 0, deps of component 1] for a 2-vector, a plain set for a scalar."""
        if depth > 30:
            return params(e)
        if isinstance(e, Ref):
            return vec(e.value, depth + 1)
        if isinstance(e, Phi):
            parts = [vec(o, depth + 1) for o in e.options]
            if parts and all(isinstance(p_, list) for p_ in parts):
                return [set().union(*[p_[0] for p_ in parts]), set().union(*[p_[1] for p_ in parts])]
            if any(isinstance(p_, list) for p_ in parts):
                return None
            return set().union(*parts) if parts else set()
        if isinstance(e, ast.Call) and unparse(e.func.orig if hasattr(e.func, 'orig') else e.func).endswith('array') and e.args:
            lit = e.args[0]
            lit = lit.value if isinstance(lit, Ref) else lit
            if isinstance(lit, (ast.List, ast.Tuple)) and len(lit.elts) == 2 and \
                    not any(isinstance(strip_refs(x), (ast.List, ast.Tuple)) for x in lit.elts):
                return [params(lit.elts[0]), params(lit.elts[1])]
            return None
        if isinstance(e, ast.BinOp):
            l, r = vec(e.left, depth + 1), vec(e.right, depth + 1)
            if l is None or r is None:
                return None
            if isinstance(l, list) and isinstance(r, list):
                return [l[0] | r[0], l[1] | r[1]]
            if isinstance(l, list):
                return [l[0] | r, l[1] | r]
            if isinstance(r, list):
                return [r[0] | l, r[1] | l]
            return l | r
        if isinstance(e, ast.UnaryOp):
            return vec(e.operand, depth + 1)
        return params(e)

    solves = [(c, s_, b) for c, s_, b in ff.calls if isinstance(c.func, ast.Attribute) and c.func.attr == 'solve']
    if not solves:
        ctx.count('column_provenance_rows', 0)
        return
    call = solves[0][0]
    # which object each unknown is drawn from
    owner = {}

    def unknowns_in(a):
        return {n.index for n in deep_walk(a) if isinstance(n, Elt) and isinstance(n.index, int) and strip_refs(n.value) is call}
    for c, s_, b in ff.calls:
        if is_call_to(c, 'transfer') and len(c.args) >= 3:
            idx, who = unknowns_in(c.args[2]), params(c.args[0])          # the quantity string names the unknown
        elif isinstance(c.func, ast.Name) and c.func.id == 'Container':
            ic = [k.value for k in c.keywords if k.arg == 'initial_contents'] + list(c.args[2:3])
            idx = set().union(*[unknowns_in(a) for a in ic]) if ic else set()
            who = set().union(*[{n.name for n in deep_walk(a, follow_refs=False) if isinstance(n, Param) and n.name in objs}
                                for a in ic]) if ic else set()
        else:
            continue
        if len(idx) == 1 and len(who) == 1:
            owner.setdefault(next(iter(idx)), set()).update(who)
    if set(owner) != {0, 1} or any(len(v) != 1 for v in owner.values()) or owner[0] == owner[1]:
        ctx.count('column_provenance_rows', 0)
        return
    own = {k: next(iter(v)) for k, v in owner.items()}
    mat = strip_refs(call.args[0]) if call.args else None
    rows = 0
    for stmt, target, key, value, before, rt in ff.stores:
        if not (isinstance(rt, ast.Subscript) and isinstance(call.args[0], Ref) and isinstance(rt.value, Ref) and
                rt.value.defid == call.args[0].defid):
            continue
        v = vec(value)
        if not isinstance(v, list):
            continue
        rows += 1
        for k in (0, 1):
            foreign = v[k] - {own[k]}
            ctx.ob(rule, fi, stmt.lineno, f"row `{show(target, 12)}`: the coefficient of the amount drawn from `{own[k]}` is "
                                          f"computed from `{own[k]}` only", not foreign,
                   fact=f"column {k} depends on {sorted(v[k]) or ['neither']}",
                   why=f"a property of `{sorted(foreign)[0] if foreign else ''}` is used where the one of `{own[k]}` belongs "
                       f"(same unit, other object): the requested concentration is missed",
                   key=f"column {k} of {show(target, 12)} reads the other object")
    ctx.count('column_provenance_rows', rows)


def solute_already_present_is_counted(ctx, rule):
    """The balance of `create_solution_from` starts from what is there: the solute held by the stock AND the solute held
    by a solvent given as a container (diluting 1 M with 0.1 M gives more than diluting with water).  For both operands a
    read of `<operand>.contents` under the solute's key must exist - directly or in a helper method that is handed the solute."""
    plain = ctx.model.plain()
    fi = plain.func('Container.create_solution_from')
    params = fi.all_param_names()
    if 'solute' not in params or 'solvent' not in params or 'source' not in params:
        raise AnalysisError('Container.create_solution_from: parameters source / solute / solvent not found')

    def keyed_read(node, recv, key):
        """`recv.contents.get(key, ..)` or `recv.contents[key]` somewhere below node"""
        for x in ast.walk(node):
            if isinstance(x, ast.Call) and isinstance(x.func, ast.Attribute) and x.func.attr == 'get' and x.args and \
                    isinstance(x.args[0], ast.Name) and x.args[0].id == key and isinstance(x.func.value, ast.Attribute) and \
                    x.func.value.attr == 'contents' and isinstance(x.func.value.value, ast.Name) and x.func.value.value.id == recv:
                return x
            if isinstance(x, ast.Subscript) and isinstance(x.slice, ast.Name) and x.slice.id == key and \
                    isinstance(x.value, ast.Attribute) and x.value.attr == 'contents' and isinstance(x.value.value, ast.Name) and \
                    x.value.value.id == recv and isinstance(x.ctx, ast.Load):
                return x
        return None
    for operand in ('source', 'solvent'):
        hit = keyed_read(fi.node, operand, 'solute')
        how = 'read directly' if hit is not None else None
        if hit is None:
            # private helpers are expanded in the main model (arguments substituted for parameters): a helper that is
            # handed the operand and the solute shows the read in place
            hit = keyed_read(ctx.model.func('Container.create_solution_from').node, operand, 'solute')
            how = 'read in an expanded helper' if hit is not None else None
        if hit is None:
            for c in ast.walk(fi.node):
                if isinstance(c, ast.Call) and isinstance(c.func, ast.Attribute) and isinstance(c.func.value, ast.Name) and \
                        c.func.value.id == operand and plain.has_func(f"Container.{c.func.attr}"):
                    h = plain.func(f"Container.{c.func.attr}")
                    hp = h.param_names()
                    for i, a_ in enumerate(c.args):
                        if isinstance(a_, ast.Name) and a_.id == 'solute' and i < len(hp) and keyed_read(h.node, 'self', hp[i]):
                            hit, how = c, f"through {h.qualname}({hp[i]}=solute)"
                    for k in c.keywords:
                        if isinstance(k.value, ast.Name) and k.value.id == 'solute' and k.arg and keyed_read(h.node, 'self', k.arg):
                            hit, how = c, f"through {h.qualname}({k.arg}=solute)"
        ctx.ob(rule, ctx.model.func('Container.create_solution_from'), (hit.lineno if hit is not None else fi.node.lineno),
               f"the solute already held by `{operand}` enters the balance", hit is not None,
               fact=(how or f"no read of {operand}.contents under the solute's key"),
               why=f"a {operand} container that already holds solute is treated as if it held none: the new solution misses the requested concentration",
               key=f"solute held by {operand} not read")

"""Configuration values are read when a function runs, never when the module is imported.

`config.<name>` inside a default argument, a decorator argument, a class body or a module-level statement is evaluated
once at import: a later change of the configuration (tests and users assign to `pyplate.pyplate.config.*`) is then
ignored by exactly that one reader while every other reader follows it, so two spellings / two queries that must agree
stop agreeing."""
from __future__ import annotations

import ast


def _config_reads(node):
    return [x for x in ast.walk(node) if isinstance(x, ast.Attribute) and isinstance(x.value, ast.Name) and
            x.value.id == 'config' and isinstance(x.ctx, ast.Load)]


def config_at_call_time(ctx, rule, classes=None, module_level=True):
    """classes: names of the classes whose methods / bodies are in scope (None = every class of pyplate.py)."""
    model = ctx.model
    n = 0
    bad = []
    for ci in model.classes.values():
        if ci.mod.rel != 'pyplate/pyplate.py' or (classes is not None and ci.name not in classes):
            continue
        for st in ci.node.body:
            if isinstance(st, (ast.FunctionDef, ast.AsyncFunctionDef)):
                n += 1
                a = st.args
                for d in list(a.defaults) + [k for k in a.kw_defaults if k is not None]:
                    for r in _config_reads(d):
                        bad.append((ci.methods.get(st.name), r.lineno, f"default argument of {ci.name}.{st.name} reads config.{r.attr}"))
                for deco in st.decorator_list:
                    for r in _config_reads(deco):
                        bad.append((ci.methods.get(st.name), r.lineno, f"decorator of {ci.name}.{st.name} reads config.{r.attr}"))
            elif isinstance(st, ast.ClassDef):
                continue
            else:
                for r in _config_reads(st):
                    anchor = next(iter(ci.methods.values()), None)
                    bad.append((anchor, r.lineno, f"class body of {ci.name} reads config.{r.attr}"))
    if module_level:
        for mi in model.modules.values() if hasattr(model, 'modules') else []:
            if mi.rel != 'pyplate/pyplate.py':
                continue
            for st in mi.tree.body:
                if isinstance(st, (ast.FunctionDef, ast.ClassDef, ast.Import, ast.ImportFrom)):
                    continue
                for r in _config_reads(st):
                    bad.append((None, r.lineno, f"module-level statement reads config.{r.attr}"))
    anchor = model.func('Unit.convert_from')
    for fi, line, what in bad:
        ctx.ob(rule, fi or anchor, line, 'configuration is read at call time', False, fact=what,
               why='the value is fixed when the module is imported: a configuration changed afterwards is ignored by this '
                   'reader only', key=f"import-time config read: {what}")
    ctx.ob(rule, anchor, anchor.node.lineno, 'no configuration value is read at import time (defaults, decorators, class bodies)',
           not bad, fact=f"{n} methods examined in {sorted(classes) if classes else 'all classes'}", why='see the reports',
           key='config read at import', nontrivial=False)
    return n


def precision_zero_is_a_value(ctx, rule, classes=None):
    """The configured number of digits of a unit may be 0 (whole microlitres in the shipped yaml).  A lookup written as
    `config.precisions.get(unit) or default` / `... if config.precisions.get(unit) else ...` takes that 0 for "missing"
    and rounds to the default digits instead."""
    model = ctx.model
    bad = []
    n = 0
    for fi in model.funcs.values():
        if fi.mod.rel not in ('pyplate/pyplate.py', 'pyplate/__init__.py'):
            continue
        top = fi
        while top.parent is not None:
            top = top.parent
        # (a look-up helper on the configuration object itself serves every class)
        if classes is not None and fi.mod.rel == 'pyplate/pyplate.py' and (top.cls is None or top.cls.name not in classes):
            continue
        if fi.parent is not None:
            continue
        for x in ast.walk(fi.node):
            tests = []
            if isinstance(x, ast.BoolOp) and isinstance(x.op, ast.Or):
                tests = x.values[:-1]
            elif isinstance(x, ast.IfExp):
                tests = [x.test]
            for t in tests:
                if isinstance(t, ast.Call) and isinstance(t.func, ast.Attribute) and t.func.attr == 'get' and \
                        ast.unparse(t.func.value).endswith('precisions'):
                    bad.append((fi, x.lineno, ast.unparse(x)[:70]))
            if isinstance(x, (ast.Subscript, ast.Call)) and 'precisions' in ast.unparse(x)[:60]:
                n += 1
    anchor = model.func('Container.get_volume')
    for fi, line, txt in bad:
        ctx.ob(rule, fi, line, 'a configured precision of 0 digits is used as 0 digits', False, fact=txt,
               why='the truth test takes 0 for "not configured": values in that unit are rounded to the default digits',
               key=f"precision 0 treated as missing in {fi.qualname}")
    ctx.ob(rule, anchor, anchor.node.lineno, 'precision lookups test membership, not truth', not bad,
           fact=f"{n} precision lookups examined", why='see the reports', key='precision lookup idiom', nontrivial=False)


def groupby_on_sorted_input(ctx, rule, qualnames):
    """itertools.groupby merges only *consecutive* items with equal keys.  Collecting groups into a dictionary keyed by
    the group key is complete only if the input was sorted by that key first: otherwise a later run with the same key
    replaces the earlier one and its members vanish from the result (wells missing from an instruction)."""
    model = ctx.model
    n = 0
    for q in qualnames:
        fi = model.func(q)
        for c in ast.walk(fi.node):
            if not (isinstance(c, ast.Call) and ast.unparse(c.func).split('.')[-1] == 'groupby' and c.args):
                continue
            n += 1
            src = c.args[0]
            key = next((k.value for k in c.keywords if k.arg == 'key'), c.args[1] if len(c.args) > 1 else None)
            ok = False
            srcs = [src]
            if isinstance(src, ast.Name):
                srcs = [st.value for st in ast.walk(fi.node) if isinstance(st, ast.Assign) and
                        any(isinstance(t, ast.Name) and t.id == src.id for t in st.targets)] or [src]
            for s_ in srcs:
                if isinstance(s_, ast.Call) and isinstance(s_.func, ast.Name) and s_.func.id == 'sorted':
                    skey = next((k.value for k in s_.keywords if k.arg == 'key'), None)
                    ok = (key is None and skey is None) or (key is not None and skey is not None and
                                                           ast.unparse(key) == ast.unparse(skey))
            ctx.ob(rule, fi, c.lineno, f"{q}: groupby runs over input sorted by the grouping key", ok,
                   fact=ast.unparse(c)[:80], why='equal keys that are not adjacent form separate groups: collected into a '
                   'mapping, the later group replaces the earlier one and its members are lost',
                   key=f"groupby on unsorted input in {q.split('.')[-1]}")
    ctx.count('groupby_calls', n)


ARRAY_MAKERS = ('numpy.array', 'np.array', 'numpy.zeros', 'np.zeros', 'numpy.ones', 'np.ones', 'numpy.full', 'np.full',
                'numpy.asarray', 'np.asarray', 'numpy.roll', 'np.roll', 'numpy.identity', 'np.identity', 'numpy.eye', 'np.eye')


def cached_arrays_not_updated_in_place(ctx, rule, qualnames):
    """A numpy array kept in a look-up dictionary (one row of coefficients per denominator unit, reused for the next
    solute) is shared by every later reader: `row *= c` / `row -= x` on a name bound to such an entry changes the entry
    itself, so the next solute starts from the scaled row."""
    model = ctx.model
    n = 0
    for q in qualnames:
        fi = model.func(q)
        defs, stored_in, read_from = {}, {}, {}
        direct = set()
        for st in ast.walk(fi.node):
            if isinstance(st, ast.Assign) and len(st.targets) == 1:
                t, v = st.targets[0], st.value
                if isinstance(t, ast.Name):
                    defs.setdefault(t.id, []).append(v)
                    if isinstance(v, ast.Subscript) and isinstance(v.value, ast.Name):
                        read_from.setdefault(t.id, set()).add(v.value.id)
                if isinstance(t, ast.Subscript) and isinstance(t.value, ast.Name) and isinstance(v, ast.Name):
                    stored_in.setdefault(v.id, set()).add(t.value.id)
                if isinstance(t, ast.Subscript) and isinstance(t.value, ast.Name) and isinstance(v, ast.Call) and \
                        ast.unparse(v.func) in ARRAY_MAKERS:
                    direct.add(t.value.id)          # `table[key] = numpy.array(..)`: the table holds arrays
        # a nested helper that hands out an entry of a table (`def rows(u): ..; return table[u]`)
        hands_out = {}
        for fn in ast.walk(fi.node):
            if isinstance(fn, ast.FunctionDef) and fn is not fi.node:
                for r in ast.walk(fn):
                    if isinstance(r, ast.Return) and isinstance(r.value, ast.Subscript) and isinstance(r.value.value, ast.Name):
                        hands_out.setdefault(fn.name, set()).add(r.value.value.id)
        for st in ast.walk(fi.node):
            if isinstance(st, ast.Assign) and len(st.targets) == 1 and isinstance(st.targets[0], ast.Name):
                v = st.value
                if isinstance(v, ast.Call) and isinstance(v.func, ast.Name) and v.func.id in hands_out:
                    read_from.setdefault(st.targets[0].id, set()).update(hands_out[v.func.id])
        # plain aliases (`row = entry`) name the same array
        changed = True
        while changed:
            changed = False
            for nm, vs in defs.items():
                for v in vs:
                    if isinstance(v, ast.Name) and read_from.get(v.id, set()) - read_from.get(nm, set()):
                        read_from.setdefault(nm, set()).update(read_from[v.id])
                        changed = True

        def is_array(name):
            return any(isinstance(v, ast.Call) and ast.unparse(v.func) in ARRAY_MAKERS for v in defs.get(name, []))

        def holds_arrays(dname):
            return dname in direct or any(dname in ds and is_array(nm) for nm, ds in stored_in.items())
        for st in ast.walk(fi.node):
            if not (isinstance(st, ast.AugAssign) and isinstance(st.target, ast.Name)):
                continue
            nm = st.target.id
            shared = {d for d in stored_in.get(nm, set()) if is_array(nm)} | \
                {d for d in read_from.get(nm, set()) if holds_arrays(d)}
            if not (is_array(nm) or shared):
                continue
            n += 1
            ctx.ob(rule, fi, st.lineno, f"{q}: `{ast.unparse(st)[:50]}` does not update an array that is kept for reuse",
                   not shared, fact=(f"`{nm}` is an entry of {sorted(shared)}" if shared else f"`{nm}` is a private array"),
                   why='the augmented assignment changes the array in the look-up table itself: the next reader (the next '
                       'solute with the same denominator unit) starts from the modified row',
                   key=f"in-place update of a cached array: {nm}")
    ctx.count('augmented_array_updates', n)


def no_shared_mutable_defaults(ctx, rule, classes=None):
    """A default argument is evaluated once.  A list / dict / set default that the function stores in an object or
    changes in place is one object shared by every call that omits the argument: what one call records shows up in the
    next (every step sharing one `trash`, every container one `contents`)."""
    model = ctx.model
    MUT = {'append', 'add', 'update', 'pop', 'remove', 'clear', 'extend', 'insert', 'setdefault', 'discard', 'popitem', 'sort', 'reverse'}
    n = 0
    bad = []
    for fi in model.funcs.values():
        if fi.mod.rel not in ('pyplate/pyplate.py', 'pyplate/slicer.py') or fi.parent is not None:
            continue
        if classes is not None and (fi.cls is None or fi.cls.name not in classes):
            continue
        a = fi.node.args
        pos = a.posonlyargs + a.args
        pairs = list(zip(pos[len(pos) - len(a.defaults):], a.defaults)) + \
            [(p, d) for p, d in zip(a.kwonlyargs, a.kw_defaults) if d is not None]
        for p, d in pairs:
            mutable = isinstance(d, (ast.List, ast.Dict, ast.Set, ast.ListComp, ast.DictComp, ast.SetComp)) or \
                (isinstance(d, ast.Call) and isinstance(d.func, ast.Name) and d.func.id in ('list', 'dict', 'set', 'defaultdict', 'OrderedDict', 'deque'))
            if not mutable:
                continue
            n += 1
            uses = []
            for st in ast.walk(fi.node):
                if isinstance(st, (ast.Assign, ast.AnnAssign)) and isinstance(getattr(st, 'value', None), ast.Name) and st.value.id == p.arg:
                    tg = st.targets if isinstance(st, ast.Assign) else [st.target]
                    if any(isinstance(t, (ast.Attribute, ast.Subscript)) for t in tg):
                        uses.append(f"stored at line {st.lineno}")
                if isinstance(st, ast.Call) and isinstance(st.func, ast.Attribute) and st.func.attr in MUT and \
                        isinstance(st.func.value, ast.Name) and st.func.value.id == p.arg:
                    uses.append(f"changed by .{st.func.attr}() at line {st.lineno}")
                if isinstance(st, (ast.Assign, ast.AugAssign)):
                    tg = st.targets if isinstance(st, ast.Assign) else [st.target]
                    for t in tg:
                        if isinstance(t, ast.Subscript) and isinstance(t.value, ast.Name) and t.value.id == p.arg:
                            uses.append(f"item stored at line {st.lineno}")
                        if isinstance(st, ast.AugAssign) and isinstance(t, ast.Name) and t.id == p.arg:
                            uses.append(f"augmented at line {st.lineno}")
            if uses:
                bad.append((fi, d.lineno, p.arg, uses))
    anchor = model.func('Container.__init__')
    for fi, line, pname, uses in bad:
        ctx.ob(rule, fi, line, f"{fi.qualname}: the mutable default of `{pname}` is not kept or changed", False,
               fact='; '.join(uses[:3]), why='the default object is created once: every call that omits the argument shares it, '
               'and what one call stores is seen by all others', key=f"shared mutable default {fi.qualname}.{pname}")
    ctx.ob(rule, anchor, anchor.node.lineno, 'no mutable default argument is stored or changed', not bad,
           fact=f"{n} mutable default(s) examined", why='see the reports', key='mutable defaults', nontrivial=False)


def late_binding_closures(ctx, rule, classes=None):
    """A lambda or nested function made inside a loop (or a comprehension) sees the loop variable as it is when the
    closure is *called*, not as it was when it was made.  If the closure is kept (put into a list, a dictionary, an
    attribute) and called after the loop, every copy uses the last value.  Binding the value at creation
    (`lambda x, k=k: ..`, `functools.partial`) is the accepted idiom; a closure handed straight to a call that uses it
    at once (`apply`, `vectorize(..)(..)`, `map`, `sorted(key=..)`) is not affected."""
    model = ctx.model
    n = 0
    bad = []
    class _Scope:
        def __init__(self, qualname, node, anchor):
            self.qualname, self.node, self.anchor = qualname, node, anchor
    scopes = []
    for fi in model.funcs.values():
        if fi.mod.rel not in ('pyplate/pyplate.py', 'pyplate/slicer.py') or fi.parent is not None:
            continue
        if classes is not None and (fi.cls is None or fi.cls.name not in classes):
            continue
        scopes.append(_Scope(fi.qualname, fi.node, fi))
    # class bodies: a table of lambdas built by a comprehension at class level has the same problem
    for ci in model.classes.values():
        if ci.mod.rel not in ('pyplate/pyplate.py', 'pyplate/slicer.py') or (classes is not None and ci.name not in classes):
            continue
        stmts = [st for st in ci.node.body if not isinstance(st, (ast.FunctionDef, ast.AsyncFunctionDef, ast.ClassDef))]
        if stmts:
            holder = ast.Module(body=stmts, type_ignores=[])
            scopes.append(_Scope(f"{ci.name} (class body)", holder, next(iter(ci.methods.values()), None)))
    for fi in scopes:
        loops = [x for x in ast.walk(fi.node) if isinstance(x, (ast.For, ast.ListComp, ast.DictComp, ast.SetComp, ast.GeneratorExp))]
        for lp in loops:
            if isinstance(lp, ast.For):
                lvars = {x.id for x in ast.walk(lp.target) if isinstance(x, ast.Name)}
                region = lp.body
            else:
                lvars = {x.id for g in lp.generators for x in ast.walk(g.target) if isinstance(x, ast.Name)}
                region = [lp.elt] if not isinstance(lp, ast.DictComp) else [lp.key, lp.value]
            for r in region:
                for c in ast.walk(r):
                    if not isinstance(c, (ast.Lambda, ast.FunctionDef)):
                        continue
                    params = {a.arg for a in c.args.args + c.args.kwonlyargs} | \
                        ({c.args.vararg.arg} if c.args.vararg else set()) | ({c.args.kwarg.arg} if c.args.kwarg else set())
                    body = [c.body] if isinstance(c, ast.Lambda) else c.body
                    local = {x.id for b in body for x in ast.walk(b) if isinstance(x, ast.Name) and isinstance(x.ctx, ast.Store)}
                    free = {x.id for b in body for x in ast.walk(b) if isinstance(x, ast.Name) and isinstance(x.ctx, ast.Load)} - params - local
                    captured = sorted(free & lvars)
                    if not captured:
                        continue
                    n += 1
                    par = getattr(c, 'parent', None)
                    kept = None
                    if isinstance(c, ast.Lambda):
                        if not isinstance(lp, ast.For) and (c is getattr(lp, 'elt', None) or c is getattr(lp, 'value', None) or
                                                            any(c is x for x in ast.walk(getattr(lp, 'value', None) or getattr(lp, 'elt', None))
                                                                if isinstance(getattr(lp, 'value', None) or getattr(lp, 'elt', None), (ast.Tuple, ast.List)))):
                            kept = 'element of the comprehension'
                        elif isinstance(par, ast.Call) and isinstance(par.func, ast.Attribute) and par.func.attr in ('append', 'add', 'insert', 'setdefault', 'update') \
                                and c in par.args:
                            kept = f"kept with .{par.func.attr}()"
                        elif isinstance(par, (ast.Assign, ast.AnnAssign)) and getattr(par, 'value', None) is c:
                            tg = par.targets if isinstance(par, ast.Assign) else [par.target]
                            if any(isinstance(t, (ast.Subscript, ast.Attribute)) for t in tg):
                                kept = 'stored in a container / attribute'
                        elif isinstance(par, (ast.Dict, ast.List, ast.Tuple, ast.Set)):
                            kept = 'element of a display that outlives the iteration'
                    else:
                        # a nested def: kept if its name is appended / stored (not merely called or passed on at once)
                        for x in ast.walk(lp if isinstance(lp, ast.For) else r):
                            if isinstance(x, ast.Call) and isinstance(x.func, ast.Attribute) and x.func.attr in ('append', 'add', 'insert') and \
                                    any(isinstance(a, ast.Name) and a.id == c.name for a in x.args):
                                kept = f"kept with .{x.func.attr}()"
                            if isinstance(x, ast.Assign) and isinstance(x.value, ast.Name) and x.value.id == c.name and \
                                    any(isinstance(t, (ast.Subscript, ast.Attribute)) for t in x.targets):
                                kept = 'stored in a container / attribute'
                    if kept:
                        bad.append((fi, c.lineno, captured, kept))
    anchor = model.func('Container._transfer')
    for fi, line, captured, kept in bad:
        ctx.ob(rule, fi.anchor or anchor, line, f"{fi.qualname}: a closure made in a loop binds {captured} when it is made", False,
               fact=f"{kept}; free loop variable(s) {captured}", why='the closure is called after the loop has moved on: every '
               'kept copy sees the last value of the loop variable', key=f"late-binding closure in {fi.qualname}")
    ctx.ob(rule, anchor, anchor.node.lineno, 'no closure kept beyond its loop iteration captures the loop variable late', not bad,
           fact=f"{n} closure(s) in loops that read the loop variable", why='see the reports', key='late binding', nontrivial=False)


def refusals_not_rounded_for_display(ctx, rule, qualnames):
    """Whether a request is refused is decided on the computed value (rounded, if at all, at the internal precision).
    A test of a raising `if` whose operand was rounded with the number of digits of a *display* unit
    (`config.precisions[..]`) accepts every excess or deficit below that display resolution: a fill target half a
    millilitre below the present content, a volume 0.4 uL above the capacity."""
    model = ctx.model
    n = 0
    for q in qualnames:
        fi = model.func(q)
        assigns = {}
        for st in ast.walk(fi.node):
            if isinstance(st, ast.Assign) and len(st.targets) == 1 and isinstance(st.targets[0], ast.Name):
                assigns.setdefault(st.targets[0].id, []).append(st.value)

        def display_digits(d, depth=0):
            if depth > 4:
                return False
            txt = ast.unparse(d)
            if 'precisions' in txt:
                return True
            if isinstance(d, ast.Name):
                return any(display_digits(v, depth + 1) for v in assigns.get(d.id, []))
            return False

        def rounds_in(e, depth=0):
            out = []
            for x in ast.walk(e):
                if isinstance(x, ast.Call) and isinstance(x.func, ast.Name) and x.func.id == 'round' and len(x.args) == 2:
                    out.append(x)
                elif isinstance(x, ast.Name) and depth < 3:
                    for v in assigns.get(x.id, []):
                        if isinstance(v, ast.Call) and isinstance(v.func, ast.Name) and v.func.id == 'round':
                            out.extend(rounds_in(v, depth + 1))
            return out
        for st in ast.walk(fi.node):
            if not (isinstance(st, ast.If) and any(isinstance(b, ast.Raise) for b in st.body)):
                continue
            rs = rounds_in(st.test)
            if not rs:
                continue
            n += 1
            bad = [r for r in rs if display_digits(r.args[1])]
            ctx.ob(rule, fi, st.lineno, f"{q}: the refusal `{ast.unparse(st.test)[:60]}` is not decided on a value rounded for display",
                   not bad, fact=(f"rounded with `{ast.unparse(bad[0].args[1])[:50]}`" if bad else 'rounded at the internal precision'),
                   why='excesses / deficits smaller than the display resolution of the unit pass the test: an infeasible request '
                       'is carried out', key=f"refusal rounded at display precision in {q.split('.')[-1]}")
    ctx.count('rounded_refusal_tests', n)


REORDER = {'sort', 'reverse'}
RESIZE = {'append', 'extend', 'insert', 'pop', 'remove', 'clear'}


def selection_not_changed_in_place(ctx, rule):
    """The list of wells a slicer was made for is part of its meaning: pairing of wells in a transfer goes by position
    in that list.  Outside the constructors nothing sorts, reverses or resizes `<slicer>.slices` in place - neither
    directly nor through a local name bound to it (`wells = self.slices; wells.sort()`)."""
    model = ctx.model
    n = 0
    bad = []
    for fi in model.funcs.values():
        if fi.mod.rel not in ('pyplate/pyplate.py', 'pyplate/slicer.py') or fi.parent is not None:
            continue
        if fi.name == '__init__' and fi.cls is not None and fi.cls.name in ('Slicer', 'PlateSlicer'):
            continue
        aliases = set()
        for st in ast.walk(fi.node):
            if isinstance(st, ast.Assign) and isinstance(st.value, ast.Attribute) and st.value.attr == 'slices':
                for t in st.targets:
                    if isinstance(t, ast.Name):
                        aliases.add(t.id)
        for c in ast.walk(fi.node):
            if not (isinstance(c, ast.Call) and isinstance(c.func, ast.Attribute) and c.func.attr in REORDER | RESIZE):
                continue
            recv = c.func.value
            hit = (isinstance(recv, ast.Attribute) and recv.attr == 'slices') or (isinstance(recv, ast.Name) and recv.id in aliases)
            if hit:
                n += 1
                bad.append((fi, c.lineno, ast.unparse(c)[:60]))
    anchor = model.func('Slicer.get')
    for fi, line, txt in bad:
        ctx.ob(rule, fi, line, f"{fi.qualname}: the stored selection is not reordered or resized in place", False, fact=txt,
               why='the order of the listed wells decides which source well is paired with which destination well: after the '
                   'call the same slicer addresses them in another order', key=f"selection changed in place in {fi.qualname}")
    ctx.ob(rule, anchor, anchor.node.lineno, 'no function outside the slicer constructors changes a stored selection in place',
           not bad, fact=f"{n} in-place list operation(s) on a selection", why='see the reports', key='selection in place', nontrivial=False)


def recorded_operands_not_mutated(ctx, rule, qualnames):
    """What a declaring method records in the step is the operand as the caller passed it.  Sorting, extending or
    otherwise changing a list parameter in place (a list of solutes) changes the caller's object AND breaks the
    position-wise pairing with the other per-solute lists that are recorded unchanged."""
    model = ctx.model
    n = 0
    for q in qualnames:
        fi = model.func(q)
        params = set(fi.all_param_names()) - {'self'}
        hits = []
        # plain aliases of a parameter (`substances = solute`) name the same object
        named = set(params)
        for c in ast.walk(fi.node):
            if isinstance(c, ast.Assign) and isinstance(c.value, ast.Name) and c.value.id in params:
                named |= {t.id for t in c.targets if isinstance(t, ast.Name)}
        for c in ast.walk(fi.node):
            if isinstance(c, ast.AugAssign) and isinstance(c.target, ast.Name) and c.target.id in named and \
                    isinstance(c.op, (ast.Add, ast.BitOr)) and isinstance(c.value, (ast.List, ast.ListComp, ast.Set, ast.Dict)):
                hits.append((c.lineno, ast.unparse(c)[:60]))
            if isinstance(c, ast.Call) and isinstance(c.func, ast.Attribute) and c.func.attr in REORDER | RESIZE | {'update', 'setdefault', 'add', 'discard'} \
                    and isinstance(c.func.value, ast.Name) and c.func.value.id in named:
                hits.append((c.lineno, ast.unparse(c)[:60]))
            if isinstance(c, (ast.Assign, ast.AugAssign)):
                tg = c.targets if isinstance(c, ast.Assign) else [c.target]
                for t in tg:
                    if isinstance(t, ast.Subscript) and isinstance(t.value, ast.Name) and t.value.id in named:
                        hits.append((c.lineno, ast.unparse(c)[:60]))
                    # re-binding the parameter to a reordered / de-duplicated copy of itself has the same effect on what
                    # is recorded
                    v = c.value
                    if isinstance(t, ast.Name) and t.id in params and isinstance(v, ast.Call) and isinstance(v.func, ast.Name) and \
                            v.func.id in ('sorted', 'reversed', 'set', 'frozenset') and v.args and \
                            any(isinstance(x, ast.Name) and x.id == t.id for x in ast.walk(v.args[0])):
                        hits.append((c.lineno, ast.unparse(c)[:60]))
        n += 1
        ctx.ob(rule, fi, hits[0][0] if hits else fi.node.lineno, f"{q}: parameters are recorded as passed, not changed in place",
               not hits, fact='; '.join(h[1] for h in hits[:2]) or 'no in-place change of a parameter',
               why='the recorded list is the caller\'s list in another order / with other members: values given per position '
                   '(one concentration per solute) are applied to the wrong members when the recipe is baked',
               key=f"parameter changed in place in {q.split('.')[-1]}")
    ctx.count('declaring_methods_params_checked', n)


def quantities_parsed_by_unit_only(ctx, rule, qualnames, params=('quantity', 'concentration', 'max_volume', 'total_quantity')):
    """There is one grammar for quantity and concentration strings: the parsers of class Unit.  A declaring method that
    looks into the string itself (`quantity.split(..)`, `.isdigit()`, a slice of it) applies a second, narrower or wider
    grammar: spellings the parser accepts ('5e-1 mL', '+0.5 mL') are refused by that method only."""
    model = ctx.model
    n = 0
    for q in qualnames:
        fi = model.func(q)
        mine = [p for p in fi.all_param_names() if p in params]
        hits = []
        for x in ast.walk(fi.node):
            if isinstance(x, ast.Attribute) and isinstance(x.value, ast.Name) and x.value.id in mine and \
                    isinstance(getattr(x, 'parent', None), ast.Call) and x.parent.func is x:
                hits.append((x.lineno, f"{x.value.id}.{x.attr}()"))
            if isinstance(x, ast.Subscript) and isinstance(x.value, ast.Name) and x.value.id in mine:
                hits.append((x.lineno, f"{x.value.id}[..]"))
        n += 1
        ctx.ob(rule, fi, hits[0][0] if hits else fi.node.lineno, f"{q}: quantity strings are left to the parsers of class Unit",
               not hits, fact=', '.join(sorted({h[1] for h in hits})) or f"parameters {mine} are only type-checked and handed on",
               why='the method applies its own idea of what a number looks like: a spelling the library accepts everywhere '
                   'else is refused here', key=f"quantity string inspected in {q.split('.')[-1]}")
    ctx.count('declaring_methods_quantities', n)


def config_file_precedence(ctx, rule):
    """The configuration is read from the FIRST existing `pyplate.yaml` of the search order (the user's directory before
    the home directory before the packaged default).  A search that keeps going after a hit, or that takes the last
    element of the list of hits, always ends at the packaged file: a user's densities and storage units are ignored."""
    model = ctx.model
    ci = model.classes.get('Config')
    init = ci.methods.get('__init__') if ci is not None else None
    if init is None:
        from ..model import AnalysisError
        raise AnalysisError('Config.__init__ not found')
    verdicts = []
    # the search may live in __init__ or in a helper of the class it was moved to
    holder = ast.Module(body=[m.node for m in ci.methods.values()], type_ignores=[])
    for lp in ast.walk(holder):
        if isinstance(lp, ast.For) and 'is_file' in ast.unparse(lp):
            hits = [i for i in ast.walk(lp) if isinstance(i, ast.If) and 'is_file' in ast.unparse(i.test)]
            for h in hits:
                positive = not (isinstance(h.test, ast.UnaryOp) and isinstance(h.test.op, ast.Not))
                branch = h.body if positive else h.orelse
                stops = any(isinstance(x, (ast.Break, ast.Return)) for b in branch for x in ast.walk(b))
                if not positive and not h.orelse:
                    # `if not is_file: continue` followed by the assignment and a break
                    rest = lp.body[lp.body.index(h) + 1:] if h in lp.body else []
                    stops = any(isinstance(x, (ast.Break, ast.Return)) for b in rest for x in ast.walk(b))
                verdicts.append((lp.lineno, stops, 'the loop over the candidates stops at the first file found' if stops else
                                 'the loop over the candidates goes on after a file was found: the last one wins'))
    found_lists = set()
    for st in ast.walk(holder):
        if isinstance(st, ast.Assign) and len(st.targets) == 1 and isinstance(st.targets[0], ast.Name) and \
                isinstance(st.value, (ast.ListComp, ast.Call)) and 'is_file' in ast.unparse(st.value):
            found_lists.add(st.targets[0].id)
    for x in ast.walk(holder):
        if isinstance(x, ast.Subscript) and isinstance(x.value, ast.Name) and x.value.id in found_lists:
            idx = ast.unparse(x.slice)
            verdicts.append((x.lineno, idx == '0', f"element [{idx}] of the list of files found"))
        if isinstance(x, ast.Call) and isinstance(x.func, ast.Attribute) and x.func.attr == 'pop' and \
                isinstance(x.func.value, ast.Name) and x.func.value.id in found_lists:
            first = bool(x.args) and ast.unparse(x.args[0]) == '0'
            verdicts.append((x.lineno, first, f"{ast.unparse(x)} takes the {'first' if first else 'last'} of the files found"))
        if isinstance(x, ast.Call) and isinstance(x.func, ast.Name) and x.func.id == 'next' and 'is_file' in ast.unparse(x):
            verdicts.append((x.lineno, True, 'next() over the candidates: the first file found'))
    if not verdicts:
        from ..model import AnalysisError
        raise AnalysisError('Config.__init__: the search for pyplate.yaml was not understood')
    for line, ok, fact in verdicts:
        ctx.ob(rule, init, line, 'the first existing pyplate.yaml of the search order is the one that is read', ok, fact=fact,
               why='the packaged default is last in the search order: taking the last hit ignores the user\'s configuration '
                   '(densities, storage units, precisions)', key='configuration file precedence')


def no_identity_test_against_literals(ctx, rule, classes=None):
    """`x is <literal>` / `x is not <literal>` for a number, string or tuple display asks whether two objects are the
    same object.  A tuple display is a new object every time (the test is constant), equal strings and ints built at run
    time are usually different objects: the branch taken does not depend on the value.  Only None, True, False and
    Ellipsis are compared by identity."""
    model = ctx.model.plain()       # the sources as written: helper expansion substitutes constant arguments for parameters
    n = 0
    bad = []
    for fi in model.funcs.values():
        if fi.mod.rel not in ('pyplate/pyplate.py', 'pyplate/slicer.py') or fi.parent is not None:
            continue
        if classes is not None and (fi.cls is None or fi.cls.name not in classes):
            continue
        for c in ast.walk(fi.node):
            if not isinstance(c, ast.Compare):
                continue
            operands = [c.left] + list(c.comparators)
            for i, op in enumerate(c.ops):
                if not isinstance(op, (ast.Is, ast.IsNot)):
                    continue
                n += 1
                for side in (operands[i], operands[i + 1]):
                    lit = (isinstance(side, ast.Constant) and side.value is not None and side.value is not True and
                           side.value is not False and side.value is not Ellipsis) or \
                        isinstance(side, (ast.Tuple, ast.List, ast.Dict, ast.Set, ast.JoinedStr))
                    if lit:
                        bad.append((fi, c.lineno, ast.unparse(c)[:60]))
    anchor = model.func('Container._transfer')
    for fi, line, txt in bad:
        ctx.ob(rule, fi, line, f"{fi.qualname}: values are compared by value", False, fact=txt,
               why='identity of a literal is an accident of the interpreter (small ints, interned strings) or always false '
                   '(a tuple display is a new object): the branch no longer depends on the value', key=f"identity test against a literal in {fi.qualname}")
    ctx.ob(rule, anchor, anchor.node.lineno, 'no identity test against a number, string or display', not bad,
           fact=f"{n} identity tests examined", why='see the reports', key='identity against literals', nontrivial=False)


STATE_ATTRS = {'contents', 'volume', 'wells'}
STATE_METHODS = {'get_volume', 'get_volumes', 'get_concentration', 'get_substances', 'get_moles', 'has_liquid', 'dataframe'}


def declarations_do_not_read_state(ctx, rule, qualnames):
    """When a step is declared, the objects it names are in the state they were declared in - not in the state they will
    have when the step is carried out (earlier steps change them).  A declaring method that looks at `contents`,
    `volume`, `wells` or an observer of an operand decides about the wrong state: it refuses programs whose eager
    execution is valid, or accepts ones that are not."""
    model = ctx.model
    n = 0
    for q in qualnames:
        fi = model.func(q)
        params = set(fi.all_param_names()) - {'self'}
        hits = []
        for x in ast.walk(fi.node):
            if isinstance(x, ast.Attribute) and (x.attr in STATE_ATTRS or x.attr in STATE_METHODS):
                base = x.value
                while isinstance(base, (ast.Attribute, ast.Subscript)):
                    base = base.value
                if isinstance(base, ast.Name) and base.id in params:
                    hits.append((x.lineno, ast.unparse(x)[:40]))
        n += 1
        ctx.ob(rule, fi, hits[0][0] if hits else fi.node.lineno, f"{q}: the declaration does not depend on the state of its operands",
               not hits, fact=', '.join(sorted({h[1] for h in hits})) or 'operands are only identified (name, type) and recorded',
               why='the state at declaration is not the state at that step: a valid program is refused (or an invalid one '
                   'accepted) when the step is declared', key=f"declaration reads operand state in {q.split('.')[-1]}")
    ctx.count('declaring_methods_state', n)


def no_state_outside_objects(ctx, rule, classes=None):
    """The library's functions are functions of their arguments and of the configuration.  A result kept in a container
    that outlives the call - a class attribute or a module-level dictionary / list written by a method - is a memo whose
    key has to determine the result; keys built from names, quantity strings or ids do not (two substances may share a
    name, a density may be corrected, the configuration may change).  No method writes into class-level or module-level
    containers."""
    model = ctx.model.plain()
    n = 0
    bad = []
    mods = {m.rel: m for m in model.modules.values()}
    module_level = set()
    for rel in ('pyplate/pyplate.py', 'pyplate/slicer.py'):
        mi = mods.get(rel)
        if mi is None:
            continue
        for st in mi.tree.body:
            if isinstance(st, (ast.Assign, ast.AnnAssign)):
                tg = st.targets if isinstance(st, ast.Assign) else [st.target]
                for t in tg:
                    if isinstance(t, ast.Name) and isinstance(getattr(st, 'value', None), (ast.Dict, ast.List, ast.Set, ast.Call)):
                        module_level.add(t.id)
    class_names = set(model.classes)
    MUT = {'append', 'add', 'update', 'pop', 'remove', 'clear', 'extend', 'insert', 'setdefault', 'discard', 'popitem'}
    for fi in model.funcs.values():
        if fi.mod.rel not in ('pyplate/pyplate.py', 'pyplate/slicer.py'):
            continue
        top = fi
        while top.parent is not None:
            top = top.parent
        if classes is not None and (top.cls is None or top.cls.name not in classes):
            continue
        if fi.parent is not None:
            continue
        n += 1
        local = {x.id for x in ast.walk(fi.node) if isinstance(x, ast.Name) and isinstance(x.ctx, ast.Store)} | set(fi.all_param_names())

        def shared(e):
            # Cls.attr / cls.attr / type(self).attr / a module-level name not shadowed locally
            if isinstance(e, ast.Attribute) and isinstance(e.value, ast.Name) and (e.value.id in class_names or e.value.id == 'cls'):
                return f"{e.value.id}.{e.attr}"
            if isinstance(e, ast.Attribute) and isinstance(e.value, ast.Call) and getattr(e.value.func, 'id', '') == 'type':
                return f"type(..).{e.attr}"
            if isinstance(e, ast.Name) and e.id in module_level and e.id not in local:
                return e.id
            return None
        for x in ast.walk(fi.node):
            where = None
            if isinstance(x, (ast.Assign, ast.AugAssign, ast.AnnAssign)):
                tg = x.targets if isinstance(x, ast.Assign) else [x.target]
                for t in tg:
                    if isinstance(t, ast.Subscript):
                        where = shared(t.value)
                    elif isinstance(t, ast.Attribute):
                        where = shared(t) if fi.name != '__init_subclass__' else None
            elif isinstance(x, ast.Call) and isinstance(x.func, ast.Attribute) and x.func.attr in MUT:
                where = shared(x.func.value)
            if where:
                bad.append((fi, x.lineno, where, ast.unparse(x)[:60]))
    anchor = model.func('Unit.convert_from')
    for fi, line, where, txt in bad:
        ctx.ob(rule, ctx.model.funcs.get(fi.qualname, anchor), line, f"{fi.qualname}: nothing is kept in `{where}` between calls", False, fact=txt,
               why='the stored value is handed out again for arguments that share the key but not the result (same name, '
                   'other constants; same text, other configuration)', key=f"state kept outside objects in {fi.qualname}")
    ctx.ob(rule, anchor, anchor.node.lineno, 'no method writes into a class-level or module-level container', not bad,
           fact=f"{n} functions examined", why='see the reports', key='state outside objects', nontrivial=False)


def no_lazily_filled_attributes(ctx, rule, classes):
    """Derived values are recomputed or, where they are cached, dropped by everything that changes their inputs.  An
    attribute that is filled on first use (`if x._v is None: x._v = ..`, `hasattr`, `getattr(.., None)`, `__dict__`
    look-ups) travels with `copy` / `deepcopy` of the object and is not reset by the functions that change contents,
    wells or the plate a slice points at: the copy answers with the original's value."""
    model = ctx.model.plain()
    n = 0
    bad = []
    cached_props = {f.name for f in model.funcs.values() if any('cached_property' in ast.unparse(d) for d in getattr(f.node, 'decorator_list', []))}
    for fi in model.funcs.values():
        if fi.mod.rel not in ('pyplate/pyplate.py', 'pyplate/slicer.py') or fi.parent is not None:
            continue
        if fi.cls is None or fi.cls.name not in classes:
            continue
        n += 1
        # a cached_property keeps its value in the instance dictionary: it is copied with the object.  Accepted where every
        # function of the class that re-points the object drops it again (the slicers: `_forget_cached`); on the value
        # classes, whose contents change only in copies, the copy would answer with the original's value.
        if fi.cls.name not in ('Slicer', 'PlateSlicer') and any('cached_property' in ast.unparse(d) for d in fi.node.decorator_list):
            bad.append((fi, fi.node.lineno, f"self.{fi.name}", 'a cached_property of a value object'))
        parents = {}        # local: attributes set on the nodes would be followed by every later deepcopy of the tree
        for x in ast.walk(fi.node):
            for ch in ast.iter_child_nodes(x):
                parents[ch] = x
        for x in ast.walk(fi.node):
            # if obj.attr is None: obj.attr = ..
            if isinstance(x, ast.If) and isinstance(x.test, ast.Compare) and len(x.test.ops) == 1 and \
                    isinstance(x.test.ops[0], ast.Is) and isinstance(x.test.left, ast.Attribute) and \
                    isinstance(x.test.comparators[0], ast.Constant) and x.test.comparators[0].value is None:
                attr = ast.unparse(x.test.left)
                if any(isinstance(s_, ast.Assign) and any(ast.unparse(t) == attr for t in s_.targets) for b in x.body for s_ in ast.walk(b)):
                    bad.append((fi, x.lineno, attr, 'filled when it is None'))
            if isinstance(x, ast.Call) and isinstance(x.func, ast.Name) and x.func.id in ('hasattr', 'getattr', 'setattr') and \
                    len(x.args) >= 2 and isinstance(x.args[1], ast.Constant) and isinstance(x.args[1].value, str) and \
                    x.args[1].value.startswith('_') and not x.args[1].value.startswith('__'):
                if x.func.id != 'getattr' or len(x.args) == 3:
                    bad.append((fi, x.lineno, f"{ast.unparse(x.args[0])}.{x.args[1].value}", f"{x.func.id}() on a private attribute"))
            if isinstance(x, ast.Try):
                for h in x.handlers:
                    if h.type is not None and 'AttributeError' in ast.unparse(h.type):
                        bad.append((fi, x.lineno, ast.unparse(x.body[0])[:40], 'attribute probed with try / except AttributeError'))
            # the instance dictionary addressed by name (cached_property names are the decorator's own protocol)
            if isinstance(x, ast.Attribute) and x.attr == '__dict__':
                par = parents.get(x)
                keynode = None
                if isinstance(par, ast.Attribute) and isinstance(parents.get(par), ast.Call) and parents[par].args:
                    keynode = parents[par].args[0]
                elif isinstance(par, ast.Subscript):
                    keynode = par.slice
                elif isinstance(par, ast.Compare) and isinstance(par.ops[0], (ast.In, ast.NotIn)):
                    keynode = par.left
                if isinstance(keynode, ast.Constant) and isinstance(keynode.value, str) and keynode.value not in cached_props:
                    bad.append((fi, x.lineno, f"{ast.unparse(x.value)}.{keynode.value}", 'instance dictionary addressed by name'))
            # `vars(obj)` is the same dictionary as `obj.__dict__`
            if isinstance(x, ast.Call) and isinstance(x.func, ast.Name) and x.func.id == 'vars' and len(x.args) == 1:
                par = parents.get(x)
                keynode = None
                if isinstance(par, ast.Attribute) and isinstance(parents.get(par), ast.Call) and parents[par].args:
                    keynode = parents[par].args[0]
                elif isinstance(par, ast.Subscript):
                    keynode = par.slice
                elif isinstance(par, ast.Compare) and isinstance(par.ops[0], (ast.In, ast.NotIn)):
                    keynode = par.left
                if isinstance(keynode, ast.Constant) and isinstance(keynode.value, str) and keynode.value not in cached_props:
                    bad.append((fi, x.lineno, f"{ast.unparse(x.args[0])}.{keynode.value}", 'instance dictionary addressed by name through vars()'))
            # a dictionary held in an attribute and filled on demand: `if k not in x._d: x._d[k] = ..`
            if isinstance(x, ast.If) and isinstance(x.test, ast.Compare) and len(x.test.ops) == 1 and \
                    isinstance(x.test.ops[0], ast.NotIn) and isinstance(x.test.comparators[0], ast.Attribute) and \
                    isinstance(x.test.comparators[0].value, ast.Name):
                d = ast.unparse(x.test.comparators[0])
                base = x.test.comparators[0].value.id
                # a cache of values derived from the object itself (other attributes of it are read while filling);
                # a registry of arguments (`self.results[name] = deepcopy(arg)`) is not one
                derived = any(isinstance(y, ast.Name) and y.id == base and isinstance(y.ctx, ast.Load) and
                              not (isinstance(parents.get(y), ast.Attribute) and ast.unparse(parents[y]) == d)
                              for b in x.body for y in ast.walk(b))
                if derived and any(isinstance(s_, ast.Assign) and any(isinstance(t, ast.Subscript) and ast.unparse(t.value) == d for t in s_.targets)
                                   for b in x.body for s_ in ast.walk(b)):
                    bad.append((fi, x.lineno, d, 'dictionary attribute filled when the key is missing'))
    anchor = model.func('Container.__init__')
    for fi, line, attr, how in bad:
        ctx.ob(rule, ctx.model.funcs.get(fi.qualname, anchor), line, f"{fi.qualname}: `{attr}` is not a lazily filled cache", False, fact=how,
               why='the value is copied with the object and survives the operations that change what it was computed from: '
                   'the derived object reports the value of the object it was copied from', key=f"lazily filled attribute in {fi.qualname}")
    ctx.ob(rule, anchor, anchor.node.lineno, f"no lazily filled attribute in {sorted(classes)}", not bad,
           fact=f"{n} methods examined", why='see the reports', key='lazy attributes', nontrivial=False)


def memo_keys_complete(ctx, rule, classes=None):
    """A dictionary filled on demand inside a function (`if k not in d: d[k] = e`, `d.setdefault(k, e)`) hands `e` out
    again for every later look-up with the same key: the key has to name everything `e` was computed from that varies
    between look-ups - the variables of the enclosing loops and what is assigned inside them.  A key that mentions a
    variable only through an attribute (`well.volume`, `substance.name`) does not determine it."""
    model = ctx.model.plain()
    n = 0
    bad = []
    for fi in model.funcs.values():
        if fi.mod.rel not in ('pyplate/pyplate.py', 'pyplate/slicer.py') or fi.parent is not None:
            continue
        if classes is not None and (fi.cls is None or fi.cls.name not in classes):
            continue
        parents = {}
        for x in ast.walk(fi.node):
            for ch in ast.iter_child_nodes(x):
                parents[ch] = x

        def loops_of(node):
            out = []
            while node in parents:
                node = parents[node]
                if isinstance(node, (ast.For, ast.While, ast.ListComp, ast.GeneratorExp, ast.DictComp, ast.SetComp)):
                    out.append(node)
            return out

        def whole_names(k):
            """Names the key contains as themselves (possibly inside a tuple), not through an attribute or a call."""
            if isinstance(k, ast.Name):
                return {k.id}
            if isinstance(k, (ast.Tuple, ast.List)):
                out = set()
                for e in k.elts:
                    out |= whole_names(e)
                return out
            if isinstance(k, ast.Subscript) and isinstance(k.value, ast.Name):
                return {ast.unparse(k)}
            return set()

        for x in ast.walk(fi.node):
            key = value = d = None
            body = []
            if isinstance(x, ast.If) and isinstance(x.test, ast.Compare) and len(x.test.ops) == 1 and \
                    isinstance(x.test.ops[0], ast.NotIn) and isinstance(x.test.comparators[0], ast.Name):
                d = x.test.comparators[0].id
                key = x.test.left
                stores = [s_ for b in x.body for s_ in ast.walk(b) if isinstance(s_, ast.Assign) and
                          any(isinstance(t, ast.Subscript) and isinstance(t.value, ast.Name) and t.value.id == d and
                              ast.unparse(t.slice) == ast.unparse(key) for t in s_.targets)]
                if not stores:
                    continue
                value = stores[0].value
                body = x.body
            elif isinstance(x, ast.Call) and isinstance(x.func, ast.Attribute) and x.func.attr == 'setdefault' and \
                    isinstance(x.func.value, ast.Name) and len(x.args) == 2 and \
                    not isinstance(x.args[1], (ast.List, ast.Dict, ast.Set, ast.Constant)) and \
                    not (isinstance(x.args[1], ast.Call) and not x.args[1].args):
                d, key, value = x.func.value.id, x.args[0], x.args[1]
            if key is None:
                continue
            loops = loops_of(x)
            if not loops:
                continue
            # the dictionary must be created outside the innermost enclosing loop for the memo to span iterations
            created = [s_ for s_ in ast.walk(fi.node) if isinstance(s_, (ast.Assign, ast.AnnAssign)) and
                       any(isinstance(t, ast.Name) and t.id == d for t in (s_.targets if isinstance(s_, ast.Assign) else [s_.target]))]
            spanning = [lp for lp in loops if isinstance(lp, (ast.For, ast.While)) and
                        not any(any(c is s_ for c in ast.walk(lp)) for s_ in created)]
            if not spanning:
                continue
            n += 1
            # what varies between look-ups: targets of the spanning loops and names assigned inside them
            varying = set()
            for lp in spanning:
                if isinstance(lp, ast.For):
                    varying |= {t.id for t in ast.walk(lp.target) if isinstance(t, ast.Name)}
                for s_ in ast.walk(lp):
                    if isinstance(s_, ast.Name) and isinstance(s_.ctx, ast.Store):
                        varying.add(s_.id)
            # names the stored value is computed from (through the assignments of the filling block)
            bound_inside = {t.id for c_ in ast.walk(value) if isinstance(c_, ast.comprehension) for t in ast.walk(c_.target)
                            if isinstance(t, ast.Name)}
            used = {t.id for t in ast.walk(value) if isinstance(t, ast.Name) and isinstance(t.ctx, ast.Load)} - bound_inside
            local_defs = {}
            for b in body:
                for s_ in ast.walk(b):
                    if isinstance(s_, (ast.Assign, ast.AugAssign)):
                        tg = s_.targets if isinstance(s_, ast.Assign) else [s_.target]
                        for t in tg:
                            for nm in ast.walk(t):
                                if isinstance(nm, ast.Name):
                                    inner = {t2.id for c_ in ast.walk(s_.value) if isinstance(c_, ast.comprehension)
                                             for t2 in ast.walk(c_.target) if isinstance(t2, ast.Name)}
                                    local_defs.setdefault(nm.id, set()).update(
                                        y.id for y in ast.walk(s_.value) if isinstance(y, ast.Name) and y.id not in inner)
                    if isinstance(s_, ast.For):
                        for nm in ast.walk(s_.target):
                            if isinstance(nm, ast.Name):
                                local_defs.setdefault(nm.id, set()).update(y.id for y in ast.walk(s_.iter) if isinstance(y, ast.Name))
            todo, seen = list(used), set()
            while todo:
                nm = todo.pop()
                if nm in seen:
                    continue
                seen.add(nm)
                todo.extend(local_defs.get(nm, ()))
            inputs = {nm for nm in seen if nm not in local_defs}
            covered = whole_names(key)
            # a key component `units[1]` covers the name it was taken from only when the value uses that component
            covered_names = {c.split('[')[0] if '[' in c and c not in ast.unparse(value) else c for c in covered}
            key_inputs = {t.id for t in ast.walk(key) if isinstance(t, ast.Name)}
            # a key derived from the very variable (its text appears in the value) is complete for that variable only
            # if it is the whole variable
            missing = sorted(nm for nm in inputs & varying if nm not in covered and nm not in covered_names and nm != d
                             and not (nm in key_inputs and nm in covered))
            # variables the key is computed from count as covered when the key is assigned from them alone and the
            # value uses them only through the key (numerator / denominator parsed from the same text)
            missing = [nm for nm in missing if not _determined_by(nm, key, fi.node)]
            if missing:
                bad.append((fi, x.lineno, d, ast.unparse(key)[:40], missing))
    anchor = model.func('Container.create_solution')
    for fi, line, d, key, missing in bad:
        ctx.ob(rule, ctx.model.funcs.get(fi.qualname, anchor), line, f"{fi.qualname}: the key `{key}` of the memo `{d}` determines the stored value", False,
               fact=f"the value also depends on {missing}, which change(s) between look-ups",
               why='the value computed for one element is handed out for another that shares the key', key=f"memo key incomplete in {fi.qualname}")
    ctx.ob(rule, anchor, anchor.node.lineno, 'keys of dictionaries filled on demand determine the stored values', not bad,
           fact=f"{n} memo(s) examined", why='see the reports', key='memo keys', nontrivial=False)
    return n


def _determined_by(name, key, fnode):
    """Is `name` a function of the key's whole names alone?  (`name` assigned once, from an expression over key names.)"""
    keynames = {t.id for t in ast.walk(key) if isinstance(t, ast.Name)}
    defs = [s_ for s_ in ast.walk(fnode) if isinstance(s_, ast.Assign) and
            any(isinstance(nm, ast.Name) and nm.id == name for t in s_.targets for nm in ast.walk(t))]
    if len(defs) != 1:
        return False
    srcs = {y.id for y in ast.walk(defs[0].value) if isinstance(y, ast.Name)}
    return bool(srcs) and srcs <= keynames and isinstance(key, ast.Name)


def emptiness_not_decided_by_volume(ctx, rule, classes=None):
    """Whether a container holds something is decided on its contents.  A zero test of the volume that skips work
    (`if not well.volume: continue`, an early return) treats solids and enzymes configured to take no volume as absent."""
    model = ctx.model.plain()
    n = 0
    bad = []
    for fi in model.funcs.values():
        if fi.mod.rel not in ('pyplate/pyplate.py', 'pyplate/slicer.py') or fi.parent is not None:
            continue
        if classes is not None and (fi.cls is None or fi.cls.name not in classes):
            continue
        n += 1
        for x in ast.walk(fi.node):
            if not isinstance(x, ast.If):
                continue
            t = x.test
            if isinstance(t, ast.UnaryOp) and isinstance(t.op, ast.Not):
                t = t.operand
                zero_test = isinstance(t, ast.Attribute) and t.attr == 'volume'
            else:
                zero_test = isinstance(t, ast.Compare) and len(t.ops) == 1 and isinstance(t.ops[0], (ast.Eq, ast.LtE)) and \
                    isinstance(t.left, ast.Attribute) and t.left.attr == 'volume' and \
                    isinstance(t.comparators[0], ast.Constant) and t.comparators[0].value == 0
            if not zero_test:
                continue
            skips = x.body and isinstance(x.body[0], (ast.Continue, ast.Return, ast.Break)) and \
                not (isinstance(x.body[0], ast.Return) and _mentions_division_context(fi, x))
            # .. or that discards what the container holds (`x.contents = {}`, `.clear()`, `del x.contents[..]`)
            discards = any((isinstance(y, ast.Assign) and any(isinstance(t_, ast.Attribute) and t_.attr == 'contents' for t_ in y.targets))
                           or (isinstance(y, ast.Call) and isinstance(y.func, ast.Attribute) and y.func.attr in ('clear', 'pop', 'popitem') and
                               isinstance(y.func.value, ast.Attribute) and y.func.value.attr == 'contents')
                           or (isinstance(y, ast.Delete) and any('contents' in ast.unparse(t_) for t_ in y.targets))
                           for b in x.body for y in ast.walk(b))
            if skips or discards:
                bad.append((fi, x.lineno, ast.unparse(x.test)))
    anchor = model.func('Container.__init__')
    for fi, line, txt in bad:
        ctx.ob(rule, ctx.model.funcs.get(fi.qualname, anchor), line, f"{fi.qualname}: `{txt}` does not decide that there is nothing to do", False,
               fact='the work is skipped when the volume is zero',
               why='with solids or enzymes configured to take no volume a container of volume 0 still has contents: they are '
                   'left out of what the skipped code records or moves', key=f"work skipped on zero volume in {fi.qualname}")
    ctx.ob(rule, anchor, anchor.node.lineno, 'no work is skipped on a zero volume', not bad, fact=f"{n} functions examined",
           why='see the reports', key='zero volume skip', nontrivial=False)


def _mentions_division_context(fi, ifnode):
    """An early `return 0` before a division by the volume is the guard of that division, not a skipped piece of work."""
    later = [y for y in ast.walk(fi.node) if isinstance(y, ast.BinOp) and isinstance(y.op, ast.Div) and
             isinstance(y.right, ast.Attribute) and y.right.attr == 'volume' and y.lineno > ifnode.lineno]
    return bool(later)


def no_writes_through_get(ctx, rule, classes=('Slicer', 'PlateSlicer', 'Plate')):
    """`Slicer.get()` returns a view for rectangular selections and a new array for lists of wells: a write into what it
    returned (`x = s.get(); x[...] = ..`, `out=` of a ufunc) reaches the plate for the first kind and is lost for the
    second.  Writes go through `set` / `apply` / the array itself."""
    model = ctx.model.plain()
    n = 0
    bad = []
    for fi in model.funcs.values():
        if fi.mod.rel not in ('pyplate/pyplate.py', 'pyplate/slicer.py') or fi.parent is not None:
            continue
        if classes is not None and (fi.cls is None or fi.cls.name not in classes):
            continue
        n += 1
        got = {}
        for x in ast.walk(fi.node):
            if isinstance(x, ast.Assign):
                tg, val = x.targets[0], x.value
                pairs = list(zip(tg.elts, val.elts)) if isinstance(tg, ast.Tuple) and isinstance(val, ast.Tuple) and \
                    len(tg.elts) == len(val.elts) else [(tg, val)]
                for t_, v_ in pairs:
                    # `s.get()`, also behind methods that hand out a view of it (`s.get().reshape(1, 1)`)
                    while isinstance(v_, ast.Call) and isinstance(v_.func, ast.Attribute) and \
                            v_.func.attr in ('reshape', 'ravel', 'view', 'squeeze', 'transpose') and isinstance(v_.func.value, ast.Call):
                        v_ = v_.func.value
                    if isinstance(t_, ast.Name) and isinstance(v_, ast.Call) and isinstance(v_.func, ast.Attribute) and \
                            v_.func.attr == 'get' and not v_.args and not v_.keywords:
                        # a selection whose shape was tested to be a pair (rows, columns) is a rectangle: get() is a view of the
                        # plate there (a list of wells has a one-element shape and is refused by that test)
                        recv = ast.unparse(v_.func.value)
                        rect = any(isinstance(g, ast.If) and _precedes_in_block(g, x) and any(isinstance(b, ast.Raise) for b in g.body) and
                                   isinstance(g.test, ast.Compare) and len(g.test.ops) == 1 and isinstance(g.test.ops[0], ast.NotEq) and
                                   ast.unparse(g.test.left) == f"{recv}.shape" and isinstance(g.test.comparators[0], ast.Tuple) and
                                   len(g.test.comparators[0].elts) == 2 for g in ast.walk(fi.node))
                        if not rect and fi.qualname in ctx.model.funcs:
                            # the shape test may sit in a private helper (`_require_single_well(frm)`): the main model has it
                            # expanded in place, in front of the same assignment
                            fx = ctx.model.funcs[fi.qualname]
                            for x2 in ast.walk(fx.node):
                                if isinstance(x2, ast.Assign) and x2.lineno == x.lineno and ast.unparse(x2.targets[0]) == ast.unparse(x.targets[0]):
                                    rect = any(isinstance(g, ast.If) and _precedes_in_block(g, x2) and any(isinstance(b, ast.Raise) for b in g.body) and
                                               isinstance(g.test, ast.Compare) and len(g.test.ops) == 1 and isinstance(g.test.ops[0], ast.NotEq) and
                                               ast.unparse(g.test.left) == f"{recv}.shape" and isinstance(g.test.comparators[0], ast.Tuple) and
                                               len(g.test.comparators[0].elts) == 2 for g in ast.walk(fx.node))
                        if not rect:
                            got[t_.id] = x.lineno
        if not got:
            continue
        for x in ast.walk(fi.node):
            if isinstance(x, (ast.Assign, ast.AugAssign)):
                tg = x.targets if isinstance(x, ast.Assign) else [x.target]
                tg = [e for t in tg for e in (t.elts if isinstance(t, (ast.Tuple, ast.List)) else [t])]
                for t in tg:
                    if isinstance(t, ast.Subscript) and isinstance(t.value, ast.Name) and t.value.id in got:
                        bad.append((fi, x.lineno, t.value.id, 'element assignment'))
                    if isinstance(x, ast.AugAssign) and isinstance(t, ast.Name) and t.id in got:
                        bad.append((fi, x.lineno, t.id, 'in-place operator'))
            if isinstance(x, ast.keyword) and x.arg == 'out':
                for nm in ast.walk(x.value):
                    if isinstance(nm, ast.Name) and nm.id in got:
                        bad.append((fi, nm.lineno, nm.id, 'out= of a ufunc'))
    anchor = model.func('Slicer.get')
    for fi, line, name, how in bad:
        ctx.ob(rule, ctx.model.funcs.get(fi.qualname, anchor), line, f"{fi.qualname}: nothing is written into `{name}`, the result of get()", False,
               fact=how, why='for a selection given as a list of wells get() returns a new array: the write never reaches the '
               'plate (the wells keep their old contents)', key=f"write through get() in {fi.qualname}")
    ctx.ob(rule, anchor, anchor.node.lineno, 'no write goes through the result of get()', not bad, fact=f"{n} functions examined",
           why='see the reports', key='writes through get', nontrivial=False)


def derived_values(ctx, rule, classes):
    """The discipline for values computed from the state of an object: not kept in lazily filled attributes, not kept in
    class-level or module-level containers, memo keys complete, emptiness decided on contents, no writes into get()."""
    no_lazily_filled_attributes(ctx, rule, classes)
    no_state_outside_objects(ctx, rule, classes=classes)
    memo_keys_complete(ctx, rule, classes=classes)
    attribute_memo_keys_complete(ctx, rule, classes)
    emptiness_not_decided_by_volume(ctx, rule, classes=classes)
    if set(classes) & {'Slicer', 'PlateSlicer', 'Plate'}:
        no_writes_through_get(ctx, rule, classes=tuple(c for c in classes if c in ('Slicer', 'PlateSlicer', 'Plate')))


def stepped_extent_counts_round_up(ctx, rule, classes=('Slicer', 'PlateSlicer', 'Plate')):
    """The number of positions of `start:stop:step` is ceil((stop - start) / step): a floor division of an extent by a step
    is right only when the step divides the extent (`[::5]` of 8 rows is 2 rows, not 1).  Accepted: the selection measured
    itself (`len(range(..))`, `numpy.shape(get())`), `-(-e // step)`, `(e + step - 1) // step`."""
    model = ctx.model.plain()
    n = 0
    for fi in model.funcs.values():
        if fi.mod.rel not in ('pyplate/pyplate.py', 'pyplate/slicer.py') or fi.parent is not None:
            continue
        if fi.cls is None or fi.cls.name not in classes:
            continue
        # names that hold a step: `x = s.step`, `x = s.step or 1`, `a, b, x = s.start, s.stop, s.step`, `x *= y.step`
        steps = set()

        def is_step(e):
            if isinstance(e, ast.Attribute) and e.attr == 'step':
                return True
            if isinstance(e, ast.Name) and e.id in steps:
                return True
            if isinstance(e, ast.BoolOp):
                return any(is_step(v) for v in e.values)
            if isinstance(e, ast.IfExp):
                return is_step(e.body) or is_step(e.orelse)
            return False
        changed = True
        while changed:
            changed = False
            for x in ast.walk(fi.node):
                pairs = []
                if isinstance(x, ast.Assign):
                    for t in x.targets:
                        if isinstance(t, ast.Tuple) and isinstance(x.value, ast.Tuple) and len(t.elts) == len(x.value.elts):
                            pairs += list(zip(t.elts, x.value.elts))
                        else:
                            pairs.append((t, x.value))
                elif isinstance(x, ast.AugAssign):
                    pairs.append((x.target, x.value))
                for t, v in pairs:
                    if isinstance(t, ast.Name) and t.id not in steps and is_step(v):
                        steps.add(t.id)
                        changed = True
        uses = [x for x in ast.walk(fi.node) if isinstance(x, ast.Attribute) and x.attr == 'step']
        if not uses and not steps:
            continue
        bad = []
        for x in ast.walk(fi.node):
            if isinstance(x, ast.BinOp) and isinstance(x.op, ast.FloorDiv) and is_step(x.right):
                left = x.left
                ceil_a = isinstance(left, ast.UnaryOp) and isinstance(left.op, ast.USub) and \
                    isinstance(getattr(x, 'parent', None), ast.UnaryOp) and isinstance(x.parent.op, ast.USub)
                ceil_b = isinstance(left, ast.BinOp) and any(
                    isinstance(y, ast.BinOp) and isinstance(y.op, ast.Sub) and isinstance(y.right, ast.Constant) and
                    y.right.value == 1 and is_step(y.left) for y in ast.walk(left)) or \
                    (isinstance(left, ast.BinOp) and isinstance(left.op, ast.Sub) and isinstance(left.right, ast.Constant) and
                     left.right.value == 1 and any(is_step(y) for y in ast.walk(left.left)))
                if not (ceil_a or ceil_b):
                    bad.append(x)
            if isinstance(x, ast.Call) and isinstance(x.func, ast.Name) and x.func.id == 'int' and x.args and \
                    isinstance(x.args[0], ast.BinOp) and isinstance(x.args[0].op, ast.Div) and is_step(x.args[0].right):
                bad.append(x)
            if isinstance(x, ast.Call) and call_name_tail(x) == 'floor' and x.args and isinstance(x.args[0], ast.BinOp) and \
                    isinstance(x.args[0].op, ast.Div) and is_step(x.args[0].right):
                bad.append(x)
        n += 1
        ctx.ob(rule, fi, (bad[0].lineno if bad else fi.node.lineno),
               f"{fi.qualname}: a count of stepped positions is not an extent divided by the step rounded down", not bad,
               fact=(f"`{ast.unparse(bad[0])[:80]}` rounds down" if bad else f"{len(uses)} use(s) of a step, none under a truncating division"),
               why='a step that does not divide the extent selects one position more than the quotient: shape, size and pairing are wrong for such selections',
               key='extent // step', nontrivial=bool(uses))
    from .common import floor as _floor
    _floor(ctx, 'functions that handle a slice step', n, 2)


def call_name_tail(c):
    f = c.func
    return f.attr if isinstance(f, ast.Attribute) else (f.id if isinstance(f, ast.Name) else None)


def _display_observers(model):
    """Methods that answer in display precision: their body rounds with `config.precisions[..]` (directly, through a local
    `precision`, or by returning what another such method answered)."""
    out = {}
    funcs = [fi for fi in model.funcs.values() if fi.cls is not None and fi.parent is None and fi.mod.rel == 'pyplate/pyplate.py']
    helpers = {fi.name for fi in model.funcs.values() if fi.parent is None and not fi.name.startswith('get_') and
               'precisions' in ast.unparse(fi.node) and len(fi.node.body) <= 6}
    for fi in funcs:
        if not (fi.name.startswith('get_') or fi.name in ('dataframe', 'volumes', 'moles')):
            continue
        txt = ast.unparse(fi.node)
        # the number of display digits may come from a helper (`_display_precision(unit)`) that reads config.precisions
        via_helper = any(isinstance(c, ast.Call) and (c.func.attr if isinstance(c.func, ast.Attribute) else getattr(c.func, 'id', None)) in helpers
                         for c in ast.walk(fi.node))
        if ('precisions' in txt or via_helper) and ('round(' in txt or '.round(' in txt):
            out.setdefault(fi.name, []).append(fi.qualname)
    changed = True
    while changed:
        changed = False
        for fi in funcs:
            if fi.name in out and fi.qualname in out[fi.name]:
                continue
            if not fi.name.startswith('get_'):
                continue
            for r in ast.walk(fi.node):
                if isinstance(r, ast.Return) and r.value is not None and any(
                        isinstance(c, ast.Call) and isinstance(c.func, ast.Attribute) and c.func.attr in out and
                        (c.func.attr != fi.name or not (isinstance(c.func.value, ast.Name) and c.func.value.id == 'self'))
                        for c in ast.walk(r.value)):
                    out.setdefault(fi.name, []).append(fi.qualname)
                    changed = True
                    break
    return out


def decisions_not_taken_on_display_values(ctx, rule, classes, exempt=('dataframe', 'visualize', '_repr_html_', '__repr__', '__str__')):
    """What an operation does, and what the recipe records, is decided on the stored amounts.  The observers that answer in
    display precision (whole microlitres by default) cannot tell 0.4 uL from nothing: an `if` that skips or selects work on
    their answer (`if plate.get_volume() == before.get_volume()`, an early return when `get_volumes(..)` shows nothing) drops
    every amount below the display resolution.  The same holds for a test on a value rounded with `config.precisions[..]`."""
    model = ctx.model.plain()
    obs = _display_observers(model)
    if len(obs) < 2:
        from ..model import AnalysisError
        raise AnalysisError(f"display observers not found (found {sorted(obs)})")
    n = 0
    bad = []
    for fi in model.funcs.values():
        if fi.mod.rel != 'pyplate/pyplate.py' or fi.parent is not None or fi.cls is None or fi.cls.name not in classes:
            continue
        if fi.name in exempt or fi.name in obs:
            continue
        n += 1
        assigns = {}
        for st in ast.walk(fi.node):
            if isinstance(st, ast.Assign):
                for t in st.targets:
                    for nm in ([t] if isinstance(t, ast.Name) else (t.elts if isinstance(t, ast.Tuple) else [])):
                        if isinstance(nm, ast.Name):
                            assigns.setdefault(nm.id, []).append(st.value)

        def observer_call(x):
            """a call of a method that answers in display precision (for a name several classes define: unless the receiver
            is known to be of a class whose version does not)"""
            if not (isinstance(x, ast.Call) and isinstance(x.func, ast.Attribute) and x.func.attr in obs):
                return False
            owners = {q.split('.')[0] for q in obs[x.func.attr]}
            others = {f2.cls.name for f2 in model.funcs.values() if f2.cls is not None and f2.parent is None and
                      f2.name == x.func.attr} - owners
            if not others:
                return True
            recv = x.func.value
            known = None
            if isinstance(recv, ast.Name) and recv.id == 'self':
                known = fi.cls.name
            elif isinstance(recv, ast.Name):
                ann = fi.annotation(recv.id) if recv.id in fi.all_param_names() else None
                txt = ast.unparse(ann) if ann is not None and not isinstance(ann, str) else (ann or '')
                names = {t for t in txt.replace('|', ' ').replace('[', ' ').replace(']', ' ').replace(',', ' ').split()}
                if names and names <= others:
                    known = sorted(names)[0]
            return not (known is not None and known in others)

        NUM = {'abs', 'sum', 'max', 'min', 'any', 'all', 'float', 'int', 'bool'}

        def coarse(e, line, depth=0, need_call=False):
            """e is (arithmetic / comparison over) the answer of a display observer, or - unless need_call - a value rounded
            with display digits; names are followed through their earlier plain assignments"""
            if depth > 4:
                return None
            if observer_call(e):
                return f"`{ast.unparse(e)[:50]}` answers in display precision"
            if isinstance(e, ast.Call):
                f = e.func
                is_round = (isinstance(f, ast.Name) and f.id == 'round' and len(e.args) == 2) or \
                    (isinstance(f, ast.Attribute) and f.attr == 'round' and e.args)
                if is_round and not need_call and _display_digits(e.args[-1], assigns):
                    return f"`{ast.unparse(e)[:50]}` is rounded for display"
                if isinstance(f, ast.Attribute) and f.attr in ('sum', 'any', 'all', 'max', 'min', 'flatten', 'round', 'item', 'tolist'):
                    return coarse(f.value, line, depth + 1, need_call)
                if (isinstance(f, ast.Name) and f.id in NUM) or (isinstance(f, ast.Attribute) and isinstance(f.value, ast.Name) and
                                                                  f.value.id in ('numpy', 'np', 'math')):
                    for a_ in e.args:
                        r = coarse(a_, line, depth + 1, need_call)
                        if r:
                            return r
                return None
            if isinstance(e, (ast.BinOp, ast.Compare, ast.BoolOp, ast.UnaryOp, ast.Subscript, ast.Starred)):
                for ch in ast.iter_child_nodes(e):
                    if isinstance(ch, ast.expr):
                        r = coarse(ch, line, depth + 1, need_call)
                        if r:
                            return r
                return None
            if isinstance(e, ast.Name) and isinstance(e.ctx, ast.Load):
                for v in assigns.get(e.id, []):
                    if v.lineno < line:
                        r = coarse(v, v.lineno, depth + 1, need_call)
                        if r:
                            return r
            return None
        for st in ast.walk(fi.node):
            tests = []
            if isinstance(st, (ast.If, ast.While)):
                # a refusal is judged by the feasibility rules; here: tests that choose or skip work
                if any(isinstance(b, ast.Raise) for b in st.body):
                    continue
                # a value rounded for display may choose what a text says; it may not end the operation
                returns = any(isinstance(b, ast.Return) for b in st.body)
                tests.append((st.test, not returns))
            elif isinstance(st, ast.IfExp):
                tests.append((st.test, True))
            elif isinstance(st, ast.comprehension):
                tests.extend((t, True) for t in st.ifs)
            for t, need_call in tests:
                r = coarse(t, t.lineno, 0, need_call)
                if r:
                    bad.append((fi, t.lineno, ast.unparse(t)[:60], r))
    anchor = model.func('Container.__init__')
    for fi, line, txt, r in bad:
        ctx.ob(rule, ctx.model.funcs.get(fi.qualname, anchor), line, f"{fi.qualname}: `{txt}` is not decided on a display value", False,
               fact=r, why='amounts below the display resolution (0.5 uL by default) are treated as nothing: the work that moves, '
                           'removes or records them is skipped', key=f"decision on a display value in {fi.qualname}")
    ctx.ob(rule, anchor, anchor.node.lineno, 'no operation decides on the answer of a display observer', not bad,
           fact=f"{n} functions examined; display observers: {sorted(obs)}", why='see the reports', key='display decisions', nontrivial=False)


def _display_digits(d, assigns, depth=0):
    if depth > 4:
        return False
    if 'precisions' in ast.unparse(d):
        return True
    if isinstance(d, ast.Name):
        return any(_display_digits(v, assigns, depth + 1) for v in assigns.get(d.id, []))
    return False


STORED_FIELDS = ('volume', 'contents', 'max_volume', 'max_volume_per_well')


def observers_convert_to_the_requested_unit(ctx, rule, classes=('Container', 'Plate', 'PlateSlicer')):
    """An observer that is asked for a unit answers in that unit: every stored field (`.volume`, `.contents[..]`, a
    capacity - all kept in the configured storage units) that reaches its return value does so inside a call that is also
    given the requested unit (a conversion, or another observer).  A stored field returned or summed as it is equals the
    answer only while the storage unit happens to be the requested one (`if unit == 'uL': return sum of .volume`)."""
    model = ctx.model.plain()
    n = 0
    for fi in model.funcs.values():
        if fi.mod.rel != 'pyplate/pyplate.py' or fi.parent is not None or fi.cls is None or fi.cls.name not in classes:
            continue
        if not fi.name.startswith('get_') or 'unit' not in fi.all_param_names():
            continue
        unit_names = {'unit'}
        changed = True
        while changed:
            changed = False
            for st in ast.walk(fi.node):
                if isinstance(st, ast.Assign) and any(isinstance(y, ast.Name) and y.id in unit_names for y in ast.walk(st.value)):
                    for t in st.targets:
                        for nm in ast.walk(t):
                            alias = isinstance(st.value, (ast.Name, ast.IfExp, ast.BoolOp)) and all(
                                isinstance(y, (ast.Name, ast.Attribute, ast.Constant, ast.IfExp, ast.BoolOp, ast.Compare, ast.UnaryOp,
                                               ast.expr_context, ast.boolop, ast.cmpop, ast.unaryop)) for y in ast.walk(st.value))
                            if isinstance(nm, ast.Name) and nm.id not in unit_names and (alias or (isinstance(st.value, ast.Call) and (
                                    'parse' in ast.unparse(st.value.func) or 'split' in ast.unparse(st.value.func)))):
                                unit_names.add(nm.id)
                                changed = True
        # values computed before the return: name -> expression
        assigns = {}
        for st in ast.walk(fi.node):
            if isinstance(st, ast.Assign) and len(st.targets) == 1 and isinstance(st.targets[0], ast.Name):
                assigns.setdefault(st.targets[0].id, []).append(st.value)
        bad = []

        def raw_reads(e, depth=0):
            out = []
            for x in ast.walk(e):
                if isinstance(x, ast.Attribute) and x.attr in STORED_FIELDS and isinstance(x.ctx, ast.Load):
                    p, covered = getattr(x, 'parent', None), False
                    while p is not None and p is not fi.node:
                        if isinstance(p, ast.Call) and any(isinstance(y, ast.Name) and y.id in unit_names
                                                           for a_ in list(p.args) + [k.value for k in p.keywords] for y in ast.walk(a_)
                                                           if a_ is not x):
                            # the unit must be an argument beside the one the field sits in
                            holder = [a_ for a_ in list(p.args) + [k.value for k in p.keywords] if any(y is x for y in ast.walk(a_))]
                            others = [a_ for a_ in list(p.args) + [k.value for k in p.keywords] if a_ not in holder]
                            if any(isinstance(y, ast.Name) and y.id in unit_names for a_ in others for y in ast.walk(a_)) or not holder:
                                covered = True
                                break
                        p = getattr(p, 'parent', None)
                    if not covered:
                        out.append(x)
                elif isinstance(x, ast.Name) and isinstance(x.ctx, ast.Load) and depth < 3 and x.id in assigns:
                    for v in assigns[x.id]:
                        if v.lineno < x.lineno:
                            out.extend(raw_reads(v, depth + 1))
            return out
        def storage_unit_branch(r):
            # `if unit == config.volume_storage_unit: return self.volume` - the stored field *is* in the requested unit there
            p = getattr(r, 'parent', None)
            prev = r
            while p is not None and p is not fi.node:
                if isinstance(p, ast.If) and prev in p.body and isinstance(p.test, ast.Compare) and len(p.test.ops) == 1 and \
                        isinstance(p.test.ops[0], ast.Eq):
                    sides = [p.test.left, p.test.comparators[0]]
                    if any(isinstance(x, ast.Name) and x.id in unit_names for x in sides) and \
                            any(isinstance(x, ast.Attribute) and x.attr.endswith('storage_unit') for x in sides):
                        return True
                prev, p = p, getattr(p, 'parent', None)
            return False
        rets = [r for r in ast.walk(fi.node) if isinstance(r, ast.Return) and r.value is not None]
        for r in rets:
            if storage_unit_branch(r):
                continue
            for x in raw_reads(r.value):
                # a test of the field (`if self.volume == 0`) is no part of the value; ast.walk over the value does not reach tests
                bad.append((r, x))
        n += 1
        ctx.ob(rule, fi, (bad[0][1].lineno if bad else fi.node.lineno),
               f"{fi.qualname}: every stored field in the answer is converted to the requested unit", not bad,
               fact=(f"`{ast.unparse(bad[0][1])}` reaches `{ast.unparse(bad[0][0])[:70]}` without a conversion that is given the unit"
                     if bad else f"{len(rets)} return(s); stored fields only inside calls that receive the unit"),
               why='the answer is in the storage unit: right only for the storage unit the shortcut was written for',
               key=f"unconverted stored field in {fi.qualname}")
    from .common import floor as _floor
    _floor(ctx, 'observers that take a unit', n, 4)


def _precedes_in_block(gate, stmt):
    """Is `gate` an earlier statement of the block that holds `stmt`, or of a block that encloses it?  (Then every path to
    `stmt` has passed the gate.)"""
    cur = stmt
    while cur is not None:
        par = getattr(cur, 'parent', None)
        if par is None:
            return False
        for fld in ('body', 'orelse', 'finalbody'):
            blk = getattr(par, fld, None)
            if isinstance(blk, list) and cur in blk:
                if gate in blk[:blk.index(cur)]:
                    return True
        cur = par
    return False


def attribute_memo_keys_complete(ctx, rule, classes):
    """A dictionary kept on an object and filled on demand by a method (`v = self._memo.get(k)` .. `self._memo[k] = v`)
    answers every later call that builds the same key: the key has to contain every parameter of the method that the stored
    value depends on - by data (`steps = self.steps[self.stages[timeframe]]`) or by control (`if mode == 'after': steps =
    reversed(steps)`).  A parameter counts as contained when it occurs in the key as itself or, for an object declared to a
    recipe, through its unique `.name`."""
    model = ctx.model.plain()
    n = 0
    bad = []
    for fi in model.funcs.values():
        if fi.mod.rel != 'pyplate/pyplate.py' or fi.parent is not None or fi.cls is None or fi.cls.name not in classes:
            continue
        params = [p for p in fi.all_param_names() if p not in ('self', 'cls')]
        if not params:
            continue
        stores = []
        for st in ast.walk(fi.node):
            if isinstance(st, ast.Assign):
                for t in st.targets:
                    if isinstance(t, ast.Subscript) and isinstance(t.value, ast.Attribute) and isinstance(t.value.value, ast.Name) and \
                            t.value.value.id in ('self', fi.cls.name):
                        stores.append((st, t))
        for st, t in stores:
            memo = ast.unparse(t.value)
            looked_up = any((isinstance(x, ast.Call) and isinstance(x.func, ast.Attribute) and x.func.attr == 'get' and
                             ast.unparse(x.func.value) == memo) or
                            (isinstance(x, ast.Compare) and any(ast.unparse(c) == memo for c in x.comparators) and
                             any(isinstance(o, (ast.In, ast.NotIn)) for o in x.ops)) or
                            (isinstance(x, ast.Subscript) and isinstance(x.ctx, ast.Load) and ast.unparse(x.value) == memo)
                            for x in ast.walk(fi.node))
            if not looked_up:
                continue
            # filled on demand: the store sits under the test that found nothing (`if k not in memo`, `if found is None` where
            # `found` came from the look-up) - a dictionary that is simply updated is state, not a memo
            found_names = {tg.id for a_ in ast.walk(fi.node) if isinstance(a_, ast.Assign) and memo in ast.unparse(a_.value)
                           for tg in a_.targets if isinstance(tg, ast.Name)}
            on_demand = False
            p = getattr(st, 'parent', None)
            while p is not None and p is not fi.node:
                if isinstance(p, ast.If):
                    tt = p.test
                    # (`if k not in d: d[k] = v  else: raise` registers a new name, it does not remember an answer)
                    if isinstance(tt, ast.Compare) and any(isinstance(o, ast.NotIn) for o in tt.ops) and \
                            any(ast.unparse(c) == memo for c in tt.comparators) and \
                            not any(isinstance(b, ast.Raise) for b in p.orelse):
                        on_demand = True
                    if _is_none_test(tt) and isinstance(tt.left, ast.Name) and tt.left.id in found_names and isinstance(tt.ops[0], ast.Is):
                        on_demand = True
                p = getattr(p, 'parent', None)
            if not on_demand:
                continue
            n += 1
            key = t.slice
            # names the key is built from (through local assignments)
            defs = {}
            for s2 in ast.walk(fi.node):
                ctrl = set()
                p = getattr(s2, 'parent', None)
                while p is not None and p is not fi.node:
                    if isinstance(p, (ast.If, ast.While)):
                        # the look-up guard itself (`if cached is None`) is no input of the value
                        if memo not in ast.unparse(p.test) and not _is_none_test(p.test):
                            ctrl |= {y.id for y in ast.walk(p.test) if isinstance(y, ast.Name)}
                    p = getattr(p, 'parent', None)
                if isinstance(s2, (ast.Assign, ast.AugAssign)):
                    for tg in (s2.targets if isinstance(s2, ast.Assign) else [s2.target]):
                        for nm in ast.walk(tg):
                            if isinstance(nm, ast.Name) and isinstance(nm.ctx, ast.Store):
                                defs.setdefault(nm.id, set()).update({y.id for y in ast.walk(s2.value) if isinstance(y, ast.Name)} | ctrl)
                elif isinstance(s2, ast.For):
                    for nm in ast.walk(s2.target):
                        if isinstance(nm, ast.Name):
                            defs.setdefault(nm.id, set()).update({y.id for y in ast.walk(s2.iter) if isinstance(y, ast.Name)} | ctrl)

            def closure(start):
                todo, seen = list(start), set()
                while todo:
                    nm = todo.pop()
                    if nm in seen:
                        continue
                    seen.add(nm)
                    todo.extend(defs.get(nm, ()))
                return seen
            value_inputs = closure({y.id for y in ast.walk(st.value) if isinstance(y, ast.Name)}) & set(params)
            key_names = closure({y.id for y in ast.walk(key) if isinstance(y, ast.Name)})
            in_key = set()
            for kexp in [key] + [v for nm in key_names for v in []]:
                pass
            # how the parameters occur in the key expression (after substituting local key variables once)
            key_exprs = [key]
            for s2 in ast.walk(fi.node):
                if isinstance(s2, ast.Assign) and any(isinstance(tg, ast.Name) and tg.id in {y.id for y in ast.walk(key) if isinstance(y, ast.Name)}
                                                      for tg in s2.targets):
                    key_exprs.append(s2.value)
            for ke in key_exprs:
                for y in ast.walk(ke):
                    if isinstance(y, ast.Name) and y.id in params:
                        par = getattr(y, 'parent', None)
                        if isinstance(par, ast.Attribute):
                            if par.attr == 'name' and fi.cls.name in ('Recipe', 'RecipeStep'):
                                in_key.add(y.id)
                        elif isinstance(par, ast.Call) and par.func is not y and not (isinstance(par.func, ast.Name) and par.func.id in ('str', 'repr', 'tuple', 'id')):
                            pass        # f(param) need not determine param
                        else:
                            in_key.add(y.id)
            missing = sorted(value_inputs - in_key)
            if missing:
                bad.append((fi, st.lineno, memo, ast.unparse(key)[:40], missing))
    anchor = model.func('Container.__init__')
    for fi, line, memo, key, missing in bad:
        ctx.ob(rule, ctx.model.funcs.get(fi.qualname, anchor), line, f"{fi.qualname}: the key `{key}` of `{memo}` determines the stored value", False,
               fact=f"the value also depends on the parameter(s) {missing}",
               why='a later call with another value of that parameter is answered with what was stored for the first one',
               key=f"attribute memo key incomplete in {fi.qualname}")
    ctx.ob(rule, anchor, anchor.node.lineno, 'keys of memos kept on objects name every parameter the stored value depends on', not bad,
           fact=f"{n} memo store(s) examined", why='see the reports', key='attribute memo keys', nontrivial=False)


def _is_none_test(t):
    return isinstance(t, ast.Compare) and len(t.ops) == 1 and isinstance(t.ops[0], (ast.Is, ast.IsNot)) and \
        isinstance(t.comparators[0], ast.Constant) and t.comparators[0].value is None


SWALLOWED = ('ValueError', 'ZeroDivisionError', 'ArithmeticError', 'FloatingPointError', 'OverflowError', 'RuntimeError',
             'Exception', 'BaseException', 'LinAlgError')


def refusals_not_swallowed(ctx, rule, classes=('Container', 'Plate', 'PlateSlicer', 'Recipe', 'RecipeStep', 'Unit', 'Slicer', 'Substance')):
    """The refusals of the library are exceptions (ValueError for an infeasible request; a ZeroDivisionError or LinAlgError
    where the arithmetic has no answer).  A handler for one of them that does not end in a `raise` turns the refusal of the
    operation inside the `try` into a result: a fill beyond the capacity "topped up to the brim", a share of an empty
    source answered with 0.0, a singular system answered with the whole stock.  Handlers that translate (`raise X from
    exc`) are the accepted form; look-up idioms (KeyError, AttributeError, StopIteration ..) are not concerned."""
    model = ctx.model.plain()
    n = 0
    bad = []
    for fi in model.funcs.values():
        if fi.mod.rel not in ('pyplate/pyplate.py', 'pyplate/slicer.py') or fi.cls is None or fi.cls.name not in classes:
            continue
        if fi.parent is not None:
            continue
        for t in ast.walk(fi.node):
            if not isinstance(t, ast.Try):
                continue
            for h in t.handlers:
                names = []
                if h.type is None:
                    names = ['BaseException']
                else:
                    for x in ast.walk(h.type):
                        if isinstance(x, ast.Name):
                            names.append(x.id)
                        elif isinstance(x, ast.Attribute):
                            names.append(x.attr)
                hit = [nm for nm in names if nm in SWALLOWED]
                if not hit:
                    continue
                n += 1
                ends_in_raise = bool(h.body) and isinstance(h.body[-1], ast.Raise)
                if not ends_in_raise:
                    bad.append((fi, h.lineno, hit[0], ast.unparse(t.body[0])[:50]))
    anchor = model.func('Unit.parse_quantity')
    for fi, line, exc, what in bad:
        ctx.ob(rule, ctx.model.funcs.get(fi.qualname, anchor), line, f"{fi.qualname}: the handler of {exc} ends in a raise", False,
               fact=f"`{what}` is tried; the handler continues without raising",
               why='a refusal raised inside the try (an infeasible request, an arithmetic impossibility) is converted into a result',
               key=f"swallowed {exc} in {fi.qualname}")
    ctx.ob(rule, ctx.model.funcs.get(anchor.qualname, anchor), anchor.node.lineno, 'every handler of a refusal re-raises', not bad,
           fact=f"{n} handler(s) of {'/'.join(SWALLOWED[:3])}/.. examined", why='see the reports', key='swallowed refusals',
           nontrivial=False)
    from .common import floor as _floor
    _floor(ctx, 'handlers of refusals', n, 2)

"""C02 - A transfer moves exactly the requested amount as a uniform aliquot.
Measure-table typing (U, F, D) + uniform-ratio dataflow + quantity pass-through."""
from __future__ import annotations

import ast

from ..dep import depends_on
from ..flow import (Ref, Param, LoopVar, Elt, Phi, Acc, Sym, FuncRef, FuncFlow, strip_refs, show, pathkey, same_value,
                    facts_at, deep_walk, normalise_fact, definitions_of)
from ..model import AnalysisError, unparse, walk_no_nested
from .common import (root_of_expr, path_from_param, dominates, const_value, gate_with, floor, call_name, is_call_to)
from .c01 import prim_calls
from .c03 import find_ratio, branch_label, user_derived, is_attr, is_items_of_contents, strip_clamp
from . import targets, unitspec
from .. import uscan

ALL = frozenset(('solid', 'liquid', 'enzyme'))
NON_ENZ = frozenset(('solid', 'liquid'))
ENZ = frozenset(('enzyme',))
# the measure of a mixture per quantity unit (from the property statement)
TABLE = {'L': ALL, 'g': ALL, 'mol': NON_ENZ, 'U': ENZ}


def kinds_of_filter(conds):
    """Set of substance kinds that pass all filter conditions (over is_enzyme / is_solid / is_liquid of the item)."""
    def ev(e, kind):
        e = strip_refs(e)
        if isinstance(e, ast.UnaryOp) and isinstance(e.op, ast.Not):
            v = ev(e.operand, kind)
            return None if v is None else not v
        if isinstance(e, ast.BoolOp):
            vs = [ev(x, kind) for x in e.values]
            if any(v is None for v in vs):
                return None
            return all(vs) if isinstance(e.op, ast.And) else any(vs)
        if isinstance(e, ast.Call) and isinstance(e.func, ast.Attribute) and e.func.attr in ('is_enzyme', 'is_solid', 'is_liquid'):
            return {'is_enzyme': 'enzyme', 'is_solid': 'solid', 'is_liquid': 'liquid'}[e.func.attr] == kind
        return None
    out = set()
    for k in ALL:
        keep = True
        for c, truth in conds:
            v = ev(c, k)
            if v is None:
                return None
            if v != truth:
                keep = False
        if keep:
            out.add(k)
    return frozenset(out)


def total_descriptor(e):
    """For an expression that totals a mixture: (kinds included, converted through the Unit API?, iterated object) by
    looking at the generator / accumulator over X.contents.items() it is built from; None if it is not such a sum."""
    for n in deep_walk(e):
        if isinstance(n, ast.GeneratorExp) or isinstance(n, ast.ListComp):
            g = n.generators[0]
            it = strip_refs(g.iter)
            if _is_contents_iter(it):
                kinds = kinds_of_filter([(c, True) for c in g.ifs])
                api = any(isinstance(x, ast.Call) and isinstance(x.func, ast.Attribute) and x.func.attr in ('convert_from', 'convert')
                          for x in deep_walk(n.elt))
                return kinds, api, it
        if isinstance(n, Acc):
            loop = n.loop
            it = None
            if isinstance(loop, ast.For):
                for t in n.terms:
                    for x in deep_walk(t[1]):
                        if isinstance(x, LoopVar) and x.loop is loop:
                            it = strip_refs(x.iter)
            if it is not None and _is_contents_iter(it):
                kinds = frozenset()
                for op, term, guards, stmt in n.terms:
                    k = kinds_of_filter([(f.test, f.truth) for f in guards])
                    if k is None:
                        kinds = None
                        break
                    kinds = kinds | k
                api = any(isinstance(x, ast.Call) and isinstance(x.func, ast.Attribute) and x.func.attr in ('convert_from', 'convert')
                          for t in n.terms for x in deep_walk(t[1]))
                return kinds, api, it
    return None


def _is_contents_iter(it):
    if is_items_of_contents(it):
        return True
    if isinstance(it, ast.Call) and isinstance(it.func, ast.Attribute) and it.func.attr in ('items', 'keys', 'values'):
        r = it.func.value
        if isinstance(r, Ref) and r.name.endswith('.contents'):
            return True         # a contents dict that was stored as a whole in this function
        return is_attr(r, 'contents')
    return isinstance(it, ast.Attribute) and it.attr == 'contents'


def transfer_measures(ctx, rule='C02.R1', units=True):
    """Each unit branch of Container._transfer computes requested / total with the total over exactly the kinds of
    substance the property assigns to that unit."""
    model = ctx.model
    tr = model.func('Container._transfer')
    ff = ctx.flow('Container._transfer')
    found = find_ratio(ff)
    if found is None:
        raise AnalysisError('Container._transfer: per-substance factor not found')
    ratio_val, loop = found
    ratio_val = strip_clamp(ratio_val)
    options = [o for o in definitions_of(ratio_val) if isinstance(o, Ref)]
    # units of everything in the transfer (engine U)
    sc = targets.scan(ctx, 'Container._transfer')
    if units:
        uscan.report_sinks(ctx, lambda cat: rule if cat in ('convert-from-unit', 'sum-mix', 'add-units', 'to-storage',
                                                            'qstr', 'qstr-format', 'truncating-division', 'storage-label', 'compare-units', 'store-contents',
                                                            'from-storage', 'round-then-scale') else None, sc)
    seen_units = set()
    uses_stored_volume = False
    for o in options:
        v = strip_refs(o)
        unit_lbl = branch_label(ff.state_before(o.stmt))
        seen_units.add(unit_lbl)
        if not (isinstance(v, ast.BinOp) and isinstance(v.op, ast.Div)):
            ctx.ob(rule, tr, o.lineno, f"ratio on the `{unit_lbl}` branch is requested / total", False,
                   fact=show(v, 80), why='the transfer ratio is not a quotient', key=f"ratio shape {unit_lbl}")
            continue
        num, den = v.left, v.right
        # (i) provenance
        src_param = tr.param_names()[0]
        ok_num = user_derived(num)
        den_src = depends_on(den, lambda n: isinstance(n, ast.Attribute) and n.attr in ('contents', 'volume') and
                             isinstance(root_of_expr(n.value), Param) and root_of_expr(n.value).name == src_param)
        den_other = depends_on(den, lambda n: isinstance(n, ast.Attribute) and n.attr in ('contents', 'volume') and
                               isinstance(root_of_expr(n.value), Param) and root_of_expr(n.value).name != src_param)
        ctx.ob(rule, tr, o.lineno, f"`{unit_lbl}` branch: ratio = requested quantity / total of the source",
               ok_num and den_src and not den_other and not user_derived(den),
               fact=f"numerator from the user quantity: {ok_num}; denominator from the source: {den_src}",
               why='the fraction moved is not requested / available-in-the-source (e.g. inverted, or measured on the '
                   'destination)', key=f"ratio provenance {unit_lbl}")
        # (ii) dimensionless
        units = set()
        for (line, name), us in sc.bound.items():
            if line == o.lineno and name == o.name:
                units |= us
        ok_dim = bool(units) and units <= {'1', '0'}
        ctx.ob(rule, tr, o.lineno, f"`{unit_lbl}` branch: requested and total are in the same unit", ok_dim,
               fact=f"unit of the ratio over all paths and kinds: {sorted(units)}",
               why='requested amount and total are measured in different units: the aliquot has the wrong size',
               key=f"ratio unit {unit_lbl}")
        # (iii) the total ranges over exactly the kinds of the measure table
        want = TABLE.get(unit_lbl)
        td = total_descriptor(den)
        if want is None:
            continue
        if td is None:
            d = strip_refs(den)
            cached = isinstance(d, ast.Attribute) and d.attr == 'volume'
            ok = cached and unit_lbl == 'L'
            fact = 'uses the stored volume (every writer of contents must keep it current: pairing obligations below)' \
                if cached else f"denominator {show(den, 60)}"
            uses_stored_volume = uses_stored_volume or cached
        else:
            kinds, api, it = td
            ok = kinds == want or (api and kinds is not None and kinds >= want)
            fact = f"sums over kinds {sorted(kinds) if kinds is not None else '?'}" + (' through the Unit API' if api else ' (raw stored amounts)')
        ctx.ob(rule, tr, o.lineno, f"`{unit_lbl}` branch: the total is the measure of the mixture for that unit "
                                       f"({sorted(want)})", ok, fact=fact,
               why='the total leaves out or wrongly includes a kind of substance: the aliquot is too large or too small',
               key=f"measure kinds {unit_lbl}")
    for u in ('L', 'g', 'mol', 'U'):
        ctx.ob(rule, tr, tr.node.lineno, f"quantity unit {u} has a branch", u in seen_units, nontrivial=False,
               why='a quantity unit named by the property is not handled', key=f"unit branch {u}")

    if uses_stored_volume:
        # the volume branch divides by the stored volume of the source: the aliquot has the requested size only if
        # every writer of a container's contents leaves the stored volume equal to the volume of those contents
        from . import c10
        c10.pairing(ctx, rule)

    return tr, ff, options, loop


def run(ctx):
    from .configtime import derived_values as _derived
    _derived(ctx, 'C02.R1', ('Container', 'Plate', 'PlateSlicer', 'Slicer', 'Unit'))
    from .configtime import decisions_not_taken_on_display_values as _coarse
    _coarse(ctx, 'C02.R3', ('Container', 'Plate', 'PlateSlicer', 'Recipe', 'RecipeStep'))
    from .configtime import no_writes_through_get as _no_get_writes
    _no_get_writes(ctx, 'C02.R3')
    from .configtime import no_identity_test_against_literals as _no_is_literal
    _no_is_literal(ctx, 'C02.R1', classes=('Container', 'Unit', 'Substance'))
    from .configtime import no_shared_mutable_defaults as _mutdef, selection_not_changed_in_place as _sel_inplace
    _mutdef(ctx, 'C02.R3', classes=('Slicer', 'PlateSlicer'))
    _sel_inplace(ctx, 'C02.R3')
    # contents are keyed by Substance objects: the key laws this property's bookkeeping relies on
    from .identity import identity_discipline as _identity
    _identity(ctx, 'C02.R1', classes=('Substance',), memoised=False)
    tr, ff, options, loop = transfer_measures(ctx)
    model = ctx.model

    # sibling agreement: the other totals of a mixture
    siblings(ctx)

    # ---- R2 uniform ratio
    outside = all(not _inside(o.stmt, loop) for o in options)
    ctx.ob('C02.R2', tr, loop.lineno, 'one ratio for all substances: defined before the loop, not redefined inside',
           outside and not any(isinstance(n, ast.Name) and isinstance(n.ctx, ast.Store) and n.id == options[0].name
                               for n in ast.walk(loop)) if options else False,
           fact=f"{len(options)} definitions, all outside the per-substance loop: {outside}",
           why='different substances are moved by different fractions', key='ratio redefined in loop')

    ctrl = [n for n in ast.walk(loop) if isinstance(n, (ast.Continue, ast.Break))]
    ctx.ob('C02.R2', tr, loop.lineno, 'every substance of the source is reduced by that ratio (no continue / break in the loop)',
           not ctrl, fact=f"{len(ctrl)} continue/break statement(s) in the per-substance loop",
           why='some substances are left out of the aliquot: its composition differs from the source', key='aliquot loop filter')

    # ---- R3 quantity pass-through, one call per paired well
    passthrough(ctx)
    # two regions of one plate: both write-backs land only when the regions are disjoint (else a well receives or loses
    # another amount than the requested one)
    from . import c01 as _c01
    _c01.shared_plate_copy(ctx, 'C02.R3')
    _c01.no_bulk_contents_writes(ctx, 'C02.R2')
    dispatchers_answer_through_the_primitives(ctx, 'C02.R3')
    return {'explanation': 'R1: each unit branch of the transfer computes ratio = requested / total with the numerator '
                           'derived from the user quantity and the denominator from the source, both in the same unit '
                           '(units engine: the ratio is dimensionless with scale 1 on all paths and kinds), and the '
                           'total ranges over exactly the substance kinds the property assigns to that unit (volume and '
                           'mass: all; moles: non-enzymes; activity: enzymes); the other definitions of a mixture total '
                           'must agree. R2: one ratio, defined outside the per-substance loop. R3: the quantity string '
                           'reaches every nested per-well transfer unmodified, one call per paired well, and the '
                           'vectorisers call the per-well function once per element. Not decided: exact size after '
                           'rounding, drift over chains.'}


def _inside(stmt, loop):
    n = stmt
    while n is not None:
        if n is loop:
            return True
        n = getattr(n, 'parent', None)
    return False


def siblings(ctx):
    model = ctx.model
    # fill_to: the current quantity in the unit of the target
    ft = model.func('Container.fill_to')
    ff = ctx.flow('Container.fill_to')
    adds = [(c, s, b) for c, s, b in ff.calls if is_call_to(c, '_add', '_self_add')]
    for c, s, b in adds:
        q = strip_refs(c.args[1]) if len(c.args) > 1 else None
        val = None
        if isinstance(q, ast.JoinedStr):
            fv = [x for x in q.values if isinstance(x, ast.FormattedValue)]
            val = strip_refs(strip_clamp(fv[0].value)) if fv else None
        if not (isinstance(val, ast.BinOp) and isinstance(val.op, ast.Sub)):
            raise AnalysisError('Container.fill_to: required amount is not target - current')
        td = total_descriptor(val.right)
        if td is None:
            raise AnalysisError('Container.fill_to: current quantity is not a sum over the contents')
        kinds, api, it = td
        # the unit ranges over L, g, mol: volume and mass include every kind; through the API enzymes count 0 mol
        ok = kinds == ALL
        ctx.ob('C02.R1', ft, s.lineno, 'fill_to: the current quantity is the measure of the whole mixture in the unit of '
                                       'the target', ok, fact=f"sums over kinds {sorted(kinds) if kinds else '?'}",
               why='volume and mass targets must count every substance (enzymes are left out): the container is '
                   'over-filled', key='fill_to measure excludes a kind')
    # create_solution: properties of a solvent container
    for q, expect in (('Container.create_solution', None), ('Container.create_solution_from', None),
                      ('Container.dilute', None)):
        fi = model.func(q)
        f2 = ctx.flow(q)
        seen = 0
        for stmt in walk_no_nested(fi.node):
            if not isinstance(stmt, ast.Assign) or id(stmt) not in f2.post:
                continue
            v = f2.resolved.get(id(stmt))
            if v is None:
                continue
            from ..flow import walk_no_sym
            direct = [n for n in walk_no_sym(v) if isinstance(n, ast.Call) and isinstance(n.func, ast.Name) and
                      n.func.id == 'sum' and n.args and isinstance(n.args[0], ast.GeneratorExp) and
                      _is_contents_iter(strip_refs(n.args[0].generators[0].iter))]
            td = total_descriptor(direct[0].args[0]) if direct else None
            if td is None:
                continue
            kinds, api, it = td
            measure = _measure_of(stmt.value)
            if measure is None:
                continue
            seen += 1
            want = TABLE[measure]
            ok = kinds == want or (api and kinds is not None and kinds >= want)
            ctx.ob('C02.R1', fi, stmt.lineno, f"{fi.name}: total `{unparse(stmt.targets[0])}` measures the mixture in {measure}",
                   ok, fact=f"sums over kinds {sorted(kinds) if kinds else '?'}" + (' through the Unit API' if api else ''),
                   why='a mixture total disagrees with the measure table of the transfer', key=f"sibling measure {measure}")
        ctx.count(f"sibling_totals:{fi.name}", seen)


def _measure_of(expr):
    """Measure unit of a mixture total from its conversion target: 'g', 'mol', 'L', 'U' (raw amounts: by filter)."""
    for n in ast.walk(expr):
        if isinstance(n, ast.Call) and isinstance(n.func, ast.Attribute) and n.func.attr == 'convert_from' and len(n.args) == 4:
            t = n.args[3]
            if isinstance(t, ast.Constant) and isinstance(t.value, str):
                for b in ('mol', 'g', 'L', 'U'):
                    if t.value.endswith(b):
                        return b
            if isinstance(t, ast.Attribute) and t.attr == 'volume_storage_unit':
                return 'L'
    src = unparse(expr, 400)
    if 'is_enzyme()' in src and 'convert' not in src:
        return 'U' if 'if substance.is_enzyme()' in src or 'if not' not in src else 'mol'
    return None


def passthrough(ctx):
    model = ctx.model
    n = 0
    for q in ('Container.transfer', 'Plate.transfer', 'Container._transfer_slice', 'PlateSlicer._transfer'):
        fi = model.func(q)
        ff = ctx.flow(q)
        qparams = [p for p in fi.param_names() if p in ('quantity',)] or fi.param_names()[-1:]
        qp = qparams[0]
        flows = [(fi, ff)]
        for call, stmt, before in ff.registrations:
            for a in call.args:
                if isinstance(a, FuncRef):
                    sub = model.func_of_node.get(id(a.node))
                    if sub is not None and not isinstance(sub.node, ast.Lambda):
                        flows.append((sub, FuncFlow(sub, model, outer_state=before)))
        for f_i, f_f in flows:
            for c, s, b, src, dst in prim_calls(f_f):
                n += 1
                qa = c.args[-1]
                ok = isinstance(strip_refs(qa), Param) and strip_refs(qa).name == qp and isinstance(qa, Param)
                ctx.ob('C02.R3', f_i, getattr(s, 'lineno', 0), f"quantity passed to `{unparse(c.orig if hasattr(c, 'orig') else c, 60)}`", ok,
                       fact=f"third argument is {show(qa, 40)}",
                       why='a nested transfer moves another quantity than the one requested', key='quantity rewritten')
                if f_i is not fi:
                    # one call per paired well: no loop around the call inside the per-well function
                    looped = False
                    p = getattr(s, 'parent', None)
                    while p is not None and p is not f_i.node:
                        if isinstance(p, (ast.For, ast.While)):
                            looped = True
                        p = getattr(p, 'parent', None)
                    ctx.ob('C02.R3', f_i, getattr(s, 'lineno', 0), f"{f_i.qualname}: one transfer per paired well", not looped,
                           fact='call is not inside a loop of the per-well function', nontrivial=False,
                           why='a well receives the quantity several times', key='transfer looped per well')
    floor(ctx, 'nested transfer calls', n, 6)
    vectorize_once(ctx, 'C02.R3')
    from .c01 import accumulator_is_view, writeback_locality
    accumulator_is_view(ctx, 'C02.R3')      # the aliquot added to the paired destination well reaches the plate
    before_ = len(ctx.obs)
    writeback_locality(ctx)                 # ... and is stored in the well it was computed for
    for o_ in ctx.obs[before_:]:
        o_.rule = 'C02.R3'
    # the transfer relies on the storage conversions for the requested amount: they must map to the storage units
    unitspec.api_verified(ctx, 'C02.R1')


def vectorize_once(ctx, rule):
    """The vectorisers call the per-well function exactly once per element."""
    model = ctx.model
    ap = model.func('Slicer.apply')
    vecs = [c for c in ast.walk(ap.node) if isinstance(c, ast.Call) and unparse(c.func).endswith('vectorize')]
    floor(ctx, 'vectorize calls in Slicer.apply', len(vecs), 1)
    for c in vecs:
        kws = {k.arg: k.value for k in c.keywords}
        ok = ('cache' in kws and const_value(kws['cache']) is True) or 'otypes' in kws
        ctx.ob(rule, ap, c.lineno, 'Slicer.apply: numpy.vectorize does not make an extra warm-up call', ok,
               fact=f"keywords {sorted(kws)}",
               why='without cache=True/otypes numpy calls the function once more on the first element: the first well '
                   'is transferred twice', key='vectorize warm-up call')


PRIMITIVES = ('_transfer', '_transfer_slice', 'transfer')


def dispatchers_answer_through_the_primitives(ctx, rule):
    """`Container.transfer` and `Plate.transfer` only choose the primitive: every value they return is the result of
    `_transfer` / `_transfer_slice` / `PlateSlicer._transfer`.  A return of their own (the arguments handed back because the
    quantity "is nothing") decides the size of the amount outside the one place where it is measured in storage units."""
    plain = ctx.model.plain()
    n = 0
    for q in ('Container.transfer', 'Plate.transfer'):
        fi = plain.func(q)
        assigned = {}
        for st in walk_no_nested(fi.node):
            if isinstance(st, ast.Assign):
                for t in st.targets:
                    for nm in ast.walk(t):
                        if isinstance(nm, ast.Name):
                            assigned.setdefault(nm.id, []).append(st.value)

        def is_primitive_ref(f, depth=0):
            if isinstance(f, ast.Attribute):
                return f.attr in PRIMITIVES
            if isinstance(f, ast.IfExp):
                return is_primitive_ref(f.body, depth) and is_primitive_ref(f.orelse, depth)
            if isinstance(f, ast.Name) and depth < 3 and f.id in assigned:      # a local name bound to the chosen primitive
                return all(is_primitive_ref(v, depth + 1) for v in assigned[f.id])
            return False

        qparams = {p_ for p_ in fi.all_param_names() if p_ == 'quantity'} or set(fi.all_param_names()[-1:])

        def from_primitive(e, depth=0):
            if isinstance(e, ast.Call) and is_primitive_ref(e.func):
                return True
            # the primitives may carry other names: what matters is that the answer comes out of a call that is handed the
            # quantity (the request is carried out by somebody), not out of the dispatcher's own parameters
            if isinstance(e, ast.Call) and any(isinstance(y, ast.Name) and y.id in qparams
                                               for a_ in list(e.args) + [k.value for k in e.keywords] for y in ast.walk(a_)):
                return True
            if isinstance(e, (ast.Tuple, ast.List)):
                return all(from_primitive(x, depth) for x in e.elts)
            if isinstance(e, ast.Name) and depth < 3 and e.id in assigned:
                return all(from_primitive(v, depth + 1) for v in assigned[e.id])
            return False
        rets = [r for r in walk_no_nested(fi.node) if isinstance(r, ast.Return)]
        bad = [r for r in rets if r.value is None or not from_primitive(r.value)]
        n += len(rets)
        ctx.ob(rule, ctx.model.func(q), (bad[0].lineno if bad else fi.node.lineno),
               f"{q}: every answer is the result of a transfer primitive", not bad and bool(rets),
               fact=(f"`{unparse(bad[0], 70)}` is the dispatcher's own answer" if bad else f"{len(rets)} return(s), all of them results of "
                     f"{' / '.join(PRIMITIVES[:2])} / PlateSlicer._transfer"),
               why='a request the dispatcher judges to be empty is not carried out (and its arguments are handed back instead of copies): '
                   'amounts below its threshold are not moved although they are representable in storage units',
               key=f"{q} answers without a primitive")
    floor(ctx, 'returns of the transfer dispatchers', n, 2)

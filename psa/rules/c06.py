"""C06 - Unit conversions follow molar mass, density and specific activity.
Units abstract interpretation of the conversion table (engine U): every cell, the wrappers, the storage pair, the
substance factories and the prefix table."""
from __future__ import annotations

import ast

from ..flow import Param, strip_refs, show
from ..model import AnalysisError
from ..unitai import Subst, Num, Lit, S, Obj, NONE, KINDS, UserStr, Other, explore, Incomplete
from ..units import base, sym, mL
from .common import gate_with, const_value, floor
from . import unitspec


def run(ctx):
    from .configtime import derived_values as _derived
    _derived(ctx, 'C06.R1', ('Unit', 'Substance'))
    from .configtime import no_identity_test_against_literals as _no_is_literal
    _no_is_literal(ctx, 'C06.R1', classes=('Unit', 'Substance'))
    from .configtime import config_file_precedence as _cfgfile
    _cfgfile(ctx, 'C06.R4')
    from .configtime import late_binding_closures as _late
    _late(ctx, 'C06.R1', classes=('Unit', 'Substance'))
    from .configtime import config_at_call_time
    config_at_call_time(ctx, 'C06.R4', classes=('Unit', 'Substance'))
    n = unitspec.convert_from_cells(ctx, 'C06.R1')
    floor(ctx, 'conversion cells', n, 48)
    unitspec.wrappers(ctx, 'C06.R3')
    unitspec.parse_quantity_forms(ctx, 'C06.R3')      # Unit.convert reads its quantity through parse_quantity
    unitspec.storage_pair(ctx, 'C06.R3', 'C06.R3')
    factories(ctx)
    unitspec.prefix_table(ctx, 'C06.R5')
    unitspec.memoisation_discipline(ctx, 'C06.R1')
    return {'explanation': 'Abstract interpretation of Unit.convert_from over scaled units of measure: each of the '
                           '3 kinds x 4 x 4 cells is run with a symbolic amount and symbolic SI prefixes on both '
                           'sides; a cell must return a value in exactly <to-prefix>*<to-unit> (this fixes the factor: '
                           'the units of molar mass g/mol, density g/mL | U/mL and specific activity U/g are linearly '
                           'independent, so a monomial in them is determined by its unit), the literal 0 in the cells '
                           'the property names, or ValueError for a non-enzyme measured in U. Linearity, composition '
                           'and round-trip follow from every cell being a monomial with the right unit. Also: '
                           'Unit.convert and the storage pair as wrappers, the units the Substance factories store, '
                           'the SI prefix table. Not decided: IEEE rounding of the products.',
            'exhaustive': True, 'coverage': {'cells': n}}


def factories(ctx):
    """C06.R4: molar mass, density and specific activity are stored in the units the conversion table assumes;
    positivity gates."""
    model = ctx.model
    want = {'solid': {'mol_weight': base('g') / base('mol'), 'density': base('g') / mL},
            'liquid': {'mol_weight': base('g') / base('mol'), 'density': base('g') / mL,
                       'concentration': base('mol') / mL},
            'enzyme': {'density': base('U') / mL, 'specific_activity': base('U') / base('g')}}
    for kind in KINDS:
        q = f"Substance.{kind}"
        fi = model.func(q)
        ctx.functions_analysed.add(q)

        def mk(I, kind=kind):
            env = {'name': Other('name'), 'molecule': NONE}
            if kind in ('solid', 'liquid'):
                env['mol_weight'] = Num(base('g') / base('mol'))
            if kind == 'liquid':
                env['density'] = Num(base('g') / mL)
            if kind == 'enzyme':
                env['specific_activity'] = UserStr('specific_activity')
            return env
        try:
            R = explore(model, fi, mk)
        except Incomplete as exc:
            raise AnalysisError(f"UnitAI cannot interpret {q}: {exc}") from exc
        ctx.count('unitai_paths', R.paths)
        problems = []
        nret = 0
        for k, v, line, it in R.outcomes:
            if k != 'return':
                continue
            nret += 1
            if not isinstance(v, Obj):
                if isinstance(v, Other):
                    # the returned object went through something the engine does not model: no verdict
                    raise AnalysisError(f"UnitAI cannot interpret {q}: the factory returns an uninterpreted value {v!r}")
                problems.append(f"returns {v!r}")
                continue
            for attr, u in want[kind].items():
                got = v.attrs.get(attr)
                if not (isinstance(got, Num) and it.bound_unit(got.unit).same(u)):
                    problems.append(f"{attr} is stored as {got!r}, the conversion table assumes {u}")
        if nret == 0:
            problems.append('the factory never returns')
        problems += [f"{cat} line {line}: {msg}" for (line, cat, msg) in R.flags]
        ctx.ob('C06.R4', fi, fi.node.lineno, f"{q} stores its attributes in the assumed units", not problems,
               fact=f"{R.paths} paths, {nret} returning; {sorted(want[kind])}", why='; '.join(sorted(set(problems))[:3]),
               key=f"factory units {kind}")
        if kind == 'enzyme':
            # only U/g and g/U are accepted
            bad = [o for o in R.outcomes if o[0] == 'raise' and o[1] not in ('ValueError', 'TypeError')]
            ctx.ob('C06.R4', fi, fi.node.lineno, 'Substance.enzyme rejects other specific-activity units with ValueError',
                   not bad and any(o[0] == 'raise' and o[1] == 'ValueError' for o in R.outcomes),
                   fact=f"{sum(1 for o in R.outcomes if o[0] == 'raise')} rejecting paths",
                   why='a specific activity that is not U/g or g/U is accepted', key='enzyme activity units')
    # positivity gates (flow engine)
    for q, params in (('Substance.solid', ['mol_weight']), ('Substance.liquid', ['mol_weight', 'density'])):
        fi = model.func(q)
        ff = ctx.flow(q)
        for p in params:
            ok = True
            for ex in ff.normal_exits():
                def positive(c, p=p):
                    return c.op == 'lt' and const_value(c.left) == 0 and isinstance(strip_refs(c.right), Param) and \
                        strip_refs(c.right).name == p
                if not gate_with(ex.state, positive, 'ValueError'):
                    ok = False
            ctx.ob('C06.R4', fi, fi.node.lineno, f"{q}: {p} must be positive", ok,
                   fact='gate `not p > 0 -> ValueError` holds at every return' if ok else 'no such gate',
                   why=f"a zero or negative {p} is accepted (conversions then divide by zero or change sign)",
                   key=f"positivity gate {p}")

"""A refused declaration leaves the recipe as it was.

In the declaring / step-adding methods of Recipe every explicit refusal (`raise`) comes before the first change of the
recipe's own state (`self.results`, `self.steps`, `self.used`, `self.stages`, `self.current_stage*`, a call of
`self.uses`).  Otherwise a call that raises has already declared a name, opened a stage or moved a stage boundary:
the corrected retry is refused ("already in use"), bake refuses an object "declared but not used", a stage slice no
longer covers the steps recorded in it.  Decided per path (if / else arms are alternatives; a loop body is looked at
once: refusing the second element of a list after the first was taken is the documented behaviour of `uses`).
Implicit exceptions of called code are not covered."""
from __future__ import annotations

import ast

from ..model import unparse

MUTATORS = {'append', 'add', 'update', 'pop', 'remove', 'clear', 'extend', 'insert', 'setdefault', 'discard', 'popitem'}
SELF_MUTATING_METHODS = {'uses'}


def _rooted_at_self(t):
    while isinstance(t, (ast.Attribute, ast.Subscript)):
        t = t.value
    return isinstance(t, ast.Name) and t.id == 'self'


def _mutation(st):
    """Line of the first change of the recipe's state made by statement `st` (not looking into nested blocks)."""
    if isinstance(st, (ast.Assign, ast.AnnAssign, ast.AugAssign)):
        tg = st.targets if isinstance(st, ast.Assign) else [st.target]
        flat = []
        for t in tg:
            flat.extend(t.elts if isinstance(t, (ast.Tuple, ast.List)) else [t])
        if any(isinstance(t, (ast.Attribute, ast.Subscript)) and _rooted_at_self(t) for t in flat):
            return st.lineno
    for c in ast.walk(st):
        if isinstance(c, ast.Call) and isinstance(c.func, ast.Attribute):
            if c.func.attr in MUTATORS and isinstance(c.func.value, (ast.Attribute, ast.Subscript)) and _rooted_at_self(c.func.value):
                return c.lineno
            if c.func.attr in SELF_MUTATING_METHODS and isinstance(c.func.value, ast.Name) and c.func.value.id == 'self':
                return c.lineno
    return None


def _walk(stmts, states, offenders):
    """states: set of (first mutation line | None) possible on entry; returns the set on fall-through."""
    for st in stmts:
        if not states:
            return states
        if isinstance(st, ast.If):
            a = _walk(st.body, set(states), offenders)
            b = _walk(st.orelse, set(states), offenders)
            states = a | b
        elif isinstance(st, (ast.For, ast.While)):
            inner = _walk(st.body, set(states), offenders)
            states = states | inner | _walk(st.orelse, set(states) | inner, offenders)
        elif isinstance(st, ast.With):
            states = _walk(st.body, states, offenders)
        elif isinstance(st, ast.Try):
            a = _walk(st.body, set(states), offenders)
            for h in st.handlers:
                a |= _walk(h.body, set(states) | a, offenders)
            states = _walk(st.finalbody, _walk(st.orelse, a, offenders), offenders)
        elif isinstance(st, ast.Raise):
            for m in states:
                if m is not None:
                    offenders.append((st.lineno, m))
            return set()
        elif isinstance(st, (ast.Return, ast.Continue, ast.Break)):
            return set()
        elif isinstance(st, (ast.FunctionDef, ast.ClassDef)):
            continue
        else:
            m = _mutation(st)
            if m is not None:
                states = {s if s is not None else m for s in states}
    return states


def validate_before_mutate(ctx, rule, qualnames):
    model = ctx.model
    n = 0
    for q in qualnames:
        fi = model.func(q)
        offenders = []
        _walk(fi.node.body, {None}, offenders)
        n += 1
        ctx.ob(rule, fi, offenders[0][0] if offenders else fi.node.lineno,
               f"{q}: every refusal comes before the first change of the recipe", not offenders,
               fact=(f"raise at line {offenders[0][0]} after the change at line {offenders[0][1]}" if offenders
                     else 'no raise after a change of self'),
               why='a call that is refused has already changed the recipe (a name declared, a stage bound moved): the '
                   'corrected retry or the bake then fails, or a stage no longer covers its steps',
               key=f"refusal after mutation in {q.split('.')[-1]}")
    ctx.count('declaring_methods_checked', n)
    return n

"""C14 - Quantity and concentration strings mean what SI says.
SI table + prefix-strip + direction typing (engine U over the parsing functions with template strings)."""
from __future__ import annotations

import ast

from ..model import AnalysisError, unparse, walk_no_nested
from ..units import SI
from .common import floor
from . import unitspec, targets
from .. import uscan


def run(ctx):
    from .configtime import derived_values as _derived
    _derived(ctx, 'C14.R3', ('Unit', 'Substance', 'Container'))
    # the parsers are memoised: what they hand out (token lists, tuples) is shared by every later call with the same text
    from .c10 import cached_results_intact as _cached_intact
    _cached_intact(ctx, 'C14.R3')
    from .configtime import cached_arrays_not_updated_in_place as _cached_arrays
    _cached_arrays(ctx, 'C14.R4', ('Container.create_solution', 'Container.create_solution_from'))
    from .configtime import quantities_parsed_by_unit_only as _one_grammar
    _one_grammar(ctx, 'C14.R3', ('Recipe.transfer', 'Recipe.create_container', 'Recipe.create_solution', 'Recipe.create_solution_from',
                                 'Recipe.dilute', 'Recipe.fill_to', 'Container.transfer', 'Plate.transfer', 'Container.dilute',
                                 'Container.fill_to', 'PlateSlicer.fill_to'))
    model = ctx.model
    from .configtime import config_at_call_time
    config_at_call_time(ctx, 'C14.R3', classes=('Unit', 'Container'))
    table = unitspec.prefix_table(ctx, 'C14.R1')
    unitspec.memoisation_discipline(ctx, 'C14.R3')
    unitspec.parse_quantity_forms(ctx, 'C14.R3')
    n = unitspec.parse_concentration_forms(ctx, 'C14.R3', 'C14.R4')
    floor(ctx, 'concentration forms', n, 30)

    # ---- R2 prefix-strip at every call site of the prefix function
    sites = []
    for fi in model.functions('pyplate/pyplate.py'):
        if fi.parent is not None:
            continue
        for c in ast.walk(fi.node):
            if isinstance(c, ast.Call) and isinstance(c.func, ast.Attribute) and \
                    c.func.attr == 'convert_prefix_to_multiplier':
                sites.append((fi, c))
    floor(ctx, 'convert_prefix_to_multiplier call sites', len(sites), 5)
    unitspec.storage_pair(ctx, 'C14.R2', 'C14.R2')
    evaluated = set()
    for q in sorted({fi.qualname for fi, c in sites}):
        if q in ('Unit.convert_to_storage', 'Unit.convert_from_storage', 'Recipe.bake'):
            continue
        sc = scan_unit_function(ctx, q)
        if sc is None:
            continue
        for (line, cat), cnt in sc.sinks.items():
            if cat == 'prefix-strip':
                evaluated.add((q, line))
        uscan.report_sinks(ctx, lambda cat: 'C14.R2' if cat == 'prefix-strip' else None, sc)
    ctx.count('prefix_sites_total', len(sites))
    ctx.count('prefix_sites_interpreted', len(evaluated) + 4)

    # ---- R5 unambiguous suffix matching
    for q in ('Unit.parse_quantity', 'Unit.parse_concentration', 'Unit.convert_from'):
        fi = model.func(q)
        lists = [(n_, vals) for n_, vals in _string_sequences(model, fi) if len(set(vals) & {'mol', 'g', 'L'}) >= 2]
        if not lists:
            raise AnalysisError(f"{q}: candidate list of base units not found")
        for node, vals in lists:
            clash = None
            for a in vals:
                for b in vals:
                    if a == b:
                        continue
                    for p in table:
                        if (p + a).endswith(b):
                            clash = (p + a, b)
            ctx.ob('C14.R5', fi, node.lineno, f"suffix candidates {vals} are unambiguous for every prefix",
                   clash is None, fact=f"{len(vals)} candidates x {len(table)} prefixes",
                   why=f"{clash[0]!r} also ends with {clash[1]!r}: the first match wins" if clash else '',
                   key=f"ambiguous suffix candidates {vals}")
    # every base parse_quantity can return (except the concentration unit M) is a unit convert_from handles
    pq = model.func('Unit.parse_quantity')
    cf = model.func('Unit.convert_from')

    def str_lists(fi):
        out = set()
        for n_, vals in _string_sequences(model, fi):
            if len(set(vals) & {'mol', 'g', 'L'}) >= 2:
                out |= set(vals)
        return out
    returned = (str_lists(pq) | {'U'}) - {'M'}
    handled = str_lists(cf)
    ctx.ob('C14.R5', pq, pq.node.lineno, 'every amount unit parse_quantity returns is handled by convert_from',
           returned <= handled, fact=f"returned {sorted(returned)}, handled {sorted(handled)}",
           why=f"units {sorted(returned - handled)} parse but cannot be converted", key='parsed unit not convertible',
           nontrivial=False)

    # ---- R4 (read back): get_concentration interprets its unit argument through the same parser and by definition
    from . import c10
    before = len(ctx.obs)
    c10.observers(ctx)
    kept = [o for o in ctx.obs[before:] if o.func == 'Container.get_concentration']
    for o in kept:
        o.rule = 'C14.R4'
    ctx.obs[before:] = kept
    # ---- R4 (consumers): the parsed value is a number in the base units of the spelling used; wherever a consumer
    # compares or adds it, the other operand must be in those same units for every spelling
    consumers(ctx, 'C14.R4')
    # the specific activity of an enzyme means the same written as 'U/g' or as 'g/U' (factory typing of C06), and a
    # quantity in moles is measured against the moles of the source (the measure table of the transfer)
    from . import c06 as _c06
    before_ = len(ctx.obs)
    _c06.factories(ctx)
    for o_ in ctx.obs[before_:]:
        o_.rule = 'C14.R4'
    from .c02 import transfer_measures as _tm
    _tm(ctx, 'C14.R2', units=False)
    # ---- R6 a parsed quantity whose unit is discarded must not be relabelled
    for q in ('Container.__init__', 'Plate.__init__'):
        sc = scan_ctor(ctx, q)
        uscan.report_sinks(ctx, lambda cat: 'C14.R6' if cat in ('to-storage', 'to-storage-dim', 'capacity-unit', 'qstr', 'storage-label') else None, sc)

    return {'explanation': 'The parsing functions are interpreted over template strings (known characters, symbolic SI '
                           'prefixes, numeric tokens that know the unit the written number is expressed in): '
                           'parse_quantity must return the value in the matched base unit for every base and symbolic '
                           'prefix; parse_concentration must return the same ratio in base units for every spelling '
                           "(M, m, all numerator/denominator pairs with and without a denominator value, the three "
                           'percent forms); malformed strings must raise ValueError; the prefix table must equal the SI '
                           'table; every argument of convert_prefix_to_multiplier must be a suffix-strip of a unit '
                           'string; suffix candidate lists must be unambiguous; a capacity string must not have its '
                           'unit discarded. Not decided: arbitrary malformed input beyond the listed shapes.',
            'exhaustive': False}


def consumers(ctx, rule):
    """Statements of the consumers of parse_concentration that read one of its results: additions, subtractions and
    comparisons there must be unit-consistent for every numerator / denominator pair (engine U)."""
    from . import c12, targets
    model = ctx.model
    n = 0
    for q, mk in (('Container.create_solution_from', lambda: c12._without_enzyme_solute(ctx, None)),
                  ('Container.dilute', lambda: targets.scan(ctx, 'Container.dilute'))):
        fi = model.func(q)
        names = set()
        for st in ast.walk(fi.node):
            if isinstance(st, ast.Assign) and isinstance(st.value, ast.Call) and \
                    isinstance(st.value.func, ast.Attribute) and st.value.func.attr == 'parse_concentration':
                for t in st.targets:
                    names |= {x.id for x in ast.walk(t) if isinstance(x, ast.Name)}
        if not names:
            continue        # the consumer hands the string on (to calculate_concentration_ratio, checked as a cell table)
        lines = set()
        for st in ast.walk(fi.node):
            if isinstance(st, ast.stmt) and not isinstance(st, (ast.FunctionDef, ast.If, ast.For, ast.While, ast.With, ast.Try)):
                if any(isinstance(x, ast.Name) and x.id in names and isinstance(x.ctx, ast.Load) for x in ast.walk(st)):
                    lines |= set(range(st.lineno, (st.end_lineno or st.lineno) + 1))
            elif isinstance(st, (ast.If, ast.While)):
                if any(isinstance(x, ast.Name) and x.id in names for x in ast.walk(st.test)):
                    lines |= set(range(st.test.lineno, (st.test.end_lineno or st.test.lineno) + 1))
        n += uscan.report_sinks(ctx, lambda cat: rule if cat in ('add-units', 'compare-units') else None, mk(),
                                line_filter=lambda ln, lines=lines: ln in lines)
    ctx.count('consumer_sites_of_parsed_concentration', n)


def _literal_strings(n_):
    if isinstance(n_, (ast.List, ast.Tuple, ast.Set)) and n_.elts and \
            all(isinstance(e, ast.Constant) and isinstance(e.value, str) for e in n_.elts):
        return [e.value for e in n_.elts]
    return None


def _string_sequences(model, fi, depth=1):
    """Literal sequences of strings a function works with: written in its body, bound to a module- or class-level
    constant it names, or written in a repo function it calls (one level: an extracted search helper)."""
    out, seen = [], set()

    def add(node, vals):
        if id(node) not in seen:
            seen.add(id(node))
            out.append((node, vals))
    consts = {}
    for n_ in fi.mod.tree.body + (fi.cls.node.body if fi.cls is not None else []):
        if isinstance(n_, ast.Assign) and len(n_.targets) == 1 and isinstance(n_.targets[0], ast.Name):
            vals = _literal_strings(n_.value)
            if vals:
                consts[n_.targets[0].id] = (n_.value, vals)
    for n_ in walk_no_nested(fi.node):
        vals = _literal_strings(n_)
        if vals:
            add(n_, vals)
        name = n_.id if isinstance(n_, ast.Name) else n_.attr if isinstance(n_, ast.Attribute) else None
        if name in consts and isinstance(getattr(n_, 'ctx', None), ast.Load):
            add(*consts[name])
        if depth and isinstance(n_, ast.Call):
            f = n_.func
            callee = None
            if isinstance(f, ast.Attribute) and isinstance(f.value, ast.Name):
                if f.value.id in model.classes:
                    callee = model.lookup_method(f.value.id, f.attr)
                elif f.value.id in ('self', 'cls') and fi.cls is not None:
                    callee = model.lookup_method(fi.cls.name, f.attr)
            elif isinstance(f, ast.Name):
                callee = model.funcs.get(f.id)
            if callee is not None and callee is not fi:
                for node, vals in _string_sequences(model, callee, depth - 1):
                    add(node, vals)
    return out


def scan_unit_function(ctx, q):
    """Scans of the Unit-level callers of the prefix function with inputs of their documented shape."""
    from ..tstr import TStr, user_unit
    from ..unitai import S, Num, Subst, Cont, explore, Incomplete, KINDS
    from ..units import sym, base, AMT, PVS_L
    model = ctx.model
    sc = uscan.Scan(q)
    fi = model.func(q)
    envs = []
    if q == 'Unit.parse_quantity':
        for b in ('L', 'g', 'mol', 'M'):
            envs.append(lambda I, b=b: {'quantity': S(TStr([('num', 'v', Num(sym('P') * base(b))), ('lit', ' '),
                                                            ('pre', 'P'), ('lit', b)]))})
    elif q == 'Unit.parse_concentration':
        wv = unitspec.yaml_value(model, 'default_weight_volume_units') or 'g/mL'
        for name, toks, want, bn, bd, what in unitspec.concentration_forms(wv):
            envs.append(lambda I, toks=toks: {'concentration': S(TStr(toks))})
    elif q == 'Unit.convert_from':
        for kind in KINDS:
            for bf in ('U', 'L', 'g', 'mol'):
                for bt in ('U', 'L', 'g', 'mol'):
                    envs.append(lambda I, kind=kind, bf=bf, bt=bt: {
                        'substance': Subst(kind, 's'), 'quantity': Num(sym('Pf') * base(bf)),
                        'from_unit': S(user_unit('Pf', bf)), 'to_unit': S(user_unit('Pt', bt))})
    elif q == 'Unit.convert_from_storage_to_standard_format':
        for what, unit in ((Subst('solid', 's'), AMT('solid')), (Subst('liquid', 's'), AMT('liquid')),
                           (Subst('enzyme', 's'), AMT('enzyme')), (Cont('c'), PVS_L)):
            envs.append(lambda I, what=what, unit=unit: {'what': what, 'quantity': Num(unit)})
    else:
        return None
    try:
        for mk in envs:
            sc.add('', explore(model, fi, mk))
    except Incomplete as exc:
        sc.incomplete = str(exc)
    return sc


def scan_ctor(ctx, q):
    from ..unitai import UserStr, NONE, Other, Obj, Cont, explore, Incomplete
    model = ctx.model
    fi = model.func(q)
    sc = uscan.Scan(q)
    names = fi.all_param_names()
    capname = [p for p in names if 'max_volume' in p]
    if not capname:
        raise AnalysisError(f"{q}: capacity parameter not found")

    def mk(I):
        env = {p: Other('arg:' + p) for p in names}
        env[names[0]] = Cont('self') if q.startswith('Container') else Obj('Plate')
        env[capname[0]] = UserStr(capname[0])
        for p in names:
            if p == 'initial_contents':
                env[p] = NONE
            if p in ('rows', 'columns'):
                env[p] = Other('isa:int')
        return env
    try:
        sc.add('', explore(model, fi, mk, {'strict_other': False}))
    except Incomplete as exc:
        sc.incomplete = str(exc)
    return sc

"""C03 - Impossible states are never produced; infeasible requests are refused.
Gate dominance with normalised conditions (engines F, D).

R1 capacity gates (presence, strictness, same object, rounded operands); R2 sufficiency gate per unit branch of the
transfer; R3 sign gates on user-given amounts; R4 solver post-conditions; R5 refusal type; R6 bake goes through the
same operations."""
from __future__ import annotations

import ast

from ..dep import signed_leaves, depends_on
from ..flow import (Ref, Param, LoopVar, Elt, Phi, Acc, Sym, deep_walk, strip_refs, show, facts_at, same_value, unround, definitions_of,
                    is_rounded, normalise_fact, root_of, pathkey)
from ..model import AnalysisError, walk_no_nested, unparse
from .common import (root_of_expr, path_from_param, dominates, const_value, gate_with, floor, line_of, call_name,
                     is_call_to)


def attr_root(e):
    """Root object identity of `X.attr`: the resolved node X."""
    e = strip_refs(e) if not isinstance(e, ast.Attribute) else e
    if isinstance(e, ast.Attribute):
        return e.value
    return None


def same_object(a, b):
    if a is b:
        return True
    if isinstance(a, Ref) and isinstance(b, Ref):
        return a.defid == b.defid
    if isinstance(a, Param) and isinstance(b, Param):
        return a.name == b.name
    return False


def is_attr(e, attr):
    return isinstance(e, ast.Attribute) and e.attr == attr


def user_derived(e):
    """Depends on a str-typed parameter (a user quantity) through parsing/conversion."""
    return depends_on(e, lambda n: isinstance(n, Param) and n.name != 'self' and n.func is not None and
                      (n.func.annotation(n.name) or '') in ('str', "'str'"))


def zero(e):
    v = const_value(e)
    return v is not None and not isinstance(v, (str, bool)) and v == 0


def contents_stores(ff):
    """(stmt, object-root resolved node, root key, value, whole_dict?) for stores to X.contents / X.contents[k]."""
    out = []
    for stmt, target, key, value, before, rt in ff.stores:
        t = rt
        whole = False
        if isinstance(t, ast.Subscript) and is_attr(t.value, 'contents'):
            obj = t.value.value
        elif is_attr(t, 'contents'):
            obj = t.value
            whole = True
        else:
            continue
        out.append((stmt, obj, pathkey(target.value.value if not whole else target.value), value, whole, rt, before))
    return out


def is_old_entry(leaf, rt):
    """Is `leaf` the value the entry written by the store target `rt` (X.contents[k]) held before?  Forms:
    X.contents[k], X.contents.get(k, 0), and the value variable of the loop `for k, v in X.contents.items()`."""
    l = strip_refs(leaf)
    if not (isinstance(rt, ast.Subscript) and is_attr(rt.value, 'contents')):
        return False
    if isinstance(l, ast.Call) and isinstance(l.func, ast.Attribute) and l.func.attr == 'get' and \
            is_attr(l.func.value, 'contents') and same_object(l.func.value.value, rt.value.value):
        return same_value(l.args[0], rt.slice) and const_value(l.args[1]) == 0 if len(l.args) == 2 else False
    if isinstance(l, ast.Subscript) and is_attr(l.value, 'contents') and same_object(l.value.value, rt.value.value):
        return same_value(l.slice, rt.slice)
    if isinstance(l, LoopVar) and l.path == (1,):
        it = strip_refs(l.iter)
        k = strip_refs(rt.slice)
        return is_items_of_contents(it) and same_object(it.func.value.value, rt.value.value) and \
            isinstance(k, LoopVar) and k.loop is l.loop and k.path == (0,)
    return False


def strip_zero_norm(value):
    """`v = x; if v == -0.0: v = 0.0` makes v a Phi(x, 0.0): the constant arm only normalises a (negative) zero when it
    is assigned under the test `v == 0`.  Returns x for such a Phi, the value itself otherwise."""
    v = value
    seen = 0
    while isinstance(v, Ref) and not isinstance(v.value, Phi) and seen < 20:
        v = v.value
        seen += 1
    phi = v.value if isinstance(v, Ref) else v
    if not isinstance(phi, Phi):
        return value
    consts = [o for o in phi.options if zero(o)]
    others = [o for o in phi.options if not zero(o)]
    if len(others) != 1 or not consts:
        return value
    for o in consts:
        st = getattr(o, 'stmt', None) if isinstance(o, Ref) else None
        par = getattr(st, 'parent', None)
        if not (isinstance(par, ast.If) and st in par.body and isinstance(par.test, ast.Compare) and
                len(par.test.ops) == 1 and isinstance(par.test.ops[0], ast.Eq)):
            return value
        sides = [par.test.left, par.test.comparators[0]]
        names = [x.id for x in sides if isinstance(x, ast.Name)]
        nums = [x for x in sides if zero(x) or (isinstance(x, ast.UnaryOp) and zero(x.operand))]
        if not (names == [o.name] and len(nums) == 1):
            return value
    return others[0]


def can_increase(value, rt, whole):
    """May this store put more of a substance into the container than it held?"""
    value = strip_zero_norm(value)
    if whole:
        v = strip_refs(value)
        if isinstance(v, ast.Dict) and not v.keys:
            return False
        if isinstance(v, ast.DictComp) and isinstance(strip_refs(v.value), LoopVar):
            return False            # a filter of existing entries with their values unchanged
        return True
    for sign, leaf in signed_leaves(value):
        if sign is None or sign < 0:
            continue
        l = strip_refs(leaf)
        if isinstance(l, ast.Constant):
            continue
        # the old value of the same container entry is not an increase
        if is_old_entry(leaf, rt):
            continue
        return True
    return False


def capacity_gates(ctx, rule, only=None):
    """Every object that can gain substance leaves its function only after `new volume > capacity -> ValueError`."""
    model = ctx.model
    cont = model.cls('Container')
    n_capacity = 0
    # ------------------------------------------------------------------ R1 capacity gates
    for m in list(cont.methods.values()):
        if m.name == '__init__' or (only is not None and m.name not in only):
            continue
        ff = ctx.flow(m.qualname)
        cs = contents_stores(ff)
        objs = {}
        for stmt, obj, okey, value, whole, rt, before in cs:
            if can_increase(value, rt, whole):
                objs.setdefault(okey, (obj, stmt))
        for okey, (obj, stmt) in objs.items():
            n_capacity += 1
            for ex in ff.normal_exits():
                final = ex.state.env.get(f"{okey}.volume")

                def cap_gate(c, obj=obj, final=final):
                    if c.op not in ('le', 'lt'):
                        return False
                    if not (is_attr(strip_refs(c.right), 'max_volume') and
                            same_object(strip_refs(c.right).value, obj)):
                        return False
                    if final is None:
                        return False
                    return c.left is final or same_value(unround(c.left)[0], unround(final)[0])
                g = gate_with(ex.state, cap_gate, 'ValueError')
                inst = f"capacity gate for `{okey}` on the exit at line {ex.line}"
                if not g:
                    ctx.ob(rule, m, ex.line, inst, False,
                           fact=f"final volume {show(final) if final is not None else 'not recomputed'}",
                           why=f"`{okey}` can gain substance and leave {m.name} without `new volume > {okey}.max_volume -> ValueError`",
                           key=f"no capacity gate for {okey}")
                    continue
                c = g[0]
                ctx.ob(rule, m, c.fact.line, inst, c.op == 'le', fact=str(c),
                       why='the gate refuses an exact fill (raises when new volume >= capacity)',
                       key=f"non-strict capacity gate for {okey}")
    return n_capacity


def sufficiency(ctx, rule):
    """Every unit branch of the transfer is gated by requested <= available (ValueError), measured alike."""
    model = ctx.model
    # ------------------------------------------------------------------ R2 sufficiency per unit branch
    tr = model.func('Container._transfer')
    fft = ctx.flow('Container._transfer')
    ratio = find_ratio(fft)
    if ratio is None:
        raise AnalysisError('Container._transfer: cannot find the per-substance factor `amount * ratio`')
    ratio_val, loop = ratio
    ratio_val = strip_clamp(ratio_val)
    options = [o for o in definitions_of(ratio_val) if isinstance(o, Ref)]
    ctx.ob(rule, tr, tr.node.lineno, 'transfer has a branch per quantity unit (L, g, mol, U)', len(options) >= 4,
           fact=f"{len(options)} definitions of the transfer ratio", why='a quantity unit lost its branch',
           key='unit branch missing', nontrivial=False)
    loop_state = fft.state_before(loop)

    def ratio_le_one(c):
        return c.op == 'le' and (c.left is ratio_val or unround(c.left)[0] is ratio_val) and const_value(c.right) == 1
    global_gate = gate_with(loop_state, ratio_le_one, 'ValueError')
    for o in options:
        v = strip_refs(o)
        unit_lbl = branch_label(fft.state_before(o.stmt))
        ok = bool(global_gate)
        fact = 'gate on the ratio itself' if ok else ''
        if not ok and isinstance(v, ast.BinOp) and isinstance(v.op, ast.Div):
            num, den = v.left, v.right

            def enough(c, num=num, den=den):
                return c.op == 'le' and (c.left is num or same_value(unround(c.left)[0], unround(num)[0])) and \
                    (c.right is den or same_value(unround(c.right)[0], unround(den)[0]))
            g = gate_with(fft.state_before(o.stmt), enough, 'ValueError')
            ok = bool(g)
            fact = str(g[0]) if g else f"ratio = {show(v, 80)} with no `requested > available -> ValueError` gate"
        ctx.ob(rule, tr, o.lineno, f"sufficiency gate on the `{unit_lbl}` branch of the transfer", ok, fact=fact,
               why=f"a transfer in {unit_lbl} can take more than the source holds (ratio > 1 gives negative amounts)",
               key=f"no sufficiency gate on unit branch {unit_lbl}")

    # requested and available are measured alike (units engine): otherwise the gate compares apples with pears
    from . import targets
    from .. import uscan
    sc = targets.scan(ctx, 'Container._transfer')
    uscan.report_sinks(ctx, lambda cat: rule if cat in ('sum-mix', 'convert-from-unit', 'add-units', 'compare-units',
                                                            'to-storage', 'storage-label', 'round-then-scale') else None, sc)

    ctx.count('ratio_branches', len(options))
    return tr, fft, ratio_val, loop, loop_state


def rounded_capacity_compare(ctx, rule, orientation=True):
    """Every ordering comparison against a capacity is made on a value rounded to the internal precision (an exact fit
    must not be decided by the representation error of the sum, which differs between storage units)."""
    model = ctx.model
    n_cmp = 0
    for m in model.functions('pyplate/pyplate.py'):
        if m.parent is not None:
            continue
        src = unparse(m.node, 100000)
        if 'max_volume' not in src:
            continue
        ff = ctx.flow(m.qualname)
        seen = set()
        for ex in ff.exits:
            for f in ex.state.facts.values():
                if id(f) in seen:
                    continue
                seen.add(id(f))
                if f.exc is None:
                    continue            # only the continuing side of a refusing branch is a gate
                for c in normalise_fact(f):
                    if c.op not in ('le', 'lt') or c.right is None:
                        continue
                    sides = [c.left, c.right]
                    capside = [s for s in sides if is_attr(strip_refs(s), 'max_volume') or
                               is_attr(strip_refs(s), 'max_volume_per_well')]
                    if not capside:
                        continue
                    other = sides[1] if capside[0] is sides[0] else sides[0]
                    if zero(other) or const_value(other) is not None:
                        continue
                    n_cmp += 1
                    ok = is_rounded(other)
                    ctx.ob(rule, m, f.line, f"rounded-compare: `{show(other, 60)}` against a capacity", ok,
                           fact=f"operand {'is' if ok else 'is not'} rounded to internal precision",
                           why='an unrounded floating-point sum is compared with a rounded capacity: exact fits are '
                               'refused by representation error', key='capacity compare on unrounded sum')
                    if not orientation:
                        continue
                    # orientation: raising side must be "value > capacity"
                    raising_when_over = (capside[0] is c.right)
                    ctx.ob(rule, m, f.line, f"capacity comparison refuses only above the capacity",
                           raising_when_over and c.op == 'le' and (f.exc or '') == 'ValueError', fact=str(c),
                           why='capacity test has the wrong orientation, strictness or exception type',
                           key='capacity compare orientation')
    return n_cmp


def rounded_stock_compare(ctx, rule):
    """Every refusing ordering comparison against the stored volume of a container ("not enough left") is made on a value
    rounded to the internal precision: the stored volume is rounded, an unrounded product (n * q) differs from it by
    representation error in some storage units and not in others."""
    model = ctx.model
    n_cmp = 0
    for m in model.functions('pyplate/pyplate.py'):
        if m.parent is not None or '.volume' not in unparse(m.node, 100000):
            continue
        ff = None
        for st in ast.walk(m.node):
            if not (isinstance(st, ast.If) and any(isinstance(b_, ast.Raise) for b_ in st.body)):
                continue
            tests = st.test.values if isinstance(st.test, ast.BoolOp) else [st.test]
            for t in tests:
                if not (isinstance(t, ast.Compare) and len(t.ops) == 1 and isinstance(t.ops[0], (ast.Lt, ast.LtE, ast.Gt, ast.GtE))):
                    continue
                sides = [t.left, t.comparators[0]]
                ff = ff or ctx.flow(m.qualname)
                if not ff.reachable(st):
                    continue
                # the same test written as a difference against zero: `round(needed - stored, p) > 0`
                zero_side = [i for i, x in enumerate(sides) if isinstance(x, ast.Constant) and x.value == 0]
                if len(zero_side) == 1:
                    d = sides[1 - zero_side[0]]
                    rounded_diff = isinstance(d, ast.Call) and isinstance(d.func, ast.Name) and d.func.id == 'round' and d.args
                    inner = d.args[0] if rounded_diff else d
                    if isinstance(inner, ast.BinOp) and isinstance(inner.op, ast.Sub):
                        rs = [ff.resolve(x, ff.state_before(st)) for x in (inner.left, inner.right)]
                        if any(isinstance(strip_refs(r), ast.Attribute) and strip_refs(r).attr == 'volume' for r in rs):
                            n_cmp += 1
                            ok = bool(rounded_diff) and is_rounded(ff.resolve(d, ff.state_before(st)))
                            ctx.ob(rule, m, st.lineno, f"rounded-compare: `{unparse(d, 60)}` against zero", ok,
                                   fact=f"the difference {'is' if ok else 'is not'} rounded to internal precision",
                                   why='an unrounded difference from the rounded stored volume: a stock used up exactly is refused '
                                       'under some storage units and accepted under others', key='stock compare on unrounded value')
                            continue
                # the stored volume itself or a local name bound to it (`available = source.volume`)
                resolved = [ff.resolve(x, ff.state_before(st)) for x in sides]
                volside = [i for i, (x, r) in enumerate(zip(sides, resolved))
                           if (isinstance(x, ast.Attribute) and x.attr == 'volume') or
                           (isinstance(x, ast.Name) and isinstance(strip_refs(r), ast.Attribute) and strip_refs(r).attr == 'volume')]
                if len(volside) != 1:
                    continue
                other = sides[1 - volside[0]]
                if isinstance(other, ast.Constant) or (isinstance(other, ast.Attribute) and other.attr.startswith('max_volume')):
                    continue
                res = resolved[1 - volside[0]]
                n_cmp += 1
                ok = is_rounded(res)
                ctx.ob(rule, m, st.lineno, f"rounded-compare: `{unparse(other, 60)}` against the stored volume", ok,
                       fact=f"operand {'is' if ok else 'is not'} rounded to internal precision",
                       why='an unrounded floating-point value is compared with the rounded stored volume: a stock used '
                           'up exactly is refused under some storage units and accepted under others',
                       key='stock compare on unrounded value')
    ctx.count('stock_comparisons', n_cmp)
    floor(ctx, 'refusing comparisons against a stored volume', n_cmp, 1)
    return n_cmp


def run(ctx):
    from .configtime import refusals_not_swallowed as _no_swallow
    _no_swallow(ctx, 'C03.R5')
    from .configtime import derived_values as _derived
    _derived(ctx, 'C03.R1', ('Container', 'Plate', 'PlateSlicer', 'Slicer'))
    from .configtime import cached_arrays_not_updated_in_place as _cached_arrays3
    _cached_arrays3(ctx, 'C03.R1', ('Container.create_solution', 'Container.create_solution_from'))
    rounded_stock_compare(ctx, 'C03.R1')
    # whatever the plate-level transfers compute themselves (a fail-early total, a pre-check) is unit-consistent
    from . import targets as _targets
    from .. import uscan as _uscan2
    for q_ in ('Container._transfer_slice', 'PlateSlicer._transfer'):
        _uscan2.report_sinks(ctx, lambda cat: 'C03.R1' if cat in ('add-units', 'compare-units', 'to-storage', 'to-storage-dim',
                                                                  'storage-compare', 'storage-label', 'qstr', 'convert-from-unit',
                                                                  'truncating-division') else None, _targets.scan(ctx, q_))
    from .configtime import no_identity_test_against_literals as _no_is_literal
    _no_is_literal(ctx, 'C03.R5', classes=('Container', 'Plate', 'PlateSlicer', 'Unit'))
    from .configtime import refusals_not_rounded_for_display as _gate_digits
    _gate_digits(ctx, 'C03.R1', ('Container._self_add', 'Container._transfer', 'Container.fill_to', 'Container.dilute', 'Container.create_solution', 'Container.create_solution_from'))
    model = ctx.model
    from . import unitspec as _us
    _us.api_verified(ctx, 'C03.R2')
    cont = model.cls('Container')
    n_capacity = 0
    # ------------------------------------------------------------------ R1 capacity gates
    n_capacity = capacity_gates(ctx, 'C03.R1')
    floor(ctx, 'functions/objects that can gain volume', n_capacity, 2)
    n_cmp = rounded_capacity_compare(ctx, 'C03.R1')
    floor(ctx, 'capacity comparisons', n_cmp, 2)
    # the capacity a vessel is created with is the one the caller stated: the constructors hand the parsed value on
    # under the unit it is expressed in (engine U on Container.__init__ / Plate.__init__)
    from .c14 import scan_ctor
    for q_ in ('Container.__init__', 'Plate.__init__'):
        uscan_sc = scan_ctor(ctx, q_)
        from .. import uscan as _uscan
        _uscan.report_sinks(ctx, lambda cat: 'C03.R1' if cat in ('to-storage', 'to-storage-dim', 'capacity-unit', 'qstr',
                                                                 'storage-label') else None, uscan_sc)

    # ------------------------------------------------------------------ R2 sufficiency per unit branch
    tr, fft, ratio_val, loop, loop_state = sufficiency(ctx, 'C03.R2')

    # ------------------------------------------------------------------ R3 sign of requests
    def sign_gate_on(state, pred_value, strict_ok=True):
        def g(c):
            if c.op not in ('le', 'lt'):
                return False
            return zero(c.left) and pred_value(c.right)
        return gate_with(state, g, 'ValueError')

    # _transfer: the parsed user quantity must be non-negative before the per-substance loop
    g = sign_gate_on(loop_state, lambda v: user_derived(v) or v is ratio_val or unround(v)[0] is ratio_val)
    ctx.ob('C03.R3', tr, loop.lineno, 'sign gate on the transferred quantity', bool(g),
           fact=str(g[0]) if g else 'no `quantity < 0 -> ValueError` gate dominates the per-substance loop',
           why='a negative quantity moves material backwards (destination to source)',
           key='no sign gate on transfer quantity')
    # _self_add
    sa = model.func('Container._self_add')
    ffa = ctx.flow('Container._self_add')
    for ex in ffa.normal_exits():
        g = sign_gate_on(ex.state, user_derived)
        ctx.ob('C03.R3', sa, ex.line, 'sign gate on the added quantity', bool(g),
               fact=str(g[0]) if g else 'no `amount < 0 -> ValueError` gate',
               why='a negative quantity can be added (negative contents / volume)',
               key='no sign gate on added quantity')
    # .. and the gate is on the very amount that is stored (a gate on the volume alone lets a negative amount of a
    # substance that takes no volume through: solids / enzymes under an infinite default density)
    nst = 0
    for stmt, target, key, value, before, rt in ffa.stores:
        if not (key and key.startswith('self.contents[')):
            continue
        def terms(e):
            # the summands of the stored value, named intermediate sums (`new_amount = previous + amount`) opened up
            e = unround(e)[0]
            inner = e
            while isinstance(inner, Ref) and not isinstance(inner.value, Phi):
                inner = inner.value
            inner = unround(inner)[0] if not isinstance(inner, Ref) else inner
            if isinstance(inner, ast.BinOp) and isinstance(inner.op, ast.Add):
                return terms(inner.left) + terms(inner.right)
            return [e]
        added = [l for l in terms(value) if user_derived(l)]
        for leaf in added:
            nst += 1

            def same_amount(c, leaf=leaf):
                if c.op not in ('le', 'lt') or not zero(c.left):
                    return False
                r = unround(c.right)[0]
                cands = [r]
                r0 = r
                while isinstance(r0, Ref):
                    r0 = r0.value
                    cands.append(r0)
                if isinstance(r0, Phi):         # the gated value is the join of the branch definitions: each of them is gated
                    cands.extend(r0.options)
                return any(x is leaf or same_value(x, leaf) or
                           (isinstance(x, Ref) and isinstance(leaf, Ref) and x.defid == leaf.defid) for x in cands)
            g = gate_with(before, same_amount, 'ValueError')
            ctx.ob('C03.R3', sa, stmt.lineno, f"sign gate on the amount stored into `{key}`", bool(g),
                   fact=str(g[0]) if g else f"no `{show(leaf, 30)} < 0 -> ValueError` gate on the stored amount itself",
                   why='a negative amount of a substance that takes no volume passes a gate on the volume: the container holds a negative amount',
                   key='no sign gate on stored amount')
    floor(ctx, 'amounts stored by _self_add', nst, 1)
    # fill_to: target > 0 and required amount >= 0
    ft = model.func('Container.fill_to')
    fff = ctx.flow('Container.fill_to')
    adds = [(c, s, b) for c, s, b in fff.calls if is_call_to(c, '_add', '_self_add')]
    if not adds:
        raise AnalysisError('Container.fill_to no longer adds through _add')
    for c, s, b in adds:
        q = c.args[1] if len(c.args) > 1 else None
        qv = strip_refs(q)
        val = None
        if isinstance(qv, ast.JoinedStr):
            fv = [x for x in qv.values if isinstance(x, ast.FormattedValue)]
            val = fv[0].value if fv else None
        if val is None:
            raise AnalysisError('Container.fill_to: cannot identify the amount passed to _add')
        clamped = strip_clamp(val) is not val
        val = strip_clamp(val)

        def positive_target(cc):
            return cc.op == 'lt' and zero(cc.left) and user_derived(cc.right) and isinstance(strip_refs(cc.right), Elt)
        g1 = gate_with(b, positive_target, 'ValueError')
        ctx.ob('C03.R3', ft, s.lineno, 'fill_to: target quantity must be positive', bool(g1),
               fact=str(g1[0]) if g1 else 'no gate', why='a non-positive fill target is accepted',
               key='no positive-target gate')

        def nonneg_required(cc, val=val):
            r = unround(cc.right)[0]
            return cc.op in ('le', 'lt') and zero(cc.left) and (cc.right is val or r is val or same_value(r, val) or
                                                                same_value(r, unround(val)[0]))

        def nonneg_alt(cc, val=val):
            # equivalent: current <= target, where required = target - current
            vv = strip_refs(val)
            return cc.op in ('le', 'lt') and isinstance(vv, ast.BinOp) and isinstance(vv.op, ast.Sub) and \
                (cc.left is vv.right or same_value(cc.left, vv.right)) and (cc.right is vv.left or same_value(cc.right, vv.left))
        g2 = gate_with(b, nonneg_required, 'ValueError') or gate_with(b, nonneg_alt, 'ValueError')
        if g2:
            gate_rounded = any(unround(x)[1] for x in (g2[0].left, g2[0].right) if x is not None)
            ok_c = (not gate_rounded) or clamped
            ctx.ob('C03.R3', ft, s.lineno, 'fill_to: an amount admitted by the rounded gate cannot reach the add as a '
                                           'negative number', ok_c,
                   fact=('the gate compares the rounded amount; ' if gate_rounded else 'the gate compares the amount itself; ') +
                        ('the amount is clamped with max(.., 0)' if clamped else 'the amount is handed on as computed'),
                   why='a deficit within the internal precision (-1e-16) passes the rounded gate and is then refused by the '
                       'sign gate of the add: filling to exactly the present quantity raises ValueError',
                   key='rounded gate without clamp in fill_to')
        ctx.ob('C03.R3', ft, s.lineno, 'fill_to: required amount (target - current) must not be negative', bool(g2),
               fact=str(g2[0]) if g2 else f"amount added = {show(val, 60)}; no gate excludes a negative value",
               why='filling to less than is already present removes solvent instead of being refused',
               key='no gate on negative required amount')
    # create_solution_from: quantity > 0
    csf = model.func('Container.create_solution_from')
    ffc = ctx.flow('Container.create_solution_from')
    solves = [(c, s, b) for c, s, b in ffc.calls if unparse(c.func.orig if hasattr(c.func, 'orig') else c.func).endswith('linalg.solve')]
    if not solves:
        raise AnalysisError('create_solution_from: numpy.linalg.solve call not found')
    c, s, b = solves[0]

    def pos_quantity(cc):
        return cc.op == 'lt' and zero(cc.left) and user_derived(cc.right)
    g = gate_with(b, pos_quantity, 'ValueError')
    ctx.ob('C03.R3', csf, s.lineno, 'create_solution_from: requested quantity must be positive', bool(g),
           fact=str(g[0]) if g else 'no gate', why='a non-positive quantity reaches the solver',
           key='no positive-quantity gate')
    # capacities must be positive
    for qn, pname in (('Container.__init__', 'max_volume'), ('Plate.__init__', 'max_volume_per_well')):
        fi = model.func(qn)
        ffi = ctx.flow(qn)
        stores = [x for x in ffi.stores if x[2] == f"self.{pname}"]
        if not stores:
            raise AnalysisError(f"{qn}: store to self.{pname} not found")
        for stmt, target, key, value, before, rt in stores:
            def pos_cap(cc, value=value):
                if not (cc.op == 'lt' and zero(cc.left)):
                    return False
                # the gated value must be what is stored (through the storage conversion)
                return depends_on(value, lambda n, r=cc.right: n is r)
            g = gate_with(before, pos_cap, 'ValueError')
            ctx.ob('C03.R3', fi, stmt.lineno, f"{qn}: capacity must be positive", bool(g),
                   fact=str(g[0]) if g else 'no gate', why='a zero or negative capacity is accepted',
                   key='no positive-capacity gate')

    solver_postconditions(ctx, 'C03.R4')

    # the quantity already present that a fill target is compared with is the measure of the whole mixture in the
    # target's unit (a total that leaves a kind of substance out accepts targets below what is present)
    from .c02 import siblings as _siblings
    before_ = len(ctx.obs)
    _siblings(ctx)
    kept_ = [o for o in ctx.obs[before_:] if o.func == 'Container.fill_to']
    for o in kept_:
        o.rule = 'C03.R3'
    ctx.obs[before_:] = kept_
    # diluting a substance with itself, or a stock that lacks the solute, is refused (by value: an equal substance read
    # back from a container is the same substance)
    from .c12 import feasibility_gates
    feasibility_gates(ctx, 'C03.R4')
    # ------------------------------------------------------------------ R5 refusal type
    n_ref = 0
    for cname in ('Container', 'Plate'):
        for m in model.cls(cname).methods.values():
            ff = ctx.flow(m.qualname)
            for ex in ff.raise_exits():
                numeric = False
                for f in ex.state.facts.values():
                    for c in normalise_fact(f):
                        if c.op in ('lt', 'le') and f is last_fact(ex.state):
                            numeric = True
                if not numeric:
                    continue
                n_ref += 1
                ctx.ob('C03.R5', m, ex.line, f"refusal at line {ex.line} raises ValueError", ex.exc == 'ValueError',
                       fact=f"raises {ex.exc}", why='an infeasible request is refused with the wrong exception type',
                       key='refusal type', nontrivial=False)
    floor(ctx, 'feasibility raise sites', n_ref, 5)

    # ------------------------------------------------------------------ R6 bake goes through the operations
    bake = model.func('Recipe.bake')
    ffb = ctx.flow('Recipe.bake')
    raw_writes = [s for s in ffb.stores if any(isinstance(n, ast.Attribute) and n.attr in ('contents', 'volume', 'wells',
                                               'max_volume') for n in ast.walk(s[1]))]
    ctx.ob('C03.R6', bake, (raw_writes[0][0].lineno if raw_writes else bake.node.lineno),
           'bake never writes contents / volume / wells itself', not raw_writes,
           fact=f"{len(raw_writes)} raw writes", why='a recipe step bypasses the gated operations',
           key='bake writes container state')
    ops = [c for c, s, b in ffb.calls if is_call_to(c, 'transfer', 'create_solution', 'create_solution_from', 'remove',
                                                    'dilute', 'fill_to') or
           (isinstance(c.func, ast.Name) and c.func.id == 'Container')]
    floor(ctx, 'operation calls in bake', len(ops), 8)
    # plate / slice operations go through the gated container operations for every addressed well
    from .c07 import forwarding
    forwarding(ctx, 'C03.R6')
    # the gates of those operations decide on the object they are handed: a step refuses what the current state cannot
    # supply only if bake hands over the current state and not the object given at declaration
    from .c08 import current_operands
    current_operands(ctx, 'C03.R6')
    ctx.ob('C03.R6', bake, bake.node.lineno, 'bake performs its steps through the public operations', len(ops) >= 8,
           fact=f"{len(ops)} operation calls", nontrivial=False, key='bake operation calls')

    return {'explanation': 'Gate analysis: a branch condition whose other arm always raises is a must-hold fact on the '
                           'continuing paths (syntax-directed flow with symbolic resolution of operands, so renaming, '
                           'temporaries and flipped operands do not matter). Rules: every object that can gain substance '
                           'leaves its function only after `new volume > capacity -> ValueError` (strict, same object, '
                           'rounded operands); each unit branch of the transfer is gated by requested <= available; '
                           'user amounts are sign-gated; solver unknowns are gated positive/non-negative and the '
                           'residual test covers all rows; numeric refusals raise ValueError; bake only calls the gated '
                           'operations. Decides presence/shape/strictness of the gates, not their sufficiency for all '
                           'reachable floating-point states.',
            'coverage': {}}


def solver_postconditions(ctx, rule):
    """Positivity / non-negativity gates on the unknowns and the residual test over all rows (C03.R4, C05.R3, C12.R4)."""
    model = ctx.model
    csf = model.func('Container.create_solution_from')
    ffc = ctx.flow('Container.create_solution_from')
    # ------------------------------------------------------------------ R4 solver post-conditions
    # create_solution_from: both unknowns non-negative
    sol_ref = None
    for stmt in ast.walk(csf.node):
        if isinstance(stmt, ast.Assign) and isinstance(stmt.value, ast.Call) and unparse(stmt.value.func).endswith('linalg.solve'):
            sol_stmt = stmt
    unknowns = []
    post = ffc.post.get(id(sol_stmt))
    if post is None:
        raise AnalysisError('create_solution_from: solve statement unreachable')
    for t in ast.walk(sol_stmt.targets[0]):
        if isinstance(t, ast.Name):
            unknowns.append(post.env[t.id])
    uses = [(cc, ss, bb) for cc, ss, bb in ffc.calls if (is_call_to(cc, 'transfer') or
            (isinstance(cc.func, ast.Name) and cc.func.id == 'Container')) and getattr(ss, 'lineno', 0) > sol_stmt.lineno]
    if len(unknowns) != 2 or not uses:
        raise AnalysisError('create_solution_from: unknowns / result construction not found')
    for u in unknowns:
        ok = True
        for cc, ss, bb in uses:
            def nonneg(c2, u=u):
                return c2.op in ('le', 'lt') and zero(c2.left) and c2.right is u
            if not gate_with(bb, nonneg, 'ValueError'):
                ok = False
        ctx.ob(rule, csf, sol_stmt.lineno, f"solver unknown `{u.name}` must be non-negative before the result is built",
               ok, fact='gate `unknown < 0 -> ValueError` dominates every construction/transfer call' if ok else 'missing',
               why='a negative volume can be requested from the source or the solvent',
               key='no non-negativity gate on solver unknown')
    # create_solution: all unknowns positive, residual test over all rows
    cs_ = model.func('Container.create_solution')
    ffs = ctx.flow('Container.create_solution')
    sol_stmt = None
    for stmt in walk_no_nested(cs_.node):
        if isinstance(stmt, ast.Assign) and isinstance(stmt.value, ast.Call) and unparse(stmt.value.func).endswith('linalg.solve'):
            sol_stmt = stmt
    if sol_stmt is None or id(sol_stmt) not in ffs.post:
        raise AnalysisError('create_solution: solve statement not found')
    xs = ffs.post[id(sol_stmt)].env[sol_stmt.targets[0].id]
    full_matrix = strip_sub(sol_stmt.value.args[0], ffs.state_before(sol_stmt), ffs)
    builds = [(cc, ss, bb) for cc, ss, bb in ffs.calls if isinstance(cc.func, ast.Name) and cc.func.id == 'Container'
              and getattr(ss, 'lineno', 0) > sol_stmt.lineno]
    floor(ctx, 'create_solution result constructions', len(builds), 2)
    ok_pos, fact_pos = True, ''
    for cc, ss, bb in builds:
        def all_positive(c2):
            # not any(x <= 0 for x in xs)
            t = strip_refs(c2.left)
            if c2.op != 'falsy' or not (isinstance(t, ast.Call) and isinstance(t.func, ast.Name) and t.func.id == 'any'):
                return False
            g = t.args[0]
            if not isinstance(g, (ast.GeneratorExp, ast.ListComp)) or len(g.generators) != 1:
                return False
            if g.generators[0].iter is not xs or g.generators[0].ifs:
                return False
            e = g.elt
            return isinstance(e, ast.Compare) and len(e.ops) == 1 and (
                (isinstance(e.ops[0], ast.LtE) and isinstance(e.left, LoopVar) and zero(e.comparators[0])) or
                (isinstance(e.ops[0], ast.GtE) and isinstance(e.comparators[0], LoopVar) and zero(e.left)))
        g = gate_with(bb, all_positive, 'ValueError')
        if not g:
            ok_pos = False
        else:
            fact_pos = str(g[0])
    ctx.ob(rule, cs_, sol_stmt.lineno, 'every unknown of create_solution must be strictly positive', ok_pos,
           fact=fact_pos or 'no `any(x <= 0 for x in xs) -> ValueError` over all unknowns',
           why='a zero or negative amount of a solute or of the solvent is accepted',
           key='no positivity gate over all unknowns')
    # residual loop
    res_ok, res_fact = False, 'no residual loop'
    for stmt in walk_no_nested(cs_.node):
        if isinstance(stmt, ast.For) and ffs.seq(stmt) > ffs.seq(sol_stmt) and all(dominates(stmt, bb[1]) or
                                                                               _dominates_nested(stmt, bb[1]) for bb in builds):
            it = ffs.resolved.get(id(stmt))
            it_s = strip_refs(it)

            def over_all_rows(e):
                # range(len(a)) / a itself / zip(a, b) / enumerate(..) - every row of the full matrix is visited
                e = strip_refs(e)
                if e is full_matrix or strip_refs(e) is strip_refs(full_matrix):
                    return True
                if isinstance(e, ast.Call) and isinstance(e.func, ast.Name):
                    if e.func.id == 'range' and len(e.args) == 1:
                        a0 = strip_refs(e.args[0])
                        return isinstance(a0, ast.Call) and isinstance(a0.func, ast.Name) and a0.func.id == 'len' and \
                            (a0.args[0] is full_matrix or strip_refs(a0.args[0]) is strip_refs(full_matrix))
                    if e.func.id in ('zip', 'enumerate'):
                        return any(over_all_rows(a) for a in e.args)
                return False
            if over_all_rows(it_s):
                if True:
                    raises = [r for r in ast.walk(stmt) if isinstance(r, ast.Raise)]
                    tests = [n for n in ast.walk(stmt) if isinstance(n, ast.If)]
                    if raises and tests and all(('ValueError' in unparse(r)) for r in raises):
                        tsrc = unparse(tests[0].test, 400)
                        if 'abs(' in tsrc and sol_stmt.targets[0].id in tsrc:
                            res_ok, res_fact = True, f"for {unparse(stmt.target)} in {show(it_s)}: if {tsrc}: raise"
    if not res_ok:
        # the same test written as `if any(abs(..) > tol for row, rhs in zip(a, b)): raise`
        for stmt in walk_no_nested(cs_.node):
            if not (isinstance(stmt, ast.If) and ffs.seq(stmt) > ffs.seq(sol_stmt) and
                    all(dominates(stmt, bb[1]) or _dominates_nested(stmt, bb[1]) for bb in builds)):
                continue
            t = stmt.test
            if isinstance(t, ast.Call) and isinstance(t.func, ast.Name) and t.func.id == 'any' and t.args and \
                    isinstance(t.args[0], (ast.GeneratorExp, ast.ListComp)) and len(t.args[0].generators) == 1 and \
                    not t.args[0].generators[0].ifs:
                g = t.args[0]
                it_r = ffs.resolve(g.generators[0].iter, ffs.state_before(stmt))

                def rows_of(e):
                    e = strip_refs(e)
                    if e is full_matrix or strip_refs(e) is strip_refs(full_matrix):
                        return True
                    if isinstance(e, ast.Call) and isinstance(e.func, ast.Name):
                        if e.func.id == 'range' and len(e.args) == 1:
                            a0 = strip_refs(e.args[0])
                            return isinstance(a0, ast.Call) and getattr(a0.func, 'id', '') == 'len' and \
                                (a0.args[0] is full_matrix or strip_refs(a0.args[0]) is strip_refs(full_matrix))
                        if e.func.id in ('zip', 'enumerate'):
                            return any(rows_of(a) for a in e.args)
                    return False
                esrc = unparse(g.elt, 300)
                raises = [r for r in ast.walk(stmt) if isinstance(r, ast.Raise)]
                if rows_of(it_r) and 'abs(' in esrc and sol_stmt.targets[0].id in esrc and raises and \
                        all('ValueError' in unparse(r) for r in raises):
                    res_ok, res_fact = True, f"if any({esrc[:60]} for .. in {show(it_r, 40)}): raise"
    ctx.ob(rule, cs_, sol_stmt.lineno, 'residual test over all constraint rows (not only the solved ones)', res_ok,
           fact=res_fact, why='an over-determined request whose extra rows are violated is accepted',
           key='residual test incomplete')



def last_fact(state):
    if not state.facts:
        return None
    return list(state.facts.values())[-1]


def _dominates_nested(a, b):
    return dominates(a, b)


def strip_sub(raw_arg, state, ff):
    """For `a[:n + 1]` return the resolved `a`."""
    r = ff.resolve(raw_arg, state)
    r = strip_refs(r) if not isinstance(r, ast.Subscript) else r
    while isinstance(r, ast.Subscript):
        r = r.value
    return r


def strip_clamp(v):
    """`ratio = min(ratio, 1)` / `required = max(required, 0)` clamp representation error after a rounded gate: look
    through the clamp to the computed value."""
    while True:
        c = v.value if isinstance(v, Ref) else v
        if isinstance(c, ast.Call) and isinstance(c.func, ast.Name) and len(c.args) == 2 and \
                ((c.func.id == 'min' and any(const_value(a) == 1 for a in c.args)) or
                 (c.func.id == 'max' and any(zero(a) for a in c.args))):
            bound = 1 if c.func.id == 'min' else 0
            rest = [a for a in c.args if const_value(a) != bound or isinstance(const_value(a), bool)]
            if len(rest) != 1:
                return v
            v = rest[0]
            continue
        # the same clamp written as a statement (`if x < 0: x = 0`) or a conditional expression
        alts = None
        if isinstance(c, Phi) and len(c.options) == 2:
            alts = list(c.options)
        elif isinstance(c, ast.IfExp):
            alts = [c.body, c.orelse]
        if alts is not None:
            consts = [a for a in alts if const_value(strip_refs(a)) in (0, 1) and
                      not isinstance(const_value(strip_refs(a)), bool)]
            rest = [a for a in alts if a not in consts]
            if len(consts) == 1 and len(rest) == 1:
                v = rest[0]
                continue
        return v


def find_ratio(ff):
    """The factor applied to every substance in the per-substance loop: `amount * ratio` where amount is the value
    element of a loop over X.contents.items().  Returns (ratio value, loop statement)."""
    for stmt, target, key, value, before, rt in ff.stores:
        if not (isinstance(rt, ast.Subscript) and is_attr(rt.value, 'contents')):
            continue
        for n in deep_walk(value):
            if isinstance(n, ast.BinOp) and isinstance(n.op, ast.Mult):
                for a, b in ((n.left, n.right), (n.right, n.left)):
                    if isinstance(a, LoopVar) and is_items_of_contents(a.iter) and a.path == (1,):
                        loop = a.loop
                        if not isinstance(loop, ast.stmt):
                            # the amounts were computed by a comprehension (`moved = {s: a * ratio for ..}`): its statement
                            from ..model import enclosing_stmt
                            loop = enclosing_stmt(loop) or loop
                        return b, loop
    return None


def is_items_of_contents(it):
    it = strip_refs(it)
    return isinstance(it, ast.Call) and isinstance(it.func, ast.Attribute) and it.func.attr == 'items' and \
        is_attr(it.func.value, 'contents')


def branch_label(state):
    """Which literal the unit discriminant equals on this path ('L', 'g', ...)."""
    lab = '?'
    for c in facts_at(state):
        if c.op == 'eq':
            for x in (c.left, c.right):
                v = const_value(x)
                if isinstance(v, str):
                    lab = v
    return lab

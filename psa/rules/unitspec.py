"""Obligations about the Unit layer itself, decided with engine U (shared by C06, C14, C18, C19):
conversion cells, wrappers, storage pair, prefix table, parse_quantity / parse_concentration forms, rescale helpers."""
from __future__ import annotations

import ast
import itertools
import math

from ..model import AnalysisError, unparse, walk_no_nested
from ..tstr import TStr, user_unit, unit_of
from ..unitai import (explore, Result, Subst, Cont, S, Num, Lit, SymLit, NONE, KINDS, Incomplete, Tup, ListV, Other,
                      UserStr)
from ..units import U, ONE, SI, SI_FULL, base, sym, mL, PVS_L, PMS_MOL, AMT
from .. import uscan

BASES4 = ('U', 'L', 'g', 'mol')


def _explore(ctx, qualname, mk, opts=None):
    fi = ctx.model.func(qualname)
    ctx.functions_analysed.add(qualname)
    try:
        R = explore(ctx.model, fi, mk, opts)
    except Incomplete as exc:
        raise AnalysisError(f"UnitAI cannot interpret {qualname}: {exc}") from exc
    ctx.count('unitai_paths', R.paths)
    ctx.count('unitai_sink_checks', R.sink_checks)
    for o in R.outcomes:
        if o[0] == 'return' and _uninterpreted(o[1]):
            # an answer the interpreter could not follow is not a wrong answer: the analysis is incomplete
            raise AnalysisError(f"UnitAI cannot interpret {qualname}: returns an uninterpreted value {o[1]!r} (line {o[2]})")
    return fi, R


def _uninterpreted(v):
    from ..unitai import Other as _Other, Tup as _Tup
    if isinstance(v, _Other):
        return True
    if isinstance(v, _Tup):
        return any(_uninterpreted(x) for x in v)
    return False


def _out_unit(o):
    """(kind, value) of an outcome with the path's prefix bindings applied to a numeric value."""
    kind, v, line, it = o
    if isinstance(v, Num):
        v = Num(it.bound_unit(v.unit))
    return kind, v


def cell_spec(kind, bf, bt):
    enz = kind == 'enzyme'
    if bf == 'U' and not enz:
        return 'raise'
    if (bt == 'U' and not enz) or (enz and (bt == 'mol' or bf == 'mol')):
        return 'zero'
    return 'unit'


def convert_from_cells(ctx, rule):
    """C06.R1: every cell of Unit.convert_from (3 kinds x 4 x 4, symbolic prefixes and amount)."""
    n = 0
    for kind in KINDS:
        for bf, bt in itertools.product(BASES4, repeat=2):
            def mk(I, kind=kind, bf=bf, bt=bt):
                return {'substance': Subst(kind, 's'), 'quantity': Num(sym('Pf') * base(bf)),
                        'from_unit': S(user_unit('Pf', bf)), 'to_unit': S(user_unit('Pt', bt))}
            fi, R = _explore(ctx, 'Unit.convert_from', mk)
            spec = cell_spec(kind, bf, bt)
            want = sym('Pt') * base(bt)
            problems = []
            for o in R.outcomes:
                k, v = _out_unit(o)
                if spec == 'raise':
                    good = k == 'raise' and v == 'ValueError'
                elif spec == 'zero':
                    good = k == 'return' and isinstance(v, Lit) and v.v == 0
                else:
                    good = k == 'return' and isinstance(v, Num) and v.unit.same(want)
                if not good:
                    problems.append(f"{k} {v!r} at line {o[2]}")
            for (line, cat, msg) in R.flags:
                problems.append(f"{cat} line {line}: {msg}")
            expect = {'raise': 'ValueError', 'zero': 'literal 0', 'unit': f"a value in exactly {want}"}[spec]
            ctx.ob(rule, fi, fi.node.lineno, f"cell {kind}: {bf} -> {bt}", not problems,
                   fact=f"{R.paths} path(s); specified outcome: {expect}", why='; '.join(problems[:3]),
                   key=f"conversion cell {kind} {bf}->{bt}")
            n += 1
    # units outside the table are rejected
    for which in ('from_unit', 'to_unit'):
        def mk(I, which=which):
            env = {'substance': Subst('liquid', 's'), 'quantity': Num(sym('Pf') * base('L')),
                   'from_unit': S(user_unit('Pf', 'L')), 'to_unit': S(user_unit('Pt', 'g'))}
            env[which] = S(user_unit('Px', 'X'))
            return env
        fi, R = _explore(ctx, 'Unit.convert_from', mk)
        ok = all(o[0] == 'raise' and o[1] == 'ValueError' for o in R.outcomes)
        ctx.ob(rule, fi, fi.node.lineno, f"unknown {which} is rejected", ok, fact=f"{R.paths} path(s)",
               why='a unit outside mol/g/L/U is given a meaning', key=f"unknown {which} accepted")
    return n


def wrappers(ctx, rule):
    """C06.R3: Unit.convert = parse then convert_from with the parsed pair in the right positions."""
    for kind in KINDS:
        for bf, bt in itertools.product(('L', 'g', 'mol'), BASES4):
            def mk(I, kind=kind, bf=bf, bt=bt):
                q = S(TStr([('num', 'v', Num(sym('Pq') * base(bf))), ('lit', ' '), ('pre', 'Pq'), ('lit', bf)]))
                return {'substance': Subst(kind, 's'), 'quantity': q, 'unit': S(user_unit('Pt', bt))}
            fi, R = _explore(ctx, 'Unit.convert', mk)
            spec = cell_spec(kind, bf, bt)
            want = sym('Pt') * base(bt)
            problems = []
            for o in R.outcomes:
                k, v = _out_unit(o)
                good = (spec == 'raise' and k == 'raise' and v == 'ValueError') or \
                       (spec == 'zero' and k == 'return' and isinstance(v, Lit) and v.v == 0) or \
                       (spec == 'unit' and k == 'return' and isinstance(v, Num) and v.unit.same(want))
                if not good:
                    problems.append(f"{k} {v!r}")
            problems += [f"{cat} line {line}: {msg}" for (line, cat, msg) in R.flags]
            ctx.ob(rule, fi, fi.node.lineno, f"Unit.convert {kind}: '<v> <P>{bf}' -> {bt}", not problems,
                   fact=f"{R.paths} path(s)", why='; '.join(problems[:3]), key=f"convert wrapper {kind} {bf}->{bt}")


def storage_pair(ctx, rule_result, rule_strip):
    """convert_to_storage / convert_from_storage map P*B <-> PVS*L | PMS*mol (C06.R3, C18.R1)."""
    for name in ('convert_to_storage', 'convert_from_storage'):
        for b, st in (('L', PVS_L), ('mol', PMS_MOL)):
            user = sym('P') * base(b)

            def mk(I, name=name, b=b, st=st, user=user):
                return {'value': Num(user if name == 'convert_to_storage' else st), 'unit': S(user_unit('P', b))}
            fi, R = _explore(ctx, 'Unit.' + name, mk)
            target = st if name == 'convert_to_storage' else user
            strip = [(k, m) for k, m in R.flags.items() if k[1] == 'prefix-strip']
            other = [k for k in R.flags if k[1] != 'prefix-strip' and '?bad' not in k[2]]
            outs = [_out_unit(o) for o in R.outcomes]
            good = all(k == 'return' and isinstance(v, Num) and v.unit.same(target) for k, v in outs)
            if strip:
                for (line, cat, msg), c in strip:
                    text = uscan.site_text(ctx.model, fi, line)
                    ctx.ob(rule_strip, fi, line, f"prefix-strip at `{text}`", False, fact=msg,
                           why=f"the multiplier of a storage unit is taken from something that is not its prefix: {msg}",
                           key=f"prefix-strip: {text}")
            else:
                nstrip = sum(c for k, c in R.sinks.items() if k[1] == 'prefix-strip')
                ctx.ob(rule_strip, fi, fi.node.lineno, f"{name}[{b}]: every prefix argument is a suffix-strip", True,
                       fact=f"{nstrip} prefix conversions")
            ctx.ob(rule_result, fi, fi.node.lineno, f"{name}: {b} units map to {target}", (good and not other) or bool(strip),
                   fact=f"outcomes {[repr(v) for k, v in outs][:2]}",
                   why='; '.join([repr(v) for k, v in outs if not (isinstance(v, Num) and v.unit.same(target))][:2] +
                                 [m for (l, c, m) in other][:2]),
                   key=f"{name} {b} result unit")
    # a unit that is neither a volume nor moles is refused when reading back
    def mk(I):
        return {'value': Num(PMS_MOL), 'unit': S(user_unit('P', 'g'))}
    fi, R = _explore(ctx, 'Unit.convert_from_storage', mk)
    ctx.ob(rule_result, fi, fi.node.lineno, 'convert_from_storage refuses mass / activity units',
           all(o[0] == 'raise' and o[1] == 'ValueError' for o in R.outcomes), fact=f"{R.paths} path(s)",
           why='a stored value is returned under a unit of another dimension', key='convert_from_storage other unit')


def prefix_table(ctx, rule):
    """C14.R1: the prefix dictionary equals the SI table; unknown prefixes raise ValueError."""
    fi = ctx.model.func('Unit.convert_prefix_to_multiplier')
    ctx.functions_analysed.add(fi.qualname)
    dicts = [n for n in walk_no_nested(fi.node) if isinstance(n, ast.Dict)]
    if not dicts:
        # the table may have been moved to a constant of the class (Unit.PREFIXES) or of the module
        used = {x.attr for x in ast.walk(fi.node) if isinstance(x, ast.Attribute)} | \
            {x.id for x in ast.walk(fi.node) if isinstance(x, ast.Name)}
        scopes = [ctx.model.classes['Unit'].node.body] + [m.tree.body for m in ctx.model.modules.values()
                                                           if m.rel == 'pyplate/pyplate.py']
        for body in scopes:
            for st in body:
                tg = st.targets[0] if isinstance(st, ast.Assign) and len(st.targets) == 1 else \
                    st.target if isinstance(st, ast.AnnAssign) else None
                if isinstance(tg, ast.Name) and tg.id in used and isinstance(getattr(st, 'value', None), ast.Dict):
                    dicts.append(st.value)
    if not dicts:
        raise AnalysisError('convert_prefix_to_multiplier: prefix table (dict literal) not found')
    table = {}
    for k, v in zip(dicts[0].keys, dicts[0].values):
        if not isinstance(k, ast.Constant):
            raise AnalysisError('prefix table has a non-literal key')
        try:
            table[k.value] = float(ast.literal_eval(v))
        except Exception:
            raise AnalysisError('prefix table has a non-literal value')
    for k, v in table.items():
        want = SI_FULL.get(k)
        ctx.ob(rule, fi, dicts[0].lineno, f"prefix {k!r}", want is not None and math.isclose(v, want, rel_tol=1e-12),
               fact=f"table value {v:g}", why=f"SI value of {k!r} is {want if want is not None else 'undefined'}",
               key=f"prefix table entry {k!r}", nontrivial=False)
    for need in ('', 'm', 'u', 'k', 'n', 'c', 'd'):
        ctx.ob(rule, fi, dicts[0].lineno, f"prefix {need!r} is supported", need in table, nontrivial=False,
               why='a prefix the documentation uses is missing', key=f"prefix table lacks {need!r}")
    # the function returns exactly the table value / rejects everything else
    # spellings that differ from a table key by case or white space only are not prefixes ('K', 'U', 'Da', ' m')
    near = []
    for k in table:
        for alt in (k.upper(), k.lower(), k.capitalize(), k.swapcase(), k + ' ', ' ' + k):
            if alt not in table and alt not in near and alt.strip() != '' and alt != k:
                near.append(alt)
    for k, v in list(table.items()) + [('x', None), ('mm', None)] + [(a, None) for a in near]:
        def mk(I, k=k):
            return {'prefix': S(k)}
        _, R = _explore(ctx, 'Unit.convert_prefix_to_multiplier', mk)
        outs = [(o[0], o[1]) for o in R.outcomes]
        if v is not None:
            ok = all(kk == 'return' and isinstance(vv, Lit) and math.isclose(vv.v, v, rel_tol=1e-12) for kk, vv in outs)
        else:
            ok = all(kk == 'raise' and vv == 'ValueError' for kk, vv in outs)
        ctx.ob(rule, fi, fi.node.lineno, f"convert_prefix_to_multiplier({k!r})", ok,
               fact=f"outcomes {[repr(x[1]) for x in outs]}",
               why='the function does not return the table value / does not reject an unknown prefix',
               key=f"prefix function on {k!r}")
    return table


def parse_quantity_forms(ctx, rule):
    """C14.R3: 'v pU' denotes v * SI(p) in base unit U; malformed strings raise ValueError."""
    for b in ('L', 'g', 'mol', 'M', 'U'):
        def mk(I, b=b):
            q = S(TStr([('num', 'v', Num(sym('P') * base(b))), ('lit', ' '), ('pre', 'P'), ('lit', b)]))
            return {'quantity': q}
        fi, R = _explore(ctx, 'Unit.parse_quantity', mk)
        problems = []
        accepted = 0
        for o in R.outcomes:
            k, v = o[0], o[1]
            it = o[3]
            if k == 'return':
                accepted += 1
                val, unit = v[0], v[1]
                ok = isinstance(val, Num) and it.bound_unit(val.unit).same(base(b)) and it.as_tstr(unit).text() == b
                if not ok:
                    problems.append(f"returns {val!r}, {unit!r}")
            elif not (k == 'raise' and v == 'ValueError' and b == 'U'):
                problems.append(f"{k} {v!r}")
        if accepted == 0:
            problems.append('never accepted')
        problems += [f"{cat} line {line}: {msg}" for (line, cat, msg) in R.flags]
        ctx.ob(rule, fi, fi.node.lineno, f"parse_quantity('<v> <P>{b}')", not problems,
               fact=f"{R.paths} path(s); value must come back in {base(b)} with unit text {b!r}",
               why='; '.join(problems[:3]), key=f"parse_quantity form {b}")
    malformed = [('no space', S('10mL')), ('two spaces', S('10  mL')), ('unknown unit', S('10 mX')),
                 ('not a number', S('ten mL')), ('unknown prefix', S('10 xL'))]
    for label, q in malformed:
        fi, R = _explore(ctx, 'Unit.parse_quantity', lambda I, q=q: {'quantity': q})
        ok = all(o[0] == 'raise' and o[1] == 'ValueError' for o in R.outcomes)
        ctx.ob(rule, fi, fi.node.lineno, f"parse_quantity rejects a malformed string ({label})", ok,
               fact=f"outcomes {[(o[0], repr(o[1])) for o in R.outcomes]}",
               why='a malformed quantity string is given a meaning', key=f"parse_quantity malformed {label}")
    fi, R = _explore(ctx, 'Unit.parse_quantity', lambda I: {'quantity': Lit(5)})
    ctx.ob(rule, fi, fi.node.lineno, 'parse_quantity rejects a non-string', all(o[0] == 'raise' for o in R.outcomes),
           why='a number is accepted as a quantity', key='parse_quantity non-string', nontrivial=False)


def concentration_forms(weight_volume='g/mL'):
    def num(u):
        return ('num', 'v', Num(u))
    forms = []
    forms.append(("'<v> <P>M'", [num(sym('P') * base('M')), ('lit', ' '), ('pre', 'P'), ('lit', 'M')],
                  base('mol') / base('L'), 'mol', 'L', 'spelling M = mol/L'))
    kg = U(1e3, {'g': 1})
    forms.append(("'<v> <P>m'", [num(sym('P') * base('mol') / kg), ('lit', ' '), ('pre', 'P'), ('lit', 'm')],
                  base('mol') / base('g'), 'mol', 'g', 'spelling m = mol/kg'))
    for bn, bd in itertools.product(('mol', 'g', 'L', 'U'), repeat=2):
        w = sym('Pn') * base(bn) / (sym('Pd') * base(bd))
        forms.append((f"'<v> <Pn>{bn}/<Pd>{bd}'",
                      [num(w), ('lit', ' '), ('pre', 'Pn'), ('lit', bn + '/'), ('pre', 'Pd'), ('lit', bd)],
                      base(bn) / base(bd), bn, bd, 'ratio'))
        forms.append((f"'<v> <Pn>{bn}/<w> <Pd>{bd}'",
                      [num(w / sym('W')), ('lit', ' '), ('pre', 'Pn'), ('lit', bn + '/'), ('num', 'w', SymLit(sym('W'))),
                       ('lit', ' '), ('pre', 'Pd'), ('lit', bd)], base(bn) / base(bd), bn, bd, 'ratio with denominator value'))
    wv = unit_of(TStr.lit(weight_volume.split('/')[0])), unit_of(TStr.lit(weight_volume.split('/')[1]))
    pct = {'%v/v': (base('L') / base('L'), 'L', 'L'), '%w/w': (base('g') / base('g'), 'g', 'g')}
    if wv[0] is not None and wv[1] is not None:
        pct['%w/v'] = (wv[0][0] / wv[1][0], wv[0][1], wv[1][1])
    for p, (written, a, b) in pct.items():
        forms.append((f"'<v> {p}'", [num(written.scaled(0.01)), ('lit', ' ' + p)], base(a) / base(b), a, b,
                      f"percent {p}"))
    return forms


def parse_concentration_forms(ctx, rule_value, rule_spelling):
    """C14.R3/R4: every spelling of a concentration denotes the same ratio in base units."""
    wv = yaml_value(ctx.model, 'default_weight_volume_units') or 'g/mL'
    n = 0
    for name, toks, want, bn, bd, what in concentration_forms(wv):
        fi, R = _explore(ctx, 'Unit.parse_concentration', lambda I, toks=toks: {'concentration': S(TStr(toks))},
                         {'weight_volume_units': wv})
        problems = []
        if not R.outcomes:
            problems.append('no outcome')
        for o in R.outcomes:
            k, v, line, it = o
            if k != 'return':
                problems.append(f"{k} {v!r} at line {line}")
                continue
            val = v[0]
            ok = isinstance(val, Num) and it.bound_unit(val.unit).same(want) and \
                it.as_tstr(v[1]).text() == bn and it.as_tstr(v[2]).text() == bd
            if not ok:
                problems.append(f"returns {val!r}, {v[1]!r}, {v[2]!r}")
        problems += [f"{cat} line {line}: {msg}" for (line, cat, msg) in R.flags]
        rule = rule_spelling if what.startswith(('spelling', 'percent')) else rule_value
        ctx.ob(rule, fi, fi.node.lineno, f"parse_concentration({name}) [{what}]", not problems,
               fact=f"{R.paths} path(s); the value must come back in {want} with ({bn!r}, {bd!r})",
               why='; '.join(problems[:3]), key=f"parse_concentration form {name}")
        n += 1
    for label, c in (("no unit", S('5')), ("only a unit", S('M')), ("word", S('five percent')),
                     ("unknown unit", S('1 mX/L')), ("bad number", S('x mol/L'))):
        fi, R = _explore(ctx, 'Unit.parse_concentration', lambda I, c=c: {'concentration': c}, {'weight_volume_units': wv})
        ok = bool(R.outcomes) and all(o[0] == 'raise' and o[1] in ('ValueError', 'IndexError') for o in R.outcomes)
        ok_type = all(o[1] == 'ValueError' for o in R.outcomes)
        ctx.ob('C14.R6', fi, fi.node.lineno, f"parse_concentration rejects a malformed string ({label})", ok and ok_type,
               fact=f"outcomes {[(o[0], repr(o[1])) for o in R.outcomes]}",
               why='a malformed concentration is given a meaning or rejected with another exception type',
               key=f"parse_concentration malformed {label}")
    return n


def yaml_value(model, key):
    for line in model.yaml_text.splitlines():
        line = line.split('#')[0].strip()
        if line.startswith(key + ':'):
            return line.split(':', 1)[1].strip().strip("'\"")
    return None


def rescale_helpers(ctx, rule):
    """C19.R2: in the two rescaling helpers the returned unit string names the unit of the returned value."""
    for b in ('L', 'mol', 'g', 'U'):
        def mk(I, b=b):
            return {'value': Num(base(b)), 'unit': S(user_unit('P', b))}
        fi, R = _explore(ctx, 'Unit.get_human_readable_unit', mk)
        _check_pair_outcomes(ctx, rule, fi, R, f"get_human_readable_unit[{b}]", base(b))
    cases = [(Subst('solid', 's'), AMT('solid'), 'g'), (Subst('liquid', 's'), AMT('liquid'), 'L'),
             (Subst('enzyme', 's'), AMT('enzyme'), 'U'), (Cont('c'), PVS_L, 'L')]
    for what, unit, b in cases:
        def mk(I, what=what, unit=unit):
            return {'what': what, 'quantity': Num(unit)}
        fi, R = _explore(ctx, 'Unit.convert_from_storage_to_standard_format', mk)
        _check_pair_outcomes(ctx, rule, fi, R, f"standard_format[{getattr(what, 'kind', 'container')}]", base(b))


def _check_pair_outcomes(ctx, rule, fi, R, label, dimension_unit):
    bad = []
    nret = 0
    for o in R.outcomes:
        k, v, line, it = o
        if k != 'return':
            if not (k == 'raise' and v in ('TypeError',)):
                bad.append(f"{k} {v!r} at line {line}")
            continue
        nret += 1
        if not (isinstance(v, (Tup, list)) and len(v) == 2):
            bad.append(f"returns {v!r}")
            continue
        val, ustr = v
        t = it.as_tstr(ustr)
        u = unit_of(t) if t is not None else None
        if u is None:
            bad.append(f"returned unit string {ustr!r} does not denote a unit")
            continue
        if isinstance(val, Lit) and val.v == 0:
            continue
        if not isinstance(val, Num):
            bad.append(f"returned value {val!r}")
            continue
        have = it.bound_unit(val.unit)
        if not have.same(it.bound_unit(u[0])):
            bad.append(f"value is in {have} but the returned unit string {t!r} says {u[0]}")
        elif not have.same_dim(dimension_unit):
            bad.append(f"dimension changed: {have}")
    flags = [(line, cat, msg) for (line, cat, msg) in R.flags]
    for line, cat, msg in flags:
        bad.append(f"{cat} line {line}: {msg}")
    ctx.ob(rule, fi, fi.node.lineno, f"{label}: returned (value, unit) pairs agree", not bad,
           fact=f"{R.paths} paths, {nret} returning", why='; '.join(sorted(set(bad))[:3]),
           key=f"rescale pair {label.split('[')[0]}")


def api_verified(ctx, rule):
    """Every property whose unit analysis uses the Unit API through summaries at its call sites depends on the API
    itself being right: the 48 conversion cells, the string wrappers, the storage pair and the prefix table are
    verified here and count for that property as one obligation (plus one per failing item, reported at its site)."""
    before = len(ctx.obs)
    # structural obligations first: they stand even when the interpretation below cannot go through
    from .configtime import config_at_call_time
    config_at_call_time(ctx, rule, classes=('Unit', 'Substance'))
    from .configtime import late_binding_closures
    late_binding_closures(ctx, rule, classes=('Unit', 'Substance'))
    from .configtime import no_state_outside_objects
    no_state_outside_objects(ctx, rule, classes=('Unit', 'Substance'))
    convert_from_cells(ctx, rule)
    wrappers(ctx, rule)
    storage_pair(ctx, rule, rule)
    prefix_table(ctx, rule)
    memoisation_discipline(ctx, rule)
    parse_quantity_forms(ctx, rule)
    parse_concentration_forms(ctx, rule, rule)
    new = ctx.obs[before:]
    failing = [o for o in new if not o.ok]
    for o in failing:
        o.rule = rule
    del ctx.obs[before:]
    ctx.obs.extend(failing)
    fi = ctx.model.func('Unit.convert_from')
    ctx.ob(rule, fi, fi.node.lineno, 'the Unit API used through summaries is verified (conversion cells, wrappers, '
                                     'storage pair, prefix table)', not failing,
           fact=f"{len(new)} items, {len(failing)} failing", why='a conversion this property relies on is wrong',
           key='unit api summary')


def memoisation_discipline(ctx, rule):
    """A memoised function answers from its arguments' hash key alone.  For the Unit API that is wrong in two ways: the
    functions read the configuration at call time (a cached answer survives a configuration change), and they read
    fields of their Substance argument that `Substance.__hash__` / `__eq__` leave out (specific_activity: two lots of
    one enzyme are equal keys with different conversions).  Every cached function of class Unit / Substance must
    neither read `config` nor read a field of a library-class parameter that is outside that class's hash."""
    import ast as _ast
    model = ctx.model
    hashed = {}
    for cname in ('Substance', 'Container'):
        ci = model.classes.get(cname)
        h = ci.methods.get('__hash__') if ci else None
        if h is not None:
            hashed[cname] = {x.attr for x in _ast.walk(h.node) if isinstance(x, _ast.Attribute) and
                             isinstance(x.value, _ast.Name) and x.value.id == 'self'}

    def attrs_read(fi, pname, seen):
        out = set()
        if (fi.qualname, pname) in seen:
            return out
        seen.add((fi.qualname, pname))
        for x in _ast.walk(fi.node):
            if isinstance(x, _ast.Attribute) and isinstance(x.value, _ast.Name) and x.value.id == pname:
                m = model.lookup_method('Substance', x.attr)
                if m is not None and not m.is_property:
                    out |= attrs_read(m, m.param_names(drop_self=False)[0], seen)
                else:
                    out.add(x.attr)
        return out
    n = 0
    for cname in ('Unit', 'Substance'):
        ci = model.classes.get(cname)
        if ci is None:
            continue
        for m in ci.methods.values():
            if not m.is_cached:
                continue
            n += 1
            problems = []
            if any(isinstance(x, _ast.Name) and x.id == 'config' for x in _ast.walk(m.node)):
                problems.append('reads the configuration at call time')
            for p in m.all_param_names():
                ann = m.annotation(p) or ''
                if 'Substance' in ann or p == 'substance':
                    extra = attrs_read(m, p, set()) - hashed.get('Substance', set()) - {'name'}
                    extra = {a for a in extra if not a.startswith('__')}
                    if extra:
                        problems.append(f"reads {sorted(extra)} of `{p}`, which Substance.__hash__ / __eq__ ignore")
            ctx.ob(rule, m, m.node.lineno, f"{m.qualname} is memoised: its answer depends on its hash key only", not problems,
                   fact=f"decorators {sorted(m.decorators)}", why='; '.join(problems) + ': a cached answer is returned for another '
                   'substance / configuration', key=f"memoised {m.qualname}")
    ctx.count('memoised_unit_functions', n)

"""The functions engine U scans for unit sinks, with the input assumptions each scan makes (taken from the property
statements).  Shared by C02, C09, C10, C11, C14, C15, C18, C19."""
from __future__ import annotations

from ..unitai import Subst, Cont, UserStr, KINDS, NONE, Obj, Other, ListV, Tup
from .. import uscan

NON_ENZYME = ('solid', 'liquid')


def _kinds(pname, kinds):
    return [(f"{pname}={k}", (lambda k=k: Subst(k, pname))) for k in kinds]


# qualname -> (opts, [assumptions])
TARGETS = {
    'Container.__init__': ({'params': {'initial_contents': [('initial_contents=None', lambda: NONE)],
                                       'name': [('', lambda: Other('name'))]}},
                           ['initial contents are added through _self_add (scanned separately)']),
    'Container._self_add': ({}, []),
    'Container._transfer': ({}, []),
    'Container.remove': ({'params': {'what': [('', lambda: Other('what'))]}}, []),
    'Container.get_volume': ({'interp': {'unit_bases': ('L',)}},
                             ['the unit argument of a volume observer is a volume unit']),
    'Container.get_concentration': ({}, []),
    'Container.fill_to': ({}, []),
    'Container.dilute': ({'params': {'solute': _kinds('solute', NON_ENZYME), 'solvent': _kinds('solvent', NON_ENZYME)}},
                         ['dilute: solute and solvent are solids or liquids (the library declares dilution of '
                          'enzymes unsupported; C11 excludes it)']),
    'Container.dataframe': ({}, []),
    'Unit.calculate_concentration_ratio': ({'params': {'solute': _kinds('solute', KINDS),
                                                       'solvent': _kinds('solvent', NON_ENZYME)}},
                                           ['the solvent of a mole-ratio computation is a solid or liquid']),
}


def scan(ctx, qualname):
    opts, assumptions = TARGETS.get(qualname, ({}, []))
    for a in assumptions:
        if a not in ctx.assumptions:
            ctx.assumptions.append(a)
    return uscan.scan(ctx.model, qualname, opts, key='std')

"""The functions engine U scans for unit sinks, with the input assumptions each scan makes (taken from the property
statements).  Shared by C02, C09, C10, C11, C14, C15, C18, C19."""
from __future__ import annotations

from ..unitai import Subst, Cont, UserStr, KINDS, NONE, Obj, Other, ListV, Tup
from .. import uscan

NON_ENZYME = ('solid', 'liquid')


def _kinds(pname, kinds):
    return [(f"{pname}={k}", (lambda k=k: Subst(k, pname))) for k in kinds]


# qualname -> (opts, [assumptions])
TARGETS = {
    'Container.__init__': ({'params': {'initial_contents': [('initial_contents=None', lambda: NONE)],
                                       'name': [('', lambda: Other('name'))]}},
                           ['initial contents are added through _self_add (scanned separately)']),
    'Container.__init__#contents': ({'params': {
        'initial_contents': [(f"initial_contents=[({k}, q)]", (lambda k=k: ListV([Tup([Subst(k, 's'), UserStr('q')])])))
                             for k in KINDS],
        'name': [('', lambda: Other('name'))]}}, []),
    'Container._self_add': ({}, []),
    'Container._transfer': ({}, []),
    'Container.remove': ({'params': {'what': [('', lambda: Other('what'))]}}, []),
    'Container.get_volume': ({'interp': {'unit_bases': ('L',)}},
                             ['the unit argument of a volume observer is a volume unit']),
    'Container.get_concentration': ({}, []),
    'Container.fill_to': ({}, []),
    'Container.dilute': ({'params': {'solute': _kinds('solute', NON_ENZYME), 'solvent': _kinds('solvent', NON_ENZYME)}},
                         ['dilute: solute and solvent are solids or liquids (the library declares dilution of '
                          'enzymes unsupported; C11 excludes it)']),
    'Container.dilute#U': ({'params': {'solute': _kinds('solute', ('enzyme',)), 'solvent': _kinds('solvent', NON_ENZYME)},
                           'interp': {'pc_nums': ('U',), 'linear_from_storage': True}},
                          ['dilute of an enzyme by an activity concentration: analysed for the storage discipline (C18) only - '
                           'C11 excludes enzyme solutes']),
    'Container.dataframe': ({}, []),
    'Unit.calculate_concentration_ratio': ({'params': {'solute': _kinds('solute', NON_ENZYME),
                                                       'solvent': _kinds('solvent', NON_ENZYME)},
                                            'interp': {'pc_nums': ('mol', 'g', 'L')}},
                                           ['mole-ratio helper: solute and solvent are solids or liquids for '
                                            'mass/volume/mole numerators; the solute is an enzyme for activity numerators']),
    'Unit.calculate_concentration_ratio#U': ({'params': {'solute': _kinds('solute', ('enzyme',)),
                                                         'solvent': _kinds('solvent', NON_ENZYME)},
                                              'interp': {'pc_nums': ('U',)}}, []),
}


def scan(ctx, qualname):
    opts, assumptions = TARGETS.get(qualname, ({}, []))
    for a in assumptions:
        if a not in ctx.assumptions:
            ctx.assumptions.append(a)
    return uscan.scan(ctx.model, qualname.split('#')[0], opts, key='std' + qualname)


# ------------------------------------------------------------------------------------------------ recipe level
def _step(kind):
    """An abstract RecipeStep whose records hold containers ('container') or plates ('plate')."""
    from ..unitai import Contents

    def rec():
        elem = Cont('state') if kind == 'container' else Obj('Plate')
        r = ListV([elem])
        r.open, r.elem = True, elem
        return r
    return Obj('RecipeStep', {'to': rec(), 'frm': rec(), 'trash': Contents(Cont('trash')),
                              'substances_used': Other('set'), 'objects_used': Other('set'),
                              'instructions': Other('str'), 'operator': Other('str')})


def _recipe(kind):
    steps = ListV([_step(kind)])
    steps.open, steps.elem = True, steps[0]
    return Obj('Recipe', {'steps': steps, 'stages': Other('stages'), 'results': Other('results'),
                          'used': Other('used')})


def _recipe_alts(_):
    return [('records=containers', lambda: _recipe('container')), ('records=plates', lambda: _recipe('plate'))]


RECIPE_OPTS = {'interp': {'strict_other': False}}


def _mk_recipe_target(extra_params=None):
    params = {'self': _recipe_alts(None)}
    params.update(extra_params or {})
    return {'params': params, 'interp': {'strict_other': False}}


TARGETS.update({
    'Container._transfer_slice': ({'interp': {'strict_other': False}}, []),
    'PlateSlicer._transfer': ({'interp': {'strict_other': False}}, []),
    'PlateSlicer.get_volumes': ({'interp': {'unit_bases': ('L',)}, 'empty_collections': True}, ['the unit argument of a volume observer is a volume unit']),
    'PlateSlicer.get_moles': ({'interp': {'unit_bases': ('mol',)}, 'empty_collections': True}, ['the unit argument of a mole observer is a mole unit']),
    'PlateSlicer.dataframe': ({'params': {'cmap': [('', lambda: NONE)], 'highlight': [('', lambda: Other('bool'))]}}, []),
    'RecipeStep.dataframe': ({'params': {'self': [('records=containers', lambda: _step('container')),
                                                  ('records=plates', lambda: _step('plate'))],
                                         'data_source': [('', lambda: Other('str'))], 'mode': [('', lambda: Other('str'))],
                                         'container_mode': [('container_mode=data', lambda: __import__('psa.unitai', fromlist=['S']).S('data'))],
                                         'substance': [(f"substance={k}", (lambda k=k: Subst(k, 'substance'))) for k in KINDS]
                                         + [('substance=all', lambda: __import__('psa.unitai', fromlist=['S']).S('all'))]},
                              'interp': {'strict_other': False}}, []),
    'Recipe.get_substance_used': (_mk_recipe_target({'timeframe': [('', lambda: Other('str'))],
                                                     'destinations': [('', lambda: Other('destinations'))]}), []),
    'Recipe.get_container_flows': (_mk_recipe_target({'timeframe': [('', lambda: Other('isa:str'))],
                                                      'container': [('container', lambda: Cont('query')),
                                                                    ('plate', lambda: Obj('Plate'))]}), []),
    'Recipe.get_amount_remaining': (_mk_recipe_target({'timeframe': [('', lambda: Other('isa:str'))],
                                                       'mode': [('', lambda: Other('str'))],
                                                       'container': [('container', lambda: Cont('query')),
                                                                     ('plate', lambda: Obj('Plate'))]}), []),
})


# ------------------------------------------------------------------------------------------------ Recipe.bake
def bake_variants():
    """(label, make_self) for the operator branches of bake that print or compute amounts."""
    from ..unitai import S, Tup, Contents, Bool

    def recipe_for(operator, operands, dest, current):
        def mk():
            to = ListV([dest()])
            frm = ListV([NONE])
            step = Obj('RecipeStep', {'to': to, 'frm': frm, 'trash': Contents(Cont('trash')),
                                      'substances_used': Obj('set'), 'objects_used': Obj('set'),
                                      'instructions': Other('str'), 'operator': S(operator), 'operands': operands(),
                                      'frm_slice': NONE, 'to_slice': NONE})
            steps = ListV([step])
            return Obj('Recipe', {'steps': steps, 'stages': Other('stages'), 'results': Obj('results', {'elem': current()}),
                                  'used': Obj('set'), 'locked': Bool(False), 'current_stage': S('all')})
        return mk
    out = []
    for k in KINDS:
        out.append((f"dilute solvent={k}", recipe_for(
            'dilute', lambda k=k: Tup([Subst('liquid', 'solute'), UserStr('concentration'), Subst(k, 'solvent'), NONE]),
            lambda: Cont('dest'), lambda: Cont('current'))))
        out.append((f"fill_to container solvent={k}", recipe_for(
            'fill_to', lambda k=k: Tup([Subst(k, 'solvent'), UserStr('quantity')]),
            lambda: Cont('dest'), lambda: Cont('current'))))
        out.append((f"fill_to slice solvent={k}", recipe_for(
            'fill_to', lambda k=k: Tup([Subst(k, 'solvent'), UserStr('quantity')]),
            lambda: Obj('PlateSlicer', {'plate': Obj('Plate')}), lambda: Obj('Plate'))))
    return out


def scan_bake(ctx):
    key = (ctx.model.serial, 'Recipe.bake', 'bake')
    if key in uscan._cache:
        return uscan._cache[key]
    from ..unitai import explore, Incomplete
    fi = ctx.model.func('Recipe.bake')
    sc = uscan.Scan('Recipe.bake')
    try:
        for label, mk in bake_variants():
            R = explore(ctx.model, fi, lambda I, mk=mk: {'self': mk()}, {'strict_other': False})
            sc.add(label, R)
    except Incomplete as exc:
        sc.incomplete = str(exc)
    uscan._cache[key] = sc
    return sc

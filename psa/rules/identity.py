"""Identity discipline of the value classes (shared obligation).

Container.contents is a dictionary keyed by Substance objects, and the observers of Container are memoised with the
container itself as the key.  Both only work under the laws of `__eq__` / `__hash__`:
  (a) every attribute that enters the hash is compared by `__eq__` (equal keys must hash equally - otherwise
      `contents.get(substance, 0)` misses the entry of an equal substance and the amount already present is lost);
  (b) `__eq__` compares attribute A of self with attribute A of other, joined by `and`, and answers False for foreign types;
  (c) a memoised method of the class reads only attributes of self that `__eq__` compares
      (otherwise the answer computed for one state is handed out for another state with the same key).
The rule is stated over attribute sets read from the current sources, not over a frozen list of fields."""
from __future__ import annotations

import ast

from ..model import AnalysisError


def _self_attrs(node, name='self'):
    return {x.attr for x in ast.walk(node) if isinstance(x, ast.Attribute) and isinstance(x.value, ast.Name)
            and x.value.id == name}


def _reads_transitively(model, ci, fi, seen):
    """Attributes of self read by fi, following calls of self's own plain methods."""
    out = set()
    if fi.qualname in seen:
        return out
    seen.add(fi.qualname)
    pn = fi.param_names(drop_self=False)
    if not pn:
        return out
    me = pn[0]
    for x in ast.walk(fi.node):
        if isinstance(x, ast.Attribute) and isinstance(x.value, ast.Name) and x.value.id == me:
            m = model.lookup_method(ci.name, x.attr)
            if m is not None and not m.is_property:
                out |= _reads_transitively(model, ci, m, seen)
            else:
                out.add(x.attr)
    return out


def identity_discipline(ctx, rule, classes=('Substance', 'Container'), memoised=True):
    model = ctx.model
    n = 0
    for cname in classes:
        ci = model.classes.get(cname)
        if ci is None:
            raise AnalysisError(f"class {cname} not found")
        eq, h = ci.methods.get('__eq__'), ci.methods.get('__hash__')
        if eq is None and h is None:
            continue            # identity semantics of object: consistent by construction
        if eq is None or h is None:
            fi = eq or h
            ctx.ob(rule, fi, fi.node.lineno, f"{cname} defines __eq__ and __hash__ together", False,
                   fact=f"only {fi.name} is defined", why='a class with __eq__ but no __hash__ is unhashable, one with '
                   '__hash__ alone compares by identity: dictionary keys stop matching', key=f"eq/hash pair {cname}")
            continue
        other = eq.param_names(drop_self=False)[1] if len(eq.param_names(drop_self=False)) > 1 else 'other'
        eq_self, eq_other = _self_attrs(eq.node), _self_attrs(eq.node, other)
        hashed = _self_attrs(h.node)
        n += 1
        extra = hashed - eq_self
        ctx.ob(rule, h, h.node.lineno, f"{cname}.__hash__ uses only attributes that {cname}.__eq__ compares", not extra,
               fact=f"hashed {sorted(hashed)}; compared {sorted(eq_self)}",
               why=f"{sorted(extra)} enter the hash but not the comparison: two equal objects hash differently, so a "
                   f"dictionary lookup with an equal key misses its entry", key=f"hash outside eq {cname}")
        # (b) shape of __eq__
        bad = []
        for c in ast.walk(eq.node):
            if not isinstance(c, ast.Compare):
                continue
            sides = [c.left] + list(c.comparators)
            attrs = [(s.value.id, s.attr) for s in sides if isinstance(s, ast.Attribute) and isinstance(s.value, ast.Name)]
            if len(attrs) == 2 and {attrs[0][0], attrs[1][0]} == {'self', other}:
                if attrs[0][1] != attrs[1][1]:
                    bad.append(f"compares self.{attrs[0][1] if attrs[0][0] == 'self' else attrs[1][1]} with "
                               f"{other}.{attrs[1][1] if attrs[1][0] == other else attrs[0][1]}")
                if not all(isinstance(o, ast.Eq) for o in c.ops):
                    bad.append(f"`{ast.unparse(c)}` is not an equality")
        for b in ast.walk(eq.node):
            if isinstance(b, ast.BoolOp) and isinstance(b.op, ast.Or) and \
                    any(isinstance(x, ast.Attribute) and isinstance(x.value, ast.Name) and x.value.id == other for x in ast.walk(b)):
                bad.append('attribute comparisons joined by `or`')
        if eq_self != eq_other:
            bad.append(f"attributes of self {sorted(eq_self)} and of {other} {sorted(eq_other)} differ")
        guards = [t for t in ast.walk(eq.node) if isinstance(t, ast.Call) and getattr(t.func, 'id', '') == 'isinstance'
                  and t.args and isinstance(t.args[0], ast.Name) and t.args[0].id == other]
        if not guards:
            bad.append('no isinstance test of the other operand')
        ctx.ob(rule, eq, eq.node.lineno, f"{cname}.__eq__ is a conjunction of attribute-wise equalities on one type", not bad,
               fact=f"compared {sorted(eq_self)}", why='; '.join(bad) + ': objects that differ compare equal (their entries '
               'merge) or equal ones differ', key=f"eq shape {cname}")
        # (c) memoised methods
        if not memoised:
            continue
        key = eq_self           # functools.cache finds a candidate by hash and confirms it with __eq__
        for m in ci.methods.values():
            if not m.is_cached or m.is_property:
                continue
            reads = _reads_transitively(model, ci, m, set())
            reads = {a for a in reads if not a.startswith('__')}
            outside = reads - key
            ctx.ob(rule, m, m.node.lineno, f"memoised {m.qualname} reads only attributes that identify the object", not outside,
                   fact=f"reads {sorted(reads)}; key attributes {sorted(key)}",
                   why=f"{sorted(outside)} are read but not compared by __eq__: the answer for one state is "
                       f"returned for another", key=f"memoised reads outside key {m.qualname}")
    ctx.count('identity_classes', n)
    return n

"""Identity discipline of the value classes (shared obligation).

Container.contents is a dictionary keyed by Substance objects, and the observers of Container are memoised with the
container itself as the key.  Both only work under the laws of `__eq__` / `__hash__`:
  (a) every attribute that enters the hash is compared by `__eq__` (equal keys must hash equally - otherwise
      `contents.get(substance, 0)` misses the entry of an equal substance and the amount already present is lost);
  (b) `__eq__` compares attribute A of self with attribute A of other, joined by `and`, and answers False for foreign types;
  (c) a memoised method of the class reads only attributes of self that `__eq__` compares
      (otherwise the answer computed for one state is handed out for another state with the same key).
  (d) every attribute `__eq__` compares holds plain values (str, numbers, None, displays of those): every operation
      deep-copies its operands, and an arbitrary object (no value equality) stops being equal to its own copy - the
      substance the caller holds is then no longer found in the result;
  (e) every attribute of a Substance that the conversions of class Unit read is compared by `__eq__`: two substances
      with different constants that compare equal share one entry, and what was booked under one is converted with
      the constants of the other.
The rule is stated over attribute sets read from the current sources, not over a frozen list of fields."""
from __future__ import annotations

import ast

from ..model import AnalysisError


def _self_attrs(node, name='self'):
    return {x.attr for x in ast.walk(node) if isinstance(x, ast.Attribute) and isinstance(x.value, ast.Name)
            and x.value.id == name}


def _reads_transitively(model, ci, fi, seen):
    """Attributes of self read by fi, following calls of self's own plain methods."""
    out = set()
    if fi.qualname in seen:
        return out
    seen.add(fi.qualname)
    pn = fi.param_names(drop_self=False)
    if not pn:
        return out
    me = pn[0]
    for x in ast.walk(fi.node):
        if isinstance(x, ast.Attribute) and isinstance(x.value, ast.Name) and x.value.id == me:
            m = model.lookup_method(ci.name, x.attr)
            if m is not None and not m.is_property:
                out |= _reads_transitively(model, ci, m, seen)
            else:
                out.add(x.attr)
    return out


PLAIN = {'str', 'int', 'float', 'bool', 'complex', 'bytes'}


def _plain_param(fi, name):
    """Is parameter `name` of fi known to hold a plain value (annotation or an isinstance test against plain types)?"""
    ann = fi.annotation(name) or ''
    if ann and all(t.strip() in PLAIN | {'None'} for t in ann.replace('Optional[', '').replace(']', '').split('|')):
        return True
    for t in ast.walk(fi.node):
        if isinstance(t, ast.Call) and getattr(t.func, 'id', '') == 'isinstance' and len(t.args) == 2 and \
                isinstance(t.args[0], ast.Name) and t.args[0].id == name:
            kinds = t.args[1].elts if isinstance(t.args[1], ast.Tuple) else [t.args[1]]
            if all(isinstance(k, ast.Name) and k.id in PLAIN for k in kinds):
                return True
    return False


def _plain_expr(model, ci, fi, e, depth=0):
    if depth > 6:
        return False
    if isinstance(e, ast.Constant):
        return True
    if isinstance(e, (ast.BinOp,)):
        return _plain_expr(model, ci, fi, e.left, depth + 1) and _plain_expr(model, ci, fi, e.right, depth + 1)
    if isinstance(e, ast.UnaryOp):
        return _plain_expr(model, ci, fi, e.operand, depth + 1)
    if isinstance(e, ast.IfExp):
        return _plain_expr(model, ci, fi, e.body, depth + 1) and _plain_expr(model, ci, fi, e.orelse, depth + 1)
    if isinstance(e, (ast.Compare, ast.BoolOp, ast.JoinedStr)):
        return True
    if isinstance(e, (ast.Dict, ast.List, ast.Set, ast.Tuple)):
        items = (list(e.keys) + list(e.values)) if isinstance(e, ast.Dict) else list(e.elts)
        return all(x is None or _plain_expr(model, ci, fi, x, depth + 1) for x in items)
    if isinstance(e, ast.Call):
        f = e.func
        if isinstance(f, ast.Name) and f.id in ('float', 'int', 'str', 'round', 'abs', 'len', 'min', 'max', 'bool', 'sum'):
            return True
        if isinstance(f, ast.Attribute) and isinstance(f.value, ast.Name) and f.value.id in ('Unit', 'math', 'numpy', 'np'):
            return True
        return False
    if isinstance(e, ast.Attribute):
        if isinstance(e.value, ast.Name) and e.value.id == 'config':
            return True
        if isinstance(e.value, ast.Name) and e.value.id in model.classes:
            return True         # class constant
        return _plain_attr(model, ci, e.attr, depth + 1)
    if isinstance(e, ast.Subscript):
        return _plain_expr(model, ci, fi, e.value, depth + 1)
    if isinstance(e, ast.Name):
        if e.id in fi.all_param_names():
            return _plain_param(fi, e.id)
        defs = []
        for st in ast.walk(fi.node):
            if isinstance(st, ast.Assign):
                for t in st.targets:
                    if isinstance(t, ast.Name) and t.id == e.id:
                        defs.append(st.value)
                    elif isinstance(t, ast.Tuple) and any(isinstance(x, ast.Name) and x.id == e.id for x in t.elts):
                        defs.append(st.value)
            elif isinstance(st, ast.AugAssign) and isinstance(st.target, ast.Name) and st.target.id == e.id:
                defs.append(st.value)
        return bool(defs) and all(_plain_expr(model, ci, fi, d, depth + 1) for d in defs)
    return False


def _plain_attr(model, ci, attr, depth=0):
    """Every store to `<obj>.attr` in the constructor and the static factories of the class assigns a plain value."""
    stores = []
    for m in ci.methods.values():
        if m.name != '__init__' and 'staticmethod' not in m.decorators and 'classmethod' not in m.decorators:
            continue
        for st in ast.walk(m.node):
            if isinstance(st, (ast.Assign, ast.AnnAssign)) and st.value is not None:
                targets = st.targets if isinstance(st, ast.Assign) else [st.target]
                if any(isinstance(t, ast.Attribute) and t.attr == attr for t in targets):
                    stores.append((m, st.value))
    if not stores:
        return False
    return all(_plain_expr(model, ci, m, v, depth + 1) for m, v in stores)


def _conversion_reads(model):
    """Attributes of a Substance read (also through Substance's own methods) by the static conversions of class Unit."""
    unit = model.classes.get('Unit')
    sub = model.classes.get('Substance')
    out = {}
    if unit is None or sub is None:
        return out

    def reads(fi, pname, seen):
        got = set()
        if (fi.qualname, pname) in seen:
            return got
        seen.add((fi.qualname, pname))
        for x in ast.walk(fi.node):
            if isinstance(x, ast.Attribute) and isinstance(x.value, ast.Name) and x.value.id == pname:
                m = model.lookup_method('Substance', x.attr)
                if m is not None and not m.is_property:
                    got |= reads(m, m.param_names(drop_self=False)[0], seen)
                else:
                    got.add(x.attr)
        return got
    for m in unit.methods.values():
        for p in m.all_param_names():
            ann = m.annotation(p) or ''
            if p in ('substance', 'solute', 'solvent') or ann.strip() == 'Substance':
                for a in reads(m, p, set()):
                    if not a.startswith('__'):
                        out.setdefault(a, m.qualname)
    return out


def identity_discipline(ctx, rule, classes=('Substance', 'Container'), memoised=True):
    model = ctx.model
    n = 0
    for cname in classes:
        ci = model.classes.get(cname)
        if ci is None:
            raise AnalysisError(f"class {cname} not found")
        eq, h = ci.methods.get('__eq__'), ci.methods.get('__hash__')
        if eq is None and h is None:
            continue            # identity semantics of object: consistent by construction
        if eq is None or h is None:
            fi = eq or h
            ctx.ob(rule, fi, fi.node.lineno, f"{cname} defines __eq__ and __hash__ together", False,
                   fact=f"only {fi.name} is defined", why='a class with __eq__ but no __hash__ is unhashable, one with '
                   '__hash__ alone compares by identity: dictionary keys stop matching', key=f"eq/hash pair {cname}")
            continue
        other = eq.param_names(drop_self=False)[1] if len(eq.param_names(drop_self=False)) > 1 else 'other'
        eq_self, eq_other = _self_attrs(eq.node), _self_attrs(eq.node, other)
        hashed = _self_attrs(h.node)
        n += 1
        extra = hashed - eq_self
        ctx.ob(rule, h, h.node.lineno, f"{cname}.__hash__ uses only attributes that {cname}.__eq__ compares", not extra,
               fact=f"hashed {sorted(hashed)}; compared {sorted(eq_self)}",
               why=f"{sorted(extra)} enter the hash but not the comparison: two equal objects hash differently, so a "
                   f"dictionary lookup with an equal key misses its entry", key=f"hash outside eq {cname}")
        # (b) shape of __eq__
        bad = []
        for c in ast.walk(eq.node):
            if not isinstance(c, ast.Compare):
                continue
            sides = [c.left] + list(c.comparators)
            attrs = [(s.value.id, s.attr) for s in sides if isinstance(s, ast.Attribute) and isinstance(s.value, ast.Name)]
            if len(attrs) == 2 and {attrs[0][0], attrs[1][0]} == {'self', other}:
                if attrs[0][1] != attrs[1][1]:
                    bad.append(f"compares self.{attrs[0][1] if attrs[0][0] == 'self' else attrs[1][1]} with "
                               f"{other}.{attrs[1][1] if attrs[1][0] == other else attrs[0][1]}")
                if not all(isinstance(o, ast.Eq) for o in c.ops):
                    bad.append(f"`{ast.unparse(c)}` is not an equality")
        for b in ast.walk(eq.node):
            if isinstance(b, ast.BoolOp) and isinstance(b.op, ast.Or) and \
                    any(isinstance(x, ast.Attribute) and isinstance(x.value, ast.Name) and x.value.id == other for x in ast.walk(b)):
                bad.append('attribute comparisons joined by `or`')
        if eq_self != eq_other:
            bad.append(f"attributes of self {sorted(eq_self)} and of {other} {sorted(eq_other)} differ")
        guards = [t for t in ast.walk(eq.node) if isinstance(t, ast.Call) and getattr(t.func, 'id', '') == 'isinstance'
                  and t.args and isinstance(t.args[0], ast.Name) and t.args[0].id == other]
        if not guards:
            bad.append('no isinstance test of the other operand')
        ctx.ob(rule, eq, eq.node.lineno, f"{cname}.__eq__ is a conjunction of attribute-wise equalities on one type", not bad,
               fact=f"compared {sorted(eq_self)}", why='; '.join(bad) + ': objects that differ compare equal (their entries '
               'merge) or equal ones differ', key=f"eq shape {cname}")
        # (d) compared attributes hold plain values
        opaque = sorted(a for a in eq_self if not _plain_attr(model, ci, a) and
                        not (cname == 'Container' and a == 'contents'))
        ctx.ob(rule, eq, eq.node.lineno, f"{cname}.__eq__ compares only attributes that hold plain values", not opaque,
               fact=f"compared {sorted(eq_self)}",
               why=f"{opaque} can hold an arbitrary object, which equals only itself: after the deep copy every operation "
                   f"makes, the {cname.lower()} in the result no longer equals the one the caller holds",
               key=f"eq on opaque attribute {cname}")
        # (e) what the conversions read is part of the identity
        if cname == 'Substance':
            conv = _conversion_reads(model)
            missing = sorted(a for a in conv if a not in eq_self)
            ctx.ob(rule, eq, eq.node.lineno, 'every Substance attribute the Unit conversions read is compared by __eq__',
                   not missing, fact=f"read by conversions {sorted(conv)}; compared {sorted(eq_self)}",
                   why=f"{missing} (read by {', '.join(sorted({conv[a] for a in missing}))}) are not compared: two "
                       f"substances with different constants are one dictionary key, and amounts booked under one are "
                       f"converted with the constants of the other", key='conversion attribute outside eq')
        # (c) memoised methods
        if not memoised:
            continue
        key = eq_self           # functools.cache finds a candidate by hash and confirms it with __eq__
        for m in ci.methods.values():
            if not m.is_cached or m.is_property:
                continue
            reads = _reads_transitively(model, ci, m, set())
            reads = {a for a in reads if not a.startswith('__')}
            outside = reads - key
            ctx.ob(rule, m, m.node.lineno, f"memoised {m.qualname} reads only attributes that identify the object", not outside,
                   fact=f"reads {sorted(reads)}; key attributes {sorted(key)}",
                   why=f"{sorted(outside)} are read but not compared by __eq__: the answer for one state is "
                       f"returned for another", key=f"memoised reads outside key {m.qualname}")
    ctx.count('identity_classes', n)
    return n

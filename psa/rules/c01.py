"""C01 - Transfers conserve every substance.
Symmetric update (D), result threading (M, D), write-back locality (M), alias write-back conflicts (O, D)."""
from __future__ import annotations

import ast

from ..dep import signed_leaves
from ..flow import (Ref, Param, LoopVar, Elt, Phi, Sym, FuncRef, FuncFlow, strip_refs, show, pathkey, same_value, facts_at,
                    deep_walk)
from ..model import AnalysisError, unparse, walk_no_nested
from .common import (root_of_expr, path_from_param, dominates, const_value, gate_with, floor, call_name, is_call_to)
from .c03 import contents_stores, is_attr, same_object, is_items_of_contents, is_old_entry, strip_zero_norm

PRIMS = ('transfer', '_transfer', '_transfer_slice')


def run(ctx):
    from .configtime import derived_values as _derived
    _derived(ctx, 'C01.R3', ('Slicer', 'PlateSlicer', 'Plate'))
    from .configtime import decisions_not_taken_on_display_values as _coarse
    _coarse(ctx, 'C01.R3', ('Container', 'Plate', 'PlateSlicer', 'Recipe', 'RecipeStep'))
    symmetric_update(ctx)
    # the per-substance update finds the destination's entry through the key laws of Substance
    from .identity import identity_discipline
    identity_discipline(ctx, 'C01.R1', classes=('Substance',), memoised=False)
    n = result_threading(ctx)
    from .c08 import writeback_origin, operands_written_back
    writeback_origin(ctx, 'C01.R2')
    operands_written_back(ctx, 'C01.R2')
    floor(ctx, 'call sites of pairwise transfer primitives', n, 5)
    writeback_locality(ctx)
    from .c02 import vectorize_once
    vectorize_once(ctx, 'C01.R3')       # a per-well transfer applied twice debits / credits the shared side twice
    ownership(ctx)
    accumulator_is_view(ctx, 'C01.R2')
    from .c13 import distinct_wells
    distinct_wells(ctx, 'C01.R3')       # wells that are one object all change when one of them receives something
    alias_writeback(ctx)
    # two regions of one plate are updated through the one current plate object: both operands of a recipe transfer
    # must be that object (a private copy loses one side's update when the results are written back by name)
    from .c08 import current_operands
    current_operands(ctx, 'C01.R5', only=('transfer',))
    return {'explanation': 'Structural conservation rules. R1: in the per-substance loop of the transfer (over all '
                           'items of the source, no filter) the value added to the destination entry and the value '
                           'subtracted from the source entry are the same definition (one SSA value), under the same '
                           'key and the same rounding. R2: at every call of a pairwise primitive both results are '
                           'threaded back to the location their argument was read from (same l-value, or the position '
                           'of the per-well function\'s return that apply/set writes back). R3: Slicer.apply/set write '
                           'exactly the keys they read. R4: who writes contents/volume/wells (reported; each writer is '
                           'subject to C04/C10). R5: where two results of one operation are stored into locations that '
                           'may alias, a gate must exclude the alias. Not decided: numerical conservation under '
                           'rounding for arbitrary geometries.'}


# ------------------------------------------------------------------------------------------------ R1
def no_bulk_contents_writes(ctx, rule):
    """Besides the per-substance loop nothing in the transfer writes contents wholesale: `x.contents.update(..)`,
    `x.contents = ..` or `x.contents |= ..` replace the amounts the receiver already holds instead of adding to them."""
    plain = ctx.model.plain()
    fi = plain.func('Container._transfer')
    bad = []
    for x in ast.walk(fi.node):
        if isinstance(x, ast.Call) and isinstance(x.func, ast.Attribute) and x.func.attr in ('update', 'clear', 'setdefault', 'pop') and \
                isinstance(x.func.value, ast.Attribute) and x.func.value.attr == 'contents':
            bad.append(x)
        if isinstance(x, (ast.Assign, ast.AugAssign)):
            for t in (x.targets if isinstance(x, ast.Assign) else [x.target]):
                if isinstance(t, ast.Attribute) and t.attr == 'contents':
                    bad.append(x)
    ctx.ob(rule, ctx.model.func('Container._transfer'), (bad[0].lineno if bad else fi.node.lineno),
           'the transfer changes contents entry by entry (old amount plus / minus the moved amount), never wholesale', not bad,
           fact=(f"`{unparse(bad[0], 70)}`" if bad else 'no update() / assignment of a whole contents dictionary'),
           why='what the destination already held of a substance is overwritten by what arrives (or what the source held is dropped): '
               'the totals over both sides change', key='wholesale contents write in _transfer')


def symmetric_update(ctx):
    no_bulk_contents_writes(ctx, 'C01.R1')
    fi = ctx.model.func('Container._transfer')
    ff = ctx.flow('Container._transfer')
    cs = contents_stores(ff)
    loops = {}
    for stmt, obj, okey, value, whole, rt, before in cs:
        if whole or not before.loops:
            continue
        loops.setdefault(id(before.loops[-1][0]), []).append((stmt, obj, okey, value, rt, before))
    cands = [v for v in loops.values() if len({x[2] for x in v}) >= 2]
    if not cands:
        raise AnalysisError('Container._transfer: per-substance loop writing two containers not found')
    stores = cands[0]
    loop = ff.state_before(stores[0][0]).loops[-1][0]
    it = ff.resolved.get(id(loop))
    # the loop ranges over all items of the container that is subtracted from, without a filter
    plus, minus, other = [], [], []
    for stmt, obj, okey, value, rt, before in stores:
        value = strip_zero_norm(value)
        while isinstance(value, Ref) and not isinstance(value.value, Phi):
            value = value.value          # a temporary holding the whole new entry (`remaining = round(old - moved)`)
        leaves = signed_leaves(value, follow=False)
        moved = [(s, l) for s, l in leaves if s in (1, -1) and not _is_old_entry(l, rt)]
        if const_value(value) is not None and not moved:
            other.append((stmt, okey, value, before, rt))
            continue
        if len(moved) != 1:
            ctx.ob('C01.R1', fi, stmt.lineno, f"per-substance update of `{okey}`", False,
                   fact=f"value = {show(value, 90)}", why='the update is not old entry +/- one moved amount',
                   key=f"update shape {okey}")
            continue
        (sign, leaf), = moved
        old = [(s, l) for s, l in leaves if _is_old_entry(l, rt)]
        (plus if sign > 0 else minus).append((stmt, okey, leaf, old, value, rt, before, obj))
    ok_loop = is_items_of_contents(it)
    src_obj = strip_refs(it).func.value.value if ok_loop else None
    ctx.ob('C01.R1', fi, loop.lineno, 'the update loop ranges over all items of the source contents',
           ok_loop and bool(minus) and same_object(src_obj, minus[0][7]), fact=f"for .. in {show(it, 60)}",
           why='the loop does not range over the contents of the container that is depleted',
           key='update loop domain')
    ctrl = [n for n in ast.walk(loop) if isinstance(n, (ast.Continue, ast.Break))]
    entry_facts = set(ff.state_before(loop).facts)
    guarded = [s for s in plus + minus if set(s[6].facts) - entry_facts - _loop_entry_extra(s[6])]
    ctx.ob('C01.R1', fi, loop.lineno, 'no substance is skipped (no filter, continue or break in the update loop)',
           not ctrl and not guarded, fact=f"{len(ctrl)} continue/break, {len(guarded)} guarded updates",
           why='some substances are moved on one side only or not at all', key='update loop filter')
    ok = len(plus) == 1 and len(minus) == 1
    fact = f"{len(plus)} additive and {len(minus)} subtractive update(s)"
    if ok:
        p, m = plus[0], minus[0]
        same_def = p[2] is m[2] or (isinstance(p[2], Ref) and isinstance(m[2], Ref) and p[2].defid == m[2].defid)
        same_key = same_value(p[5].slice, m[5].slice) and isinstance(strip_refs(p[5].slice), LoopVar) and \
            strip_refs(p[5].slice).path == (0,)
        both_old = len(p[3]) == 1 and len(m[3]) == 1 and p[3][0][0] == 1 and m[3][0][0] == 1
        same_round = _round_sig(p[4]) == _round_sig(m[4])
        # the moved amount enters unscaled: value = round(old + moved) / round(old - moved)
        from ..flow import unround
        exact = _exact_sum(unround(p[4])[0], p[2], ast.Add) and _exact_sum(unround(m[4])[0], m[2], ast.Sub)
        ok = same_def and same_key and both_old and same_round and exact
        fact = (f"+{show(p[2], 30)} into {p[1]}, -{show(m[2], 30)} from {m[1]}; same definition: {same_def}; "
                f"same key: {same_key}; old entries kept: {both_old}; same rounding: {same_round}; unscaled: {exact}")
        # the moved amount is this item's own amount times the ratio
        mv = strip_refs(p[2])
        own = isinstance(mv, ast.BinOp) and isinstance(mv.op, ast.Mult) and any(
            isinstance(strip_refs(x), LoopVar) and strip_refs(x).path == (1,) and strip_refs(x).loop is loop
            for x in (mv.left, mv.right))
        ctx.ob('C01.R1', fi, p[0].lineno, "the moved amount is the item's own amount times the transfer ratio", own,
               fact=f"moved = {show(mv, 60)}", why='the amount moved is not a fraction of that substance',
               key='moved amount')
    ctx.ob('C01.R1', fi, loop.lineno, 'what is added to the destination is exactly what is subtracted from the source',
           ok, fact=fact, why='the two sides of the transfer move different amounts: material is created or lost',
           key='asymmetric update')
    for stmt, okey, value, before, rt in other:
        # a constant store is only the -0.0 normalisation: guarded by equality of that entry with zero
        def zero_eq(c, rt=rt):
            return c.op == 'eq' and any(const_value(x) == 0 for x in (c.left, c.right))
        g = [c for c in facts_at(before) if zero_eq(c)]
        ctx.ob('C01.R1', fi, stmt.lineno, f"constant store to `{okey}` only normalises a (negative) zero",
               const_value(value) == 0 and bool(g), fact=str(g[0]) if g else 'unguarded',
               why='an entry is overwritten with a constant', key='constant overwrite')


def _exact_sum(v, moved, op):
    """v is `old <op> moved` (or `moved + old`) with the moved amount itself, not a multiple of it."""
    v = strip_refs(v) if not isinstance(v, ast.BinOp) else v
    if not (isinstance(v, ast.BinOp) and isinstance(v.op, op)):
        return False
    if v.right is moved or (isinstance(v.right, Ref) and isinstance(moved, Ref) and v.right.defid == moved.defid):
        return True
    return op is ast.Add and (v.left is moved or (isinstance(v.left, Ref) and isinstance(moved, Ref) and v.left.defid == moved.defid))


def _loop_entry_extra(state):
    return set()


def _is_old_entry(leaf, rt):
    return is_old_entry(leaf, rt)


def _round_sig(value):
    v = strip_refs(value)
    if isinstance(v, ast.Call) and isinstance(v.func, ast.Name) and v.func.id == 'round':
        return 'round:' + (show(v.args[1]) if len(v.args) > 1 else '')
    return 'none'


# ------------------------------------------------------------------------------------------------ R2
def prim_calls(ff):
    out = []
    for c, s, b in ff.calls:
        f = c.func
        if not isinstance(f, ast.Attribute) or f.attr not in PRIMS:
            continue
        recv = f.value
        if isinstance(recv, ast.Name) and recv.id in ('Container', 'Plate', 'PlateSlicer'):
            if len(c.args) != 3:
                continue
            src, dst = c.args[0], c.args[1]
        else:
            r = strip_refs(recv)
            if isinstance(r, Param) and r.func is not None and r.func.cls is not None and r.func.cls.name == 'Recipe':
                continue
            if len(c.args) == 2:
                src, dst = c.args[0], recv           # dest._transfer(source, q)
            else:
                continue
        out.append((c, s, b, src, dst))
    return out


def result_threading(ctx):
    model = ctx.model
    n = 0
    for fi in model.functions('pyplate/pyplate.py'):
        if fi.parent is not None or fi.cls is None or fi.cls.name == 'Recipe' and fi.name != 'bake':
            continue
        ff = ctx.flow(fi.qualname)
        n += _thread_in(ctx, fi, ff, None)
        for call, stmt, before in ff.registrations:
            for a in call.args:
                if isinstance(a, FuncRef):
                    sub = model.func_of_node.get(id(a.node))
                    if sub is None or isinstance(sub.node, ast.Lambda):
                        continue
                    sf = FuncFlow(sub, model, outer_state=before)
                    n += _thread_in(ctx, sub, sf, (call, stmt, before, ff))
    return n


def _raw_arg(c, idx_or_recv):
    return idx_or_recv


def _thread_in(ctx, fi, ff, registration):
    n = 0
    for c, s, b, src, dst in prim_calls(ff):
        n += 1
        raw = c.orig if hasattr(c, 'orig') else c
        recv_form = not (isinstance(raw.func.value, ast.Name) and raw.func.value.id in ('Container', 'Plate', 'PlateSlicer'))
        raw_src = raw.args[0]
        raw_dst = raw.func.value if recv_form else raw.args[1]
        inst = f"results of `{unparse(raw, 70)}`"
        ok, fact, why = False, '', 'a result of the pairwise operation is dropped or written back to the wrong place'
        if isinstance(s, ast.Return) and s.value is raw:
            # returned directly: the caller receives (source', destination') in the callee's order
            ok, fact = _order_matches(ctx, fi, ff, c, src, dst)
        elif isinstance(s, ast.Assign) and s.value is raw and len(s.targets) == 1 and \
                isinstance(s.targets[0], (ast.Tuple, ast.List)) and len(s.targets[0].elts) == 2:
            t0, t1 = s.targets[0].elts
            k0, k1 = pathkey(t0), pathkey(t1)
            same0 = k0 is not None and k0 == pathkey(raw_src)
            same1 = k1 is not None and k1 == pathkey(raw_dst)
            if same0 and same1:
                ok, fact = True, f"({k0}, {k1}) = op({k0}, {k1}, ..): both results replace their operands"
            elif k0 is not None and k1 is not None and k0 == pathkey(raw_dst) and k1 == pathkey(raw_src):
                ok, fact = False, f"results are swapped: ({k0}, {k1}) = op({pathkey(raw_src)}, {pathkey(raw_dst)})"
            else:
                fact = f"({k0}, {k1}) = op({pathkey(raw_src)}, {pathkey(raw_dst)}, ..)"
                # new names: both must be used afterwards
                used = _names_used_after(fi, s, [k for k in (k0, k1) if k])
                ok = (same0 or k0 in used) and (same1 or k1 in used)
                fact += f"; later uses: {sorted(used)}"
        else:
            fact = f"statement `{unparse(s, 60)}` neither unpacks both results nor returns them"
        ctx.ob('C01.R2', fi, getattr(s, 'lineno', 0), inst, ok, fact=fact, why=why,
               key=f"result threading {call_name(c)[1]} in {fi.name}")
        # a per-well closure must return the updated element it was given
        if registration is not None and ok:
            _closure_return(ctx, fi, ff, c, s, src, dst, registration)
    return n


def _order_matches(ctx, fi, ff, c, src, dst):
    """`return dest._transfer(source, q)` inside f(source, destination, ..): the callee returns (source', dest')."""
    callee_name = c.func.attr
    cands = [m for m in ctx.model.methods_named(callee_name) if m.cls.name in ('Container', 'PlateSlicer', 'Plate')]
    facts = []
    ok = bool(cands)
    for m in cands:
        mf = ctx.flow(m.qualname)
        for ex in mf.normal_exits():
            v = strip_refs(ex.value)
            if isinstance(v, ast.Call):
                continue        # delegates again: checked at that call site
            if not (isinstance(v, ast.Tuple) and len(v.elts) == 2):
                ok = False
                facts.append(f"{m.qualname} returns {show(v, 40)}")
                continue
            names = m.param_names(drop_self=False)
            if m.is_static:
                src_p, dst_p = names[0], names[1]
            else:
                dst_p, src_p = names[0], names[1]
            r0 = _derives_from(v.elts[0])
            r1 = _derives_from(v.elts[1])
            good = src_p in r0 and dst_p in r1 and not (dst_p in r0 and src_p not in r0)
            facts.append(f"{m.qualname} returns ({'/'.join(sorted(r0)) or '?'}', {'/'.join(sorted(r1)) or '?'}')")
            if not good:
                ok = False
    return ok, '; '.join(facts[:4])


def _derives_from(e):
    """Names of the parameters a returned object derives from (through copies, operations, fields)."""
    out = set()
    for n in deep_walk(e):
        if isinstance(n, Param):
            out.add(n.name)
    return out


def _names_used_after(fi, stmt, names):
    used = set()
    top = fi.node
    for n in ast.walk(top):
        if isinstance(n, ast.Name) and isinstance(n.ctx, ast.Load) and n.id in names and \
                getattr(n, 'lineno', 0) > stmt.lineno:
            used.add(n.id)
    return used


def _closure_return(ctx, fi, ff, c, s, src, dst, registration):
    """The closure is applied per well: the well it was given must come back updated at the same position."""
    params = [a.arg for a in fi.node.args.args]
    rets = [e for e in ff.exits if e.kind == 'return']
    ok, fact = bool(rets), ''
    for ex in rets:
        v = ex.value
        elts = list(v.elts) if isinstance(strip_refs(v), ast.Tuple) and not isinstance(v, Sym) else [v]
        if isinstance(v, Ref) and isinstance(v.value, ast.Tuple):
            elts = list(v.value.elts)
        if len(elts) != len(params):
            ok = False
            fact = f"returns {len(elts)} value(s) for {len(params)} element parameter(s)"
            continue
        for p, r in zip(params, elts):
            rr = r
            idx = None
            while isinstance(rr, Ref):
                rr = rr.value
            if isinstance(rr, Elt) and isinstance(strip_refs(rr.value), ast.Call) and strip_refs(rr.value) is c or \
                    (isinstance(rr, Elt) and rr.value is c):
                idx = rr.index
            want = None
            for i, a in enumerate((src, dst)):
                a0 = strip_refs(a)
                if isinstance(a0, Param) and a0.name == p or (hasattr(a0, 'cls') and getattr(a0, 'name', None) == p):
                    want = i
            good = idx is not None and want is not None and idx == want
            if not good:
                ok = False
            fact += f"{p} -> result[{idx}] (argument position {want}); "
    ctx.ob('C01.R2', fi, fi.node.lineno, f"per-well function {fi.qualname} returns the updated well it was given", ok,
           fact=fact, why='the well written back is not the result of the transfer for that well',
           key=f"closure return {fi.qualname}")


# ------------------------------------------------------------------------------------------------ R3
def writeback_locality(ctx):
    model = ctx.model
    sl = model.cls('Slicer')
    for name in ('apply', 'set', 'get'):
        if name not in sl.methods:
            raise AnalysisError(f"Slicer.{name} vanished")
    nwrites = 0
    for name in ('apply', 'set'):
        fi = sl.methods[name]
        ff = ctx.flow(fi.qualname)
        sets = [(c.args[0], c.args[1], c.func.value, s, b) for c, s, b in ff.calls
                if isinstance(c.func, ast.Attribute) and c.func.attr == '__setitem__' and len(c.args) == 2]
        for stmt, target, skey, value, before, rt in ff.stores:
            # index syntax: self.array[key] = value
            if isinstance(rt, ast.Subscript) and path_from_param(rt.value) == ('self', ['array']):
                sets.append((rt.slice, value, rt.value, stmt, before))
        for key, val, recv, s, b in sets:
            nwrites += 1
            ok_recv = path_from_param(recv) == ('self', ['array'])
            kk = strip_refs(key)
            ok_key = path_from_param(key) == ('self', ['slices']) or \
                (isinstance(kk, LoopVar) and _iter_is_slices(kk.iter))
            ok_val, vfact = True, ''
            if name == 'apply':
                reads = [(n.args[0], n.func.value) for n in deep_walk(val) if isinstance(n, ast.Call) and
                         isinstance(n.func, ast.Attribute) and n.func.attr == '__getitem__' and n.args]
                reads += [(n.slice, n.value) for n in deep_walk(val) if isinstance(n, ast.Subscript) and
                          path_from_param(n.value) == ('self', ['array'])]
                ok_val = bool(reads) and all(same_value(r[0], key) or strip_refs(r[0]) is kk for r in reads) \
                    and all(path_from_param(r[1]) == ('self', ['array']) for r in reads)
                vfact = f"value = f(self.array[{', '.join(show(r[0], 30) for r in reads[:2])}])"
            else:
                vv = strip_refs(val)
                if isinstance(kk, LoopVar):
                    inner = [n for n in deep_walk(val) if isinstance(n, LoopVar)]
                    ok_val = any(n.loop is kk.loop and n.path != kk.path for n in inner) or \
                        (not inner and any(isinstance(n, Param) and n.name != 'self' for n in deep_walk(val)))
                    vfact = 'value and key come from the same zip position' if inner else 'the one value given, for every listed element'
                else:
                    ok_val = any(isinstance(n, Param) and n.name != 'self' for n in deep_walk(val))
                    vfact = 'the values given'
            if path_from_param(key) == ('self', ['slices']):
                # the array can be indexed by the stored selection as a whole only when it is one (row, column) pair:
                # a list of such pairs is not an index (IndexError) - every list selection must be handled entry by entry
                def not_a_list(c):
                    t = strip_refs(c.left)
                    return c.op == 'falsy' and isinstance(t, ast.Call) and getattr(t.func, 'id', '') == 'isinstance' and \
                        path_from_param(t.args[0]) == ('self', ['slices']) and \
                        'list' in unparse(t.args[1].orig if hasattr(t.args[1], 'orig') else t.args[1])
                g = gate_with(b, not_a_list) if b is not None else []
                ctx.ob('C01.R3', fi, s.lineno, f"Slicer.{name}: the selection used as one index is not a list of selections",
                       bool(g), fact=str(g[0]) if g else 'no `isinstance(self.slices, list)` test on this path',
                       why='for a list selection numpy raises IndexError: the operation fails for list-addressed wells',
                       key=f"list selection used as an index in {name}")
            ctx.ob('C01.R3', fi, s.lineno, f"Slicer.{name}: __setitem__({show(key, 30)}, ..)", ok_recv and ok_key and ok_val,
                   fact=f"key is {'the stored selection' if ok_key else show(key, 30)}; {vfact}",
                   why='a cell other than the one read / addressed is written', key=f"write-back key in {name}")
    floor(ctx, 'Slicer write-backs', nwrites, 5)
    # zip() stops at the shorter sequence: where set() pairs the listed entries with the given values, a mismatch in
    # number must have been refused before (otherwise the surplus wells silently keep their old contents)
    sfi = sl.methods['set']
    sff = ctx.flow(sfi.qualname)
    nzip = 0
    for lp in walk_no_nested(sfi.node):
        if not (isinstance(lp, ast.For) and isinstance(lp.iter, ast.Call) and getattr(lp.iter.func, 'id', '') == 'zip'):
            continue
        if not any('self.slices' in unparse(a) for a in lp.iter.args):
            continue
        nzip += 1
        st = sff.state_before(lp)
        gated = False
        for c in (facts_at(st) if st is not None else []):
            if c.op != 'eq' or c.right is None or not c.fact.exc:
                continue
            txt = {show(c.left, 200), show(c.right, 200)}
            sides = ' '.join(txt)
            if 'values' in sides and ('slices' in sides or 'self.shape' in sides or 'self.size' in sides or 'shape' in sides):
                gated = True
        ctx.ob('C01.R3', sfi, lp.lineno, 'Slicer.set: values and listed entries are paired only when their numbers agree',
               gated, fact='a refusing comparison of the two lengths / shapes dominates the zip' if gated else
               'no length / shape comparison that raises on mismatch before the zip',
               why='zip stops at the shorter sequence: surplus entries keep their old contents (or surplus values are dropped) '
                   'without an error', key='zip without length gate in set')
    ctx.count('zip_pairings_in_set', nzip)
    # apply is a read-modify-write of the array itself, entry by entry: every normal path stores f(self.array[K]) back
    # under K.  Going through get() first reads a *copy* for list selections (numpy fancy indexing), so nothing written
    # to it reaches the array; get() followed by set() reads every entry before any is written.
    api = sl.methods['apply']
    aff = ctx.flow(api.qualname)

    # local names for the array itself (`array = self.array`, also inside a tuple assignment) are the array
    array_names = {'self.array'}
    for st in ast.walk(api.node):
        if isinstance(st, ast.Assign) and len(st.targets) == 1:
            t, v = st.targets[0], st.value
            if isinstance(t, ast.Name) and unparse(v) == 'self.array':
                array_names.add(t.id)
            if isinstance(t, ast.Tuple) and isinstance(v, ast.Tuple) and len(t.elts) == len(v.elts):
                for tt, vv in zip(t.elts, v.elts):
                    if isinstance(tt, ast.Name) and unparse(vv) == 'self.array':
                        array_names.add(tt.id)

    def _direct_write(n):
        if isinstance(n, ast.Call) and isinstance(n.func, ast.Attribute) and n.func.attr == '__setitem__' and \
                unparse(n.func.value) in array_names:
            return True
        return isinstance(n, ast.Subscript) and isinstance(n.ctx, ast.Store) and unparse(n.value) in array_names
    def _min_writes(stmts):
        # fewest direct writes on a path through stmts; a loop over the listed entries runs at least once
        total = 0
        for st in stmts:
            if isinstance(st, ast.If):
                total += min(_min_writes(st.body), _min_writes(st.orelse))
            elif isinstance(st, (ast.For, ast.While, ast.With, ast.Try)):
                total += _min_writes(st.body)
            elif isinstance(st, (ast.Return, ast.Raise)):
                total += sum(1 for x in ast.walk(st) if _direct_write(x))
                break
            elif isinstance(st, (ast.FunctionDef, ast.ClassDef)):
                continue
            else:
                total += sum(1 for x in ast.walk(st) if _direct_write(x))
        return total
    lo = _min_writes(api.node.body)
    hi = sum(1 for x in ast.walk(api.node) if _direct_write(x))
    indirect = [unparse(c, 50) for c, s_, b_ in aff.calls if isinstance(c.func, ast.Attribute) and
                c.func.attr in ('set', 'get') and unparse(c.func.value) == 'self']
    ok_rmw = lo >= 1
    ctx.ob('C01.R3', api, api.node.lineno, 'Slicer.apply stores f(self.array[K]) back into self.array[K] on every path',
           ok_rmw, fact=f"direct writes to self.array per path: ({lo}, {hi})" + (f"; goes through {indirect[:2]}" if indirect else ''),
           why='the results are written into what get() returned (a copy for a list of wells: they never reach the plate) '
               'or every entry is read before any is written (a well listed twice is updated from one snapshot)',
           key='apply is not a direct read-modify-write')
    g = sl.methods['get']
    fg = ctx.flow('Slicer.get')
    reads = [(c, s, b) for c, s, b in fg.calls if isinstance(c.func, ast.Attribute) and c.func.attr == '__getitem__']
    for ex in fg.normal_exits():
        for n in deep_walk(ex.value):
            if isinstance(n, ast.Subscript) and path_from_param(n.value) == ('self', ['array']):
                reads.append((ast.Call(func=ast.Attribute(value=n.value, attr='__getitem__', ctx=ast.Load()), args=[n.slice], keywords=[]), None, None))
    maps = [(c, s, b) for c, s, b in fg.calls if isinstance(c.func, ast.Name) and c.func.id == 'map']
    def _sel_key(k):
        kk = strip_refs(k)
        return path_from_param(k) == ('self', ['slices']) or (isinstance(kk, LoopVar) and _iter_is_slices(kk.iter))
    ok = all(_sel_key(c.args[0]) for c, s, b in reads) and \
        all(len(c.args) == 2 and path_from_param(c.args[1]) == ('self', ['slices']) for c, s, b in maps) and \
        bool(reads or maps)
    ctx.ob('C01.R3', g, g.node.lineno, 'Slicer.get reads exactly the stored selection (same keys as apply/set)', ok,
           fact=f"{len(reads)} direct read(s), {len(maps)} mapped read(s) of self.slices",
           why='get and apply/set disagree on the cells of a selection', key='get key')


def _iter_is_slices(it):
    it = strip_refs(it)
    if path_from_param(it) == ('self', ['slices']):
        return True
    if isinstance(it, ast.Call) and isinstance(it.func, ast.Name) and it.func.id == 'zip':
        return any(path_from_param(a) == ('self', ['slices']) for a in it.args)
    return False


# ------------------------------------------------------------------------------------------------ R4
def ownership(ctx):
    model = ctx.model
    writers = {'contents': set(), 'volume': set(), 'wells': set()}
    for fi in model.functions():
        if fi.parent is not None:
            continue
        for n in ast.walk(fi.node):
            if isinstance(n, ast.Attribute) and isinstance(n.ctx, ast.Store) and n.attr in writers:
                writers[n.attr].add(fi.qualname)
            if isinstance(n, ast.Subscript) and isinstance(n.ctx, ast.Store) and isinstance(n.value, ast.Attribute) \
                    and n.value.attr in writers:
                writers[n.value.attr].add(fi.qualname)
    for attr, ws in writers.items():
        floor(ctx, f"writers of .{attr}", len(ws), 1)
        outside = sorted(w for w in ws if w.split('.')[0] not in ('Container', 'Plate', 'PlateSlicer', 'Slicer'))
        ctx.ob('C01.R4', 'Container' if attr != 'wells' else 'Plate', 0, f"writers of .{attr}", not outside,
               fact=f"{sorted(ws)}", why=f"{outside} write container state from outside the value classes",
               key=f"foreign writer of {attr}", nontrivial=False)


# ------------------------------------------------------------------------------------------------ R5
def alias_writeback(ctx):
    model = ctx.model
    # (a) bake: the two results of a transfer step are stored under two names that may be equal
    bake = model.func('Recipe.bake')
    ff = ctx.flow('Recipe.bake')
    res_stores = [s for s in ff.stores if s[2] and s[2].startswith('self.results[')]
    pairs = []
    for i, a in enumerate(res_stores):
        for b in res_stores[i + 1:]:
            ca, cb = _op_source(a[3]), _op_source(b[3])
            if ca is not None and cb is not None and ca[0] is cb[0] and ca[1] != cb[1] and \
                    not same_value(a[5].slice, b[5].slice):
                pairs.append((a, b, ca[0]))
    n = 0
    for a, b, call in pairs:
        name = call_name(call)[1]
        # results created by the step itself cannot alias: `uses` has refused an existing name
        if name in ('create_solution', 'create_solution_from'):
            ctx.ob('C01.R5', bake, a[0].lineno, f"write-back of the two results of {name}", True,
                   fact='one of the names was declared by this step through uses(), which refuses an existing name',
                   key=f"alias write-back {name}", nontrivial=False)
            continue
        n += 1
        ka, kb = a[5].slice, b[5].slice

        def distinct(c, ka=ka, kb=kb):
            return c.op == 'ne' and ((same_value(c.left, ka) and same_value(c.right, kb)) or
                                     (same_value(c.left, kb) and same_value(c.right, ka)))
        g = gate_with(a[4], distinct)
        if not g and name == 'transfer':
            g = _declaration_gate(ctx)
        ctx.ob('C01.R5', bake, a[0].lineno, f"write-back of the two results of {name} under `{show(ka, 20)}` and `{show(kb, 20)}`",
               bool(g), fact=str(g[0]) if g else 'no gate excludes equal names; the second store overwrites the first',
               why='when source and destination are the same declared object the source-side result is lost '
                   '(material is created)', key=f"alias write-back {name}")
    floor(ctx, 'paired write-backs in bake', len(pairs), 1)
    shared_plate_copy(ctx, 'C01.R5')


def shared_plate_copy(ctx, rule, identity_only=False):
    """PlateSlicer._transfer: two slicer handles made to share one plate copy."""
    model = ctx.model
    fi = model.func('PlateSlicer._transfer')
    fft = ctx.flow('PlateSlicer._transfer')
    shared = []
    for n_ in walk_no_nested(fi.node):
        if isinstance(n_, ast.Assign) and len(n_.targets) >= 2 and \
                all(isinstance(t, ast.Attribute) and t.attr == 'plate' for t in n_.targets):
            shared.append(n_)
    for st in shared:
        roots = [pathkey(t.value) for t in st.targets]
        # the copy of one plate replaces both: only valid if both slices refer to the very same plate object
        keys = {pathkey(t) for t in st.targets}
        same_obj = False
        # `==` between two plates is the identity of the objects only as long as Plate defines no equality of its own
        plate_cls = model.classes.get('Plate')
        own_eq = [m.name for m in plate_cls.node.body if isinstance(m, (ast.FunctionDef, ast.Assign)) and
                  (getattr(m, 'name', None) in ('__eq__', '__ne__') or
                   any(isinstance(t, ast.Name) and t.id in ('__eq__', '__ne__') for t in getattr(m, 'targets', [])))] \
            if plate_cls is not None else []
        by_value = False
        for cmp_ in facts_at(fft.state_before(st)):
            if cmp_.op in ('eq', 'is') and cmp_.right is not None and \
                    {getattr(cmp_.left, 'pkey', None), getattr(cmp_.right, 'pkey', None)} == keys:
                if cmp_.op == 'eq' and own_eq:
                    by_value = True
                    continue
                same_obj = True
        ctx.ob(rule, fi, st.lineno, f"{sorted(keys)} are replaced by one copy only when they are the same plate object",
               same_obj, fact=('guarded by equality / identity of the two plate objects' if same_obj else
                               (f"the guard compares with `==` and Plate defines {own_eq[0]}: equal plates are not the same plate"
                                if by_value else 'the branch is not guarded by a comparison of the two plate objects themselves')),
               why='two different plates (e.g. with equal names) are treated as one: the source wells are read from a '
                   'copy of the destination plate', key='shared plate copy without identity test')
        if identity_only:
            continue
        post = fft.post.get(id(st))
        writes = [(c, s, b) for c, s, b in fft.calls if isinstance(c.func, ast.Attribute) and c.func.attr in ('set', 'apply')
                  and pathkey(c.func.value) in roots and fft.seq(s) > fft.seq(st)]
        gated = False
        pre_alias = set(fft.state_before(st).facts)
        for c, s, b in writes:
            for fid, f_ in b.facts.items():
                if fid in pre_alias or not f_.exc:
                    continue
                mentions = _mentions_all(f_.test, roots)
                t0 = f_.test
                while isinstance(t0, ast.UnaryOp):
                    t0 = t0.operand
                shape_test = isinstance(t0, ast.Compare) and any(
                    isinstance(strip_refs(x), ast.Attribute) and strip_refs(x).attr in ('size', 'shape')
                    for x in [t0.left] + list(t0.comparators))
                if mentions and not shape_test and not _through_get(f_.test):
                    gated = True
        # the gate may sit in the same block as the aliasing assignment (it then holds on every path from there on)
        from .common import block_chain
        chain = block_chain(st)
        if chain and not gated:
            blk, idx, parent, fname = chain[0]
            for later in blk[idx + 1:]:
                if isinstance(later, ast.If) and later.body and isinstance(later.body[-1], ast.Raise) and id(later) in fft.resolved:
                    t = fft.resolved[id(later)]
                    mentions = _mentions_all(t, roots)
                    t0 = t
                    while isinstance(t0, ast.UnaryOp):
                        t0 = t0.operand
                    shape_test = isinstance(t0, ast.Compare) and any(
                        isinstance(strip_refs(x), ast.Attribute) and strip_refs(x).attr in ('size', 'shape')
                        for x in [t0.left] + list(t0.comparators))
                    from ..flow import exc_name
                    if mentions and not shape_test and not _through_get(t) and exc_name(later.body[-1]) == 'ValueError':
                        gated = True
        ctx.ob(rule, fi, st.lineno, f"slices {roots} share one plate copy and are both written back", gated or not writes,
               fact=f"{len(writes)} write-backs after `{unparse(st, 60)}`; no gate on overlapping regions" if not gated else 'gated',
               why='for overlapping source and destination regions of one plate the second write-back overwrites '
                   'the first (material is created)', key='shared plate write-back')
    ctx.count('shared_plate_aliases', len(shared))


def _through_get(test):
    """Is the test decided on what `Slicer.get()` handed out?  For a list of wells that is a new array each time: two
    lists that name the same well share no memory and compare unequal as arrays of copies."""
    return any(isinstance(x, ast.Call) and isinstance(x.func, ast.Attribute) and x.func.attr == 'get' and not x.args
               for x in deep_walk(test))


def _mentions_all(test, roots):
    """Does the resolved test read every one of the objects `roots` (the variable itself or anything below it)?"""
    seen = set()
    for x in deep_walk(test):
        for k in (x.name if isinstance(x, Ref) else None, getattr(x, 'pkey', None)):
            if k:
                seen.add(k.split('.')[0].split('[')[0])
    return all(r in seen for r in roots)


def _declaration_gate(ctx):
    """Recipe.transfer refuses a container as its own destination (ValueError) when the step is declared: then the
    two names written back by bake cannot be equal for containers (for two slices of one plate both results are the
    same shared plate object, see (b))."""
    fi = ctx.model.func('Recipe.transfer')
    ff = ctx.flow('Recipe.transfer')
    params = fi.param_names()
    for ex in ff.raise_exits():
        if ex.exc != 'ValueError':
            continue
        for c in facts_at(ex.state):
            if c.op != 'eq' or c.right is None:
                continue
            def names(e):
                out = set()
                for n in deep_walk(e):
                    if isinstance(n, ast.Attribute) and n.attr == 'name':
                        r = root_of_expr(n.value)
                        if isinstance(r, Param):
                            out.add(r.name)
                return out
            if names(c.left) | names(c.right) >= set(params[:2]):
                # the refusal must not depend on anything but the operand types
                return [f"Recipe.transfer: `{c}` -> ValueError at declaration"]
    return []


def _op_source(value):
    """(call, index) if value is (a field of) the index-th result of a pairwise operation."""
    seen = set()
    todo = [value]
    while todo:
        v = todo.pop()
        if id(v) in seen or v is None:
            continue
        seen.add(id(v))
        if isinstance(v, Ref):
            todo.append(v.value)
        elif isinstance(v, Phi):
            todo.extend(v.options)
        elif isinstance(v, ast.IfExp):
            todo.extend([v.body, v.orelse])
        elif isinstance(v, ast.Attribute):
            todo.append(v.value)
        elif isinstance(v, Elt):
            c = strip_refs(v.value)
            if isinstance(c, ast.Call) and call_name(c)[1] in ('transfer', 'create_solution', 'create_solution_from'):
                return c, v.index
    return None


COPYING = {'flatten', 'copy', 'tolist', 'astype', 'ravel', 'take', 'compress', 'repeat', 'choose'}


def accumulator_is_view(ctx, rule):
    """A per-well closure that accumulates into an element of an outer array (`acc[0] = ...`) changes the plate only if
    `acc` is a view of the plate's array: what `get()` returns for a (row, column) selection, or a basic index of it.
    `.flatten()`, `.copy()`, `numpy.array(..)`, `list(..)`, `.tolist()`, `.astype(..)`, `.ravel()` make a copy: the
    receiving well is updated in the copy and the plate keeps its old contents.  An accumulator that is a fresh list
    (`acc = [to]`) is fine when its element is read back after the loop."""
    model = ctx.model
    n = 0
    for q in ('PlateSlicer._transfer', 'Container._transfer_slice'):
        fi = model.func(q)
        outer_defs = {}
        for st in walk_no_nested(fi.node):
            if isinstance(st, ast.Assign) and len(st.targets) == 1 and isinstance(st.targets[0], ast.Name):
                outer_defs.setdefault(st.targets[0].id, []).append(st)
        for sub in ast.walk(fi.node):
            if not isinstance(sub, (ast.FunctionDef, ast.Lambda)) or sub is fi.node:
                continue
            local = {a.arg for a in sub.args.args} | {x.id for x in ast.walk(sub) if isinstance(x, ast.Name) and
                                                      isinstance(x.ctx, ast.Store)}
            for st in ast.walk(sub):
                if not isinstance(st, ast.Assign):
                    continue
                targets = []
                for t in st.targets:
                    targets.extend(t.elts if isinstance(t, ast.Tuple) else [t])
                for t in targets:
                    base = t
                    while isinstance(base, ast.Subscript):
                        base = base.value
                    if not (isinstance(t, ast.Subscript) and isinstance(base, ast.Name) and base.id not in local
                            and base.id in outer_defs):
                        continue
                    for d in outer_defs[base.id]:
                        if d.lineno < sub.lineno and not any(x is d for x in ast.walk(sub)):
                            pass
                        v = d.value
                        n += 1
                        if isinstance(v, (ast.List, ast.Tuple)):
                            read_back = any(isinstance(x, ast.Subscript) and isinstance(x.ctx, ast.Load) and
                                            isinstance(x.value, ast.Name) and x.value.id == base.id and
                                            not any(y is x for y in ast.walk(sub)) for x in ast.walk(fi.node))
                            ctx.ob(rule, fi, d.lineno, f"{q}: accumulator `{base.id}` (a fresh list) is read back after the wells were visited",
                                   read_back, fact=unparse(d, 60), why='the receiving object is updated inside the list only: '
                                   'the result handed back is the old one', key=f"accumulator not read back: {base.id}")
                            continue
                        copies = [c.func.attr for c in ast.walk(v) if isinstance(c, ast.Call) and
                                  isinstance(c.func, ast.Attribute) and c.func.attr in COPYING]
                        copies += [unparse(c.func) for c in ast.walk(v) if isinstance(c, ast.Call) and
                                   unparse(c.func) in ('numpy.array', 'np.array', 'numpy.copy', 'np.copy', 'list', 'tuple',
                                                       'numpy.asarray', 'copy', 'deepcopy')]
                        from_get = any(isinstance(c, ast.Call) and isinstance(c.func, ast.Attribute) and c.func.attr == 'get'
                                       for c in ast.walk(v)) or 'array' in unparse(v) or 'wells' in unparse(v)
                        ctx.ob(rule, fi, d.lineno, f"{q}: accumulator `{base.id}` written by the per-well closure is a view of the plate's array",
                               from_get and not copies, fact=unparse(d, 60) + (f" (copying: {copies})" if copies else ''),
                               why='the closure updates an element of a copy: the receiving well of the plate keeps its old '
                                   'contents and what was taken from the source wells disappears',
                               key=f"accumulator is a copy: {base.id}")
    floor(ctx, 'accumulators of per-well closures', n, 2)

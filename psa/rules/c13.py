"""C13 - Every documented way of addressing wells selects the documented wells.
Index-convention typing (psa/idx.py) + definite assignment + label rules on Plate.__init__ (flow engine)."""
from __future__ import annotations

import ast

from .. import idx
from ..flow import Ref, Param, LoopVar, strip_refs, show, facts_at, normalise_fact, deep_walk
from ..model import AnalysisError, unparse, walk_no_nested
from .common import path_from_param, const_value, gate_with, floor, root_of_expr, dominates

CATEGORY_KEY = {
    'step': 'slice step is not gated to a positive integer',
    'start': 'start index outside the index conventions',
    'stop': 'stop index outside the index conventions',
    'axis': 'index resolved against the labels of the other axis',
    'source': 'index taken from another component of the selector',
    'extent': 'unaddressed axis is not selected completely',
    'shape': 'self.slices has the wrong shape',
    'unassigned': 'self.slices unassigned on a normal exit',
    'accept': 'malformed selector accepted',
    'never-accepted': 'documented selector form is never accepted',
    'error-type': 'rejection with an unexpected exception type',
    'order': 'list selector order is not preserved',
}


def _selector_wrappers(model):
    """[(name roles, statements, expression handed on as the selector)] for Plate.__getitem__ and for the part of
    PlateSlicer.__init__ in front of the call of Slicer.__init__."""
    out = []
    gi = model.classes['Plate'].methods.get('__getitem__') if 'Plate' in model.classes else None
    if gi is not None:
        body = [st for st in gi.node.body if not (isinstance(st, ast.Expr) and isinstance(st.value, ast.Constant))]
        names = gi.param_names(drop_self=False)
        last = body[-1] if body else None
        call_ = last.value if isinstance(last, ast.Return) and isinstance(last.value, ast.Call) else None
        item_arg = None
        if call_ is not None and getattr(call_.func, 'id', '') == 'PlateSlicer' and len(names) == 2:
            ps_ = model.classes.get('PlateSlicer')
            pnames = ps_.methods['__init__'].param_names() if ps_ is not None and '__init__' in ps_.methods else ['plate', 'item']
            bound = dict(zip(pnames, call_.args))
            bound.update({k.arg: k.value for k in call_.keywords if k.arg})
            if len(pnames) == 2:
                item_arg = bound.get(pnames[1])
        if item_arg is not None:
            out.append(({names[0]: 'plate', names[1]: 'item'}, body[:-1], item_arg))
        else:
            raise AnalysisError('Plate.__getitem__ no longer ends in `return PlateSlicer(self, <selector>)`')
    ps = model.classes.get('PlateSlicer')
    pinit = ps.methods.get('__init__') if ps is not None else None
    if pinit is not None:
        body = [st for st in pinit.node.body if not (isinstance(st, ast.Expr) and isinstance(st.value, ast.Constant))]
        names = pinit.param_names(drop_self=False)
        k = [i for i, st in enumerate(body) if any(isinstance(x, ast.Call) and isinstance(x.func, ast.Attribute) and
                                                    x.func.attr == '__init__' for x in ast.walk(st))]
        if k and len(names) == 3:
            call = [x for x in ast.walk(body[k[0]]) if isinstance(x, ast.Call) and isinstance(x.func, ast.Attribute) and
                    x.func.attr == '__init__'][0]
            args = list(call.args) + [kw.value for kw in call.keywords]
            if len(args) >= 4:
                stmts = [st for st in body[:k[0]] if not (isinstance(st, ast.Assign) and len(st.targets) == 1 and
                                                          isinstance(st.targets[0], ast.Attribute))]
                out.append(({names[0]: 'self', names[1]: 'plate', names[2]: 'item'}, stmts, args[3]))
    return out


def selector_grammar(ctx, rule=None):
    """The selector grammar of Slicer.__init__ (all documented forms, every path).  With `rule` every obligation is filed
    under that one rule id (for a property that borrows the grammar)."""
    model = ctx.model
    slicer = model.cls('Slicer')
    for name in ('__init__', 'parse_single', 'parse_tuple', 'parse_slice', 'resolve_labels', 'get'):
        if name not in slicer.methods:
            raise AnalysisError(f"Slicer.{name} vanished")
    try:
        # PlateSlicer wraps the constructor: whatever it does to the parsed selection afterwards is part of the addressing
        post = None
        ps = model.classes.get('PlateSlicer')
        pinit = ps.methods.get('__init__') if ps is not None else None
        if pinit is not None:
            body = [st for st in pinit.node.body if not (isinstance(st, ast.Expr) and isinstance(st.value, ast.Constant))]
            k = [i for i, st in enumerate(body) if any(isinstance(x, ast.Call) and isinstance(x.func, ast.Attribute) and
                                                        x.func.attr == '__init__' for x in ast.walk(st))]
            names = pinit.param_names()
            if k and len(names) == 2 and body[k[0] + 1:]:
                post = (names[0], names[1], body[k[0] + 1:])
        pre = _selector_wrappers(model)
        stats, problems = idx.explore(slicer.node, post=post, pre=pre)
    except idx.Incomplete as exc:
        raise AnalysisError(f"index typing cannot interpret slicer.py: {exc}") from exc
    init = slicer.methods['__init__']
    for f in ('__init__', 'parse_single', 'parse_tuple', 'parse_slice', 'resolve_labels'):
        ctx.functions_analysed.add(f"Slicer.{f}")
    by_form = {}
    for form, cat, msg in problems:
        by_form.setdefault(form, []).append((cat, msg))
    for form, info in stats['per_form'].items():
        probs = by_form.get(form, [])
        cats = sorted({c for c, m in probs})
        if not probs:
            ctx.ob(rule or 'C13.R1', init, init.node.lineno, f"selector form {form}", True,
                   fact=f"{info['paths']} paths, {info['accepted']} accepting; every accepted path yields "
                        f"(0-based start | open, exclusive stop | open) from the right component and axis")
        for cat in cats:
            msgs = [m for c, m in probs if c == cat]
            ctx.ob(rule or ('C13.R1' if cat not in ('step', 'accept', 'error-type', 'unassigned', 'never-accepted') else
                   {'step': 'C13.R2', 'accept': 'C13.R3', 'error-type': 'C13.R3', 'unassigned': 'C13.R3',
                    'never-accepted': 'C13.R3'}[cat]),
                   init, init.node.lineno, f"selector form {form}", False, fact=msgs[0],
                   why=msgs[0], key=CATEGORY_KEY.get(cat, cat))
    ctx.count('idx_paths', stats['paths'])
    ctx.count('idx_normal_exits', stats['normal_exits'])
    ctx.count('idx_forms', stats['forms'])
    floor(ctx, 'selector forms', stats['forms'], 30)
    floor(ctx, 'index-typing paths', stats['paths'], 50)
    # spec floor: rejection paths exist (range gates and membership gates raise ValueError)
    ctx.ob(rule or 'C13.R2', init, init.node.lineno, 'out-of-range indices and unknown labels have rejecting paths',
           stats['raises'].get('ValueError', 0) >= 20, fact=f"raise outcomes {stats['raises']}",
           why='range / membership gates no longer reject', key='no rejecting paths', nontrivial=False)

    return slicer, init, stats


def run(ctx):
    from .configtime import derived_values as _derived
    _derived(ctx, 'C13.R3', ('Slicer', 'PlateSlicer', 'Plate'))
    from .configtime import no_identity_test_against_literals as _no_is_literal
    _no_is_literal(ctx, 'C13.R3', classes=('Slicer', 'PlateSlicer', 'Plate'))
    from .configtime import no_shared_mutable_defaults as _mutdef, selection_not_changed_in_place as _sel_inplace
    _mutdef(ctx, 'C13.R3', classes=('Slicer', 'PlateSlicer', 'Plate'))
    _sel_inplace(ctx, 'C13.R3')
    from .configtime import stepped_extent_counts_round_up as _ceil
    _ceil(ctx, 'C13.R3')
    model = ctx.model
    slicer, init, stats = selector_grammar(ctx)
    # a selection handed to a recipe step addresses the same wells when the step is carried out
    from .c07 import addressed_selection
    addressed_selection(ctx, 'C13.R3', only=('remove', 'transfer'))
    default_row_labels(ctx, 'C13.R4')
    # ---- list order in get(): the stored slices are visited in order
    g = slicer.methods['get']
    bad = None
    for n in ast.walk(g.node):
        if isinstance(n, ast.Call) and isinstance(n.func, ast.Name) and n.func.id in ('sorted', 'set', 'reversed', 'frozenset'):
            if any(isinstance(x, ast.Attribute) and x.attr == 'slices' for a in n.args for x in ast.walk(a)):
                bad = n
    ctx.ob('C13.R3', g, (bad.lineno if bad else g.node.lineno), 'Slicer.get visits list selections in the stored order',
           bad is None, fact='self.slices is iterated directly' if bad is None else unparse(bad),
           why='wells of a list selection are returned in another order', key='get reorders list selections',
           nontrivial=False)

    # ---- the observer of a selection reads the cells the selection stores (same keys as apply / set write)
    from . import c01
    before = len(ctx.obs)
    c01.writeback_locality(ctx)
    kept = [o for o in ctx.obs[before:] if o.func == 'Slicer.get']
    for o in kept:
        o.rule = 'C13.R3'
    ctx.obs[before:] = kept

    subslice_composition(ctx, 'C13.R1')
    cached_selection_state(ctx, 'C13.R3')
    # ---- R4 default labels, label validation, well names (Plate.__init__)
    pi = model.func('Plate.__init__')
    ff = ctx.flow('Plate.__init__')
    for axis, pname, attr in (('row', 'rows', 'row_names'), ('column', 'columns', 'column_names')):
        stores = [s for s in ff.stores if s[2] == f"self.{attr}"]
        if not stores:
            raise AnalysisError(f"Plate.__init__: store to self.{attr} not found")
        # the stored value may be a join of the default and the custom labels: each alternative with the state of the
        # place where it was chosen (its branch facts)
        custom = []
        for st_ in stores:
            for alt, state in _alternatives_with_state(ff, st_[3], st_[4]):
                a_ = strip_refs(alt)
                # the list itself, or an order-preserving copy of it: list(p), tuple(p), p.copy(), p[:]
                if isinstance(a_, ast.Call) and isinstance(a_.func, ast.Name) and a_.func.id in ('list', 'tuple') and \
                        len(a_.args) == 1:
                    a_ = strip_refs(a_.args[0])
                elif isinstance(a_, ast.Call) and isinstance(a_.func, ast.Attribute) and a_.func.attr == 'copy' and not a_.args:
                    a_ = strip_refs(a_.func.value)
                elif isinstance(a_, ast.Subscript) and isinstance(a_.slice, ast.Slice) and a_.slice.lower is None and \
                        a_.slice.upper is None and a_.slice.step is None:
                    a_ = strip_refs(a_.value)
                if isinstance(a_, Param) and a_.name == pname:
                    custom.append((st_[0], state))
                elif isinstance(a_, ast.Call) and isinstance(a_.func, ast.Name) and a_.func.id in ('sorted', 'set', 'reversed', 'frozenset') \
                        and a_.args and isinstance(strip_refs(a_.args[0]), Param) and strip_refs(a_.args[0]).name == pname:
                    ctx.ob('C13.R4', pi, st_[0].lineno, f"custom {axis} labels keep the order in which they were given", False,
                           fact=f"stored as {a_.func.id}({pname})", why=f"position k of the plate no longer carries the k-th "
                           f"given label: a label addresses another {axis}", key=f"custom {axis} labels reordered")
                    custom.append((st_[0], state))
        if not custom:
            raise AnalysisError(f"Plate.__init__: custom {axis} labels are no longer stored as given")
        stmt, before = custom[0]

        def nonempty(c, p=pname):
            # len(p) == 0 excluded / len(p) >= 1
            def is_len_p(x):
                x = strip_refs(x)
                return isinstance(x, ast.Call) and isinstance(x.func, ast.Name) and x.func.id == 'len' and \
                    isinstance(strip_refs(x.args[0]), Param) and strip_refs(x.args[0]).name == p
            return (c.op == 'ne' and ((is_len_p(c.left) and const_value(c.right) == 0) or
                                      (is_len_p(c.right) and const_value(c.left) == 0))) or \
                (c.op in ('lt',) and const_value(c.left) == 0 and is_len_p(c.right)) or \
                (c.op in ('le',) and const_value(c.left) == 1 and is_len_p(c.right)) or \
                (c.op == 'truth' and isinstance(strip_refs(c.left), Param) and strip_refs(c.left).name == p)

        def unique(c, p=pname):
            if c.op != 'eq':
                return False
            srcs = [unparse(strip_refs(x).orig if hasattr(strip_refs(x), 'orig') else strip_refs(x)) for x in (c.left, c.right)]
            return sorted(srcs) == sorted([f"len({p})", f"len(set({p}))"])
        g1 = gate_with(before, nonempty, 'ValueError')
        g2 = gate_with(before, unique, 'ValueError')
        ctx.ob('C13.R4', pi, stmt.lineno, f"custom {axis} labels must be non-empty", bool(g1),
               fact=str(g1[0]) if g1 else 'no gate', why=f"an empty list of {axis} labels is accepted",
               key=f"{axis} labels non-empty gate")
        ctx.ob('C13.R4', pi, stmt.lineno, f"custom {axis} labels must be unique", bool(g2),
               fact=str(g2[0]) if g2 else 'no gate',
               why=f"duplicate {axis} labels are accepted: a label then addresses only the first of them",
               key=f"{axis} labels uniqueness gate")
        # element gates inside a loop over the labels
        str_gate = blank_gate = False
        for ex in ff.raise_exits():
            if ex.exc != 'ValueError':
                continue
            for c in facts_at(ex.state):
                t = strip_refs(c.left)
                if c.op == 'falsy' and isinstance(t, ast.Call) and isinstance(t.func, ast.Name) and \
                        t.func.id == 'isinstance' and _loopvar_over(t.args[0], pname) and 'str' in unparse(t.args[1].orig if hasattr(t.args[1], 'orig') else t.args[1]):
                    str_gate = True
                if c.op == 'eq' and c.right is not None:
                    for a, b in ((c.left, c.right), (c.right, c.left)):
                        a = strip_refs(a)
                        if const_value(b) == 0 and isinstance(a, ast.Call) and isinstance(a.func, ast.Name) and \
                                a.func.id == 'len' and any(_loopvar_over(x, pname) for x in deep_walk(a.args[0])):
                            blank_gate = True
        ctx.ob('C13.R4', pi, stmt.lineno, f"custom {axis} labels must all be strings", str_gate,
               why=f"a non-string {axis} label is accepted", key=f"{axis} labels str gate")
        ctx.ob('C13.R4', pi, stmt.lineno, f"custom {axis} labels must not be blank", blank_gate,
               why=f"a blank {axis} label is accepted", key=f"{axis} labels blank gate")
    # default column labels are the decimal strings of 1..n
    dstores = []
    for s_ in ff.stores:
        if s_[2] == 'self.column_names':
            for alt, state in _alternatives_with_state(ff, s_[3], s_[4]):
                if isinstance(strip_refs(alt), ast.ListComp):
                    dstores.append((s_[0], None, None, alt))
    ok, fact = False, 'no comprehension building the default column labels'
    if dstores:
        lc = strip_refs(dstores[0][3])
        fact = show(lc, 100)
        gen = lc.generators[0]
        it = strip_refs(gen.iter)
        if isinstance(it, ast.Call) and isinstance(it.func, ast.Name) and it.func.id == 'range' and not gen.ifs:
            args = it.args
            start, stop_ok = 0, False
            if len(args) == 1:
                stop_ok = isinstance(strip_refs(args[0]), Param) and strip_refs(args[0]).name == 'columns'
            elif len(args) == 2 and isinstance(const_value(args[0]), int):
                start = const_value(args[0])
                sp = strip_refs(args[1])
                stop_ok = isinstance(sp, ast.BinOp) and isinstance(sp.op, ast.Add) and \
                    isinstance(strip_refs(sp.left), Param) and strip_refs(sp.left).name == 'columns' and \
                    const_value(sp.right) == start
                if start == 0:
                    stop_ok = isinstance(sp, Param) and sp.name == 'columns'
            off = _label_offset(lc.elt)
            ok = stop_ok and off is not None and start + off == 1
            fact += f" (range start {start}, label offset {off})"
    ctx.ob('C13.R4', pi, (dstores[0][0].lineno if dstores else pi.node.lineno),
           "default column labels are '1'..'n' (1-based)", ok, fact=fact,
           why='default column labels are not the 1-based decimal numbers', key='default column labels')
    # wells are named from (row label, column label) in row-major comprehension order
    ws = [s for s in ff.stores if s[2] == 'self.wells']
    if not ws:
        raise AnalysisError('Plate.__init__: store to self.wells not found')
    wv = strip_refs(ws[0][3])
    ok, fact = False, show(wv, 120)
    if isinstance(wv, ast.Call) and wv.args and isinstance(wv.args[0], ast.ListComp):
        outer = wv.args[0]
        inner = outer.elt
        from ..flow import pathkey
        if isinstance(inner, ast.ListComp) and pathkey(outer.orig.generators[0].iter) == 'self.row_names' and \
                pathkey(inner.orig.generators[0].iter) == 'self.column_names' and \
                not outer.generators[0].ifs and not inner.generators[0].ifs:
            ok = True
            call = inner.elt
            if isinstance(call, ast.Call) and call.args and isinstance(call.args[0], ast.JoinedStr):
                lv = [v.value for v in call.args[0].values if isinstance(v, ast.FormattedValue)]
                names = [x.loop for x in lv if isinstance(x, LoopVar)]
                ok = len(names) == 2 and names[0] is outer.orig and names[1] is inner.orig
    ctx.ob('C13.R4', pi, ws[0][0].lineno, 'wells are created row-major over (row labels x column labels)', ok,
           fact=fact, why='the well array is not laid out rows x columns in label order', key='well array layout')

    return {'explanation': 'Abstract interpretation of slicer.py over index kinds (1-based user int with lower/upper '
                           'range flags, member/unchecked label, 0-based index, exclusive stop; each with axis and '
                           'source component). All selector forms of the documented grammar (int, label, row:col '
                           'string, the 18 slice forms with/without step, pairs, mixed slice/index pairs, lists, '
                           'malformed forms) are explored on every path; on each accepting path self.slices must be '
                           '(start 0-based|open, stop exclusive|open) built from the right component against the '
                           'labels of its own axis with a positive-gated step; malformed forms must raise '
                           'TypeError/ValueError. Plate.__init__: label validation gates, default column labels, '
                           'row-major well layout. Not decided: numpy slicing semantics, default row labels beyond Z.',
            'exhaustive': True,
            'coverage': {'selector_forms': stats['forms'], 'paths': stats['paths'],
                         'normal_exits': stats['normal_exits'], 'raises': stats['raises']}}


def _loopvar_over(x, pname):
    x = strip_refs(x)
    if isinstance(x, LoopVar):
        it = strip_refs(x.iter)
        return isinstance(it, Param) and it.name == pname
    return False


def _label_offset(elt):
    """For f"{i + k}" / str(i + k) / f"{i}" return k (0 if no offset); None if not of that shape."""
    e = strip_refs(elt)
    if isinstance(e, ast.JoinedStr):
        vals = [v for v in e.values if not (isinstance(v, ast.Constant) and v.value == '')]
        if len(vals) != 1 or not isinstance(vals[0], ast.FormattedValue):
            return None
        e = vals[0].value
    elif isinstance(e, ast.Call) and isinstance(e.func, ast.Name) and e.func.id == 'str' and len(e.args) == 1:
        e = e.args[0]
    else:
        return None
    e = strip_refs(e)
    if isinstance(e, LoopVar):
        return 0
    if isinstance(e, ast.BinOp) and isinstance(e.op, ast.Add):
        for a, b in ((e.left, e.right), (e.right, e.left)):
            if isinstance(strip_refs(a), LoopVar) and isinstance(const_value(b), int):
                return const_value(b)
    if isinstance(e, ast.BinOp) and isinstance(e.op, ast.Sub) and isinstance(strip_refs(e.left), LoopVar) and \
            isinstance(const_value(e.right), int):
        return -const_value(e.right)
    return None


def _alternatives_with_state(ff, value, state, depth=0):
    """[(alternative, state where it was chosen)] of a value that may be a join of definitions."""
    from ..flow import Ref, Phi
    if depth > 8:
        return [(value, state)]
    if isinstance(value, Ref) and isinstance(value.value, (Ref, Phi)):
        st = ff.pre.get(id(value.stmt), state) if value.stmt is not None else state
        return _alternatives_with_state(ff, value.value, st, depth + 1)
    if isinstance(value, Phi):
        out = []
        for o in value.options:
            st = ff.pre.get(id(getattr(o, 'stmt', None)), state) if isinstance(o, Ref) else state
            out.extend(_alternatives_with_state(ff, o, st, depth + 1))
        return out
    if isinstance(value, Ref):
        st = ff.pre.get(id(value.stmt), state) if value.stmt is not None else state
        return [(value, st)]
    return [(value, state)]


def subslice_composition(ctx, rule):
    """A slice of a slice: composing the stored slice [s:e:t] with a sub-slice [a:b:k] gives start s + a*t, stop from
    s + b*t, step t*k.  Decided as field-sensitive non-interference on the composing function (found by its role: the
    method of Slicer that takes two `slice` parameters): the new start and stop never depend on the sub-slice's step,
    the new step depends on both steps, the new start on the outer start and step and on the sub-slice's start."""
    from ..model import Model
    from ..flow import FuncFlow, Ref, Phi, Param, strip_refs, deep_walk
    plain = ctx.model.plain()          # the helper itself (the main model expands it into its callers)
    cands = []
    for fi in plain.functions('pyplate/slicer.py'):
        if fi.cls is None or fi.cls.name != 'Slicer' or fi.parent is not None:
            continue
        sl = [p for p in fi.all_param_names() if (fi.annotation(p) or '').strip("'\"") == 'slice']
        if len(sl) == 2:
            cands.append((fi, sl))
    if len(cands) != 1:
        ctx.count('subslice_composition', 0)
        return
    fi, (outer, sub) = cands[0]
    ff = FuncFlow(fi, plain)

    def deps(e, seen, depth=0):
        out = set()
        if e is None or depth > 60 or id(e) in seen:
            return out
        seen.add(id(e))
        if isinstance(e, Ref):
            return deps(e.value, seen, depth + 1)
        if isinstance(e, Phi):
            for o in e.options:
                out |= deps(o, seen, depth + 1)
            return out
        if isinstance(e, ast.Attribute) and e.attr in ('start', 'stop', 'step'):
            for base in _bases(e.value):
                if isinstance(base, Param) and base.name in (outer, sub):
                    out.add((base.name, e.attr))
                elif isinstance(base, ast.Call) and isinstance(base.func, ast.Name) and base.func.id == 'slice' and len(base.args) == 3:
                    out |= deps(base.args[('start', 'stop', 'step').index(e.attr)], seen, depth + 1)
                else:
                    out |= deps(base, seen, depth + 1)
            return out
        if isinstance(e, ast.AST):
            for c in ast.iter_child_nodes(e):
                if isinstance(c, (ast.expr_context, ast.operator, ast.cmpop, ast.boolop, ast.unaryop)):
                    continue
                out |= deps(c, seen, depth + 1)
        return out

    def _bases(v, depth=0):
        if depth > 20:
            return [v]
        if isinstance(v, Ref):
            return _bases(v.value, depth + 1)
        if isinstance(v, Phi):
            out = []
            for o in v.options:
                out.extend(_bases(o, depth + 1))
            return out
        return [v]
    n = 0
    for ex in ff.normal_exits():
        v = ex.value
        for b in _bases(v):
            if not (isinstance(b, ast.Call) and isinstance(b.func, ast.Name) and b.func.id == 'slice' and len(b.args) == 3):
                continue
            n += 1
            s_, e_, k_ = (deps(a, set()) for a in b.args)
            problems = []
            if (sub, 'step') in s_:
                problems.append("the new start depends on the sub-slice's step")
            if (sub, 'step') in e_:
                problems.append("the new stop depends on the sub-slice's step")
            if not {(outer, 'step'), (sub, 'step')} <= k_:
                problems.append('the new step is not composed of both steps')
            if not {(outer, 'start'), (outer, 'step'), (sub, 'start')} <= s_:
                problems.append('the new start is not the outer start plus the sub-slice start times the outer step')
            # the extent of the sub-slice counts elements of the outer selection: it enters the new stop multiplied by
            # the outer step (start + length * t); added unscaled it is only right for step 1
            if (sub, 'stop') in e_ and (outer, 'step') in e_:
                scaled = False
                for x in deep_walk(b.args[1]):
                    if isinstance(x, ast.BinOp) and isinstance(x.op, ast.Mult):
                        dl, dr = deps(x.left, set()), deps(x.right, set())
                        if ((outer, 'step') in dl and (sub, 'stop') in dr) or ((outer, 'step') in dr and (sub, 'stop') in dl):
                            scaled = True
                if not scaled:
                    problems.append("the sub-slice's extent enters the new stop without being multiplied by the outer step")
            ctx.ob(rule, ctx.model.func('Slicer.__init__'), ex.line, f"{fi.qualname}: a slice of a slice addresses start + a*step, with step t*k",
                   not problems, fact=f"start <- {sorted(s_)}; stop <- {sorted(e_)}; step <- {sorted(k_)}",
                   why='; '.join(problems) + ': a stepped sub-slice addresses the wrong rows / columns',
                   key='sub-slice composition')
    ctx.count('subslice_composition', n)


def cached_selection_state(ctx, rule):
    """`shape` and `size` of a selection are cached per object (cached_property).  A method that copies a slicer and then
    re-points the copy's selection must drop the values the copy inherited, or the copy reports the shape and size of
    the slicer it was taken from (and transfers pair its wells by the wrong size)."""
    model = ctx.model
    n = 0
    for ci in model.classes.values():
        if ci.mod.rel not in ('pyplate/slicer.py', 'pyplate/pyplate.py'):
            continue
        cached = {name: m for name, m in ci.methods.items() if 'cached_property' in m.decorators}
        if not cached:
            continue
        # attributes each cached property depends on (directly, or through methods of self it calls)
        def reads(fi, seen):
            out = set()
            if fi.qualname in seen:
                return out
            seen.add(fi.qualname)
            for x in ast.walk(fi.node):
                if isinstance(x, ast.Attribute) and isinstance(x.value, ast.Name) and x.value.id == 'self':
                    out.add(x.attr)
                    callee = model.lookup_method(ci.name, x.attr)
                    if callee is not None and callee is not fi:
                        out |= reads(callee, seen)
            return out
        deps = {name: reads(m, set()) for name, m in cached.items()}
        for m in ci.methods.values():
            ff = ctx.flow(m.qualname)
            copies = {}
            for stmt, target, key, value, before, rt in ff.stores:
                base = rt.value if isinstance(rt, ast.Attribute) else None
                if isinstance(base, Ref) and isinstance(base.value, ast.Call) and getattr(base.value.func, 'id', '') == 'copy' and \
                        base.value.args and isinstance(strip_refs(base.value.args[0]), Param) and \
                        strip_refs(base.value.args[0]).name == m.param_names(drop_self=False)[0]:
                    copies.setdefault(base.defid, (base, []))[1].append((stmt, rt.attr))
            for defid, (ref, writes) in copies.items():
                dropped = {}
                for c, s_, b in ff.calls:
                    f = c.func
                    if isinstance(f, ast.Attribute) and f.attr == 'pop' and isinstance(strip_refs(f.value), ast.Attribute) and \
                            strip_refs(f.value).attr == '__dict__' and isinstance(strip_refs(f.value).value, Ref) and \
                            strip_refs(f.value).value.defid == defid and c.args and isinstance(const_value(c.args[0]), str):
                        dropped.setdefault(const_value(c.args[0]), []).append(s_)
                for stmt, attr in writes:
                    stale = sorted(p for p, d in deps.items() if attr in d)
                    if not stale:
                        continue
                    n += 1
                    missing = [p for p in stale if not any(ff.seq(s_) > ff.seq(stmt) and dominates(stmt, s_) for s_ in dropped.get(p, []))]
                    ctx.ob(rule, m, stmt.lineno, f"{m.qualname}: the copy whose `{attr}` is re-pointed forgets the cached {stale}",
                           not missing, fact=f"cached values dropped after the store: {sorted(set(stale) - set(missing))}",
                           why=f"the copy keeps the cached {missing} of the slicer it was copied from: a sub-selection reports "
                               f"the shape / size of its parent", key=f"stale cached property after copy in {m.name}")
    ctx.count('cached_selection_copies', n)


def distinct_wells(ctx, rule):
    """Every well of a new plate is its own Container object: the constructor call that supplies the elements of
    `self.wells` is evaluated once per element.  (Operations deep-copy the plate, and a deep copy keeps two references to
    one object as two references to one copy - a plate whose wells alias changes everywhere at once.)"""
    model = ctx.model
    pi = model.func('Plate.__init__')
    ff = ctx.flow('Plate.__init__')
    ws = [s for s in ff.stores if s[2] == 'self.wells']
    if not ws:
        raise AnalysisError('Plate.__init__: store to self.wells not found')
    stmt = ws[0][0]
    value = stmt.value if isinstance(stmt, (ast.Assign, ast.AnnAssign)) else None
    verdict, fact = None, ''

    def fresh_call(e):
        return isinstance(e, ast.Call) and ((isinstance(e.func, ast.Name) and e.func.id in ('Container', 'deepcopy')) or
                                            (isinstance(e.func, ast.Attribute) and e.func.attr in ('deepcopy',)))
    comps = [n for n in ast.walk(value) if isinstance(n, (ast.ListComp, ast.GeneratorExp))] if value is not None else []
    innermost = [c for c in comps if not any(isinstance(x, (ast.ListComp, ast.GeneratorExp)) for x in ast.walk(c.elt))]
    if innermost:
        bad = [c for c in innermost if not fresh_call(c.elt)]
        verdict = not bad
        fact = f"element expression `{show(innermost[0].elt, 60)}`"
        if bad and not isinstance(bad[0].elt, (ast.Name, ast.Attribute, ast.Subscript)):
            raise AnalysisError(f"Plate.__init__: element expression of self.wells not understood: {show(bad[0].elt, 60)}")
    elif value is not None:
        txt = show(value, 120)
        aliasing = any(isinstance(n, ast.Call) and isinstance(n.func, ast.Attribute) and n.func.attr in ('full', 'full_like', 'tile', 'repeat')
                       for n in ast.walk(value)) or \
            any(isinstance(n, ast.BinOp) and isinstance(n.op, ast.Mult) and isinstance(n.left, (ast.List, ast.Tuple))
                for n in ast.walk(value))
        if aliasing:
            verdict, fact = False, f"`{txt}` repeats one object"
        else:
            # an empty object array filled in a loop: every subscript store must construct inside the loop
            fills = [s for s in ff.stores if s[2] and s[2].startswith('self.wells[')]
            if fills:
                verdict = all(fresh_call(s[0].value) for s in fills if isinstance(s[0], ast.Assign))
                fact = f"{len(fills)} element store(s)"
            else:
                raise AnalysisError(f"Plate.__init__: construction of self.wells not understood: {txt}")
    ctx.ob(rule, pi, stmt.lineno, 'every well of a new plate is its own Container (constructed once per element)', bool(verdict),
           fact=fact, why='all wells are one object: whatever is added to one well appears in every well, also after '
           'deepcopy', key='wells alias one container')


def default_row_labels(ctx, rule):
    """Default row labels are bijective base 26 written most significant letter first ('AA' follows 'Z', 'AB' follows
    'AA').  The loop that repeatedly divides the row number by 26 produces the letters least significant first: appended
    letters have to be reversed once before they are joined, prepended letters must not be reversed."""
    model = ctx.model
    pi = model.func('Plate.__init__')
    loops = []
    # the loop may sit in Plate.__init__ or in a helper it was moved to
    for fi_ in [pi] + [f for f in model.functions('pyplate/pyplate.py') if f is not pi]:
        for lp in ast.walk(fi_.node):
            if isinstance(lp, (ast.While, ast.For)):
                src = unparse(lp, 2000)
                inner = [x for x in ast.walk(lp) if isinstance(x, (ast.While, ast.For)) and x is not lp and
                         '26' in unparse(x, 2000) and 'chr(' in unparse(x, 2000)]
                if '26' in src and ('//' in src or 'divmod' in src) and 'chr(' in src and not inner:
                    loops.append((fi_, lp))
        if loops:
            break
    if not loops and _recursive_row_labels(ctx, rule):
        return
    if not loops:
        raise AnalysisError('the loop producing default row labels was not found')
    pi, lp = loops[-1]
    acc, order = None, None
    for st in ast.walk(lp):
        if isinstance(st, ast.Call) and isinstance(st.func, ast.Attribute) and isinstance(st.func.value, ast.Name):
            if st.func.attr == 'append' and any('chr(' in unparse(a) for a in st.args):
                acc, order = st.func.value.id, 'lsd'
            if st.func.attr == 'insert' and st.args and unparse(st.args[0]) == '0' and 'chr(' in unparse(st.args[1]):
                acc, order = st.func.value.id, 'msd'
        if isinstance(st, ast.AugAssign) and isinstance(st.op, ast.Add) and isinstance(st.target, ast.Name) and 'chr(' in unparse(st.value):
            acc, order = st.target.id, 'lsd'
        if isinstance(st, ast.Assign) and len(st.targets) == 1 and isinstance(st.targets[0], ast.Name) and \
                isinstance(st.value, ast.BinOp) and isinstance(st.value.op, ast.Add):
            t = st.targets[0].id
            l_, r_ = unparse(st.value.left), unparse(st.value.right)
            if l_ == t and 'chr(' in r_:
                acc, order = t, 'lsd'
            elif r_ == t and 'chr(' in l_:
                acc, order = t, 'msd'
    if acc is None:
        raise AnalysisError('Plate.__init__: accumulation of the row label letters not understood')
    # reversals applied to the accumulated letters where they become the label (the statements after the division loop
    # in the enclosing loop body)
    reversals = 0
    parent = getattr(lp, 'parent', None)
    scope = parent if isinstance(parent, (ast.For, ast.While)) else pi.node
    for x in ast.walk(scope):
        if any(y is x for y in ast.walk(lp)):
            continue
        if isinstance(x, ast.Call) and isinstance(x.func, ast.Name) and x.func.id == 'reversed' and \
                any(isinstance(a, ast.Name) and a.id == acc for a in x.args):
            reversals += 1
        if isinstance(x, ast.Call) and isinstance(x.func, ast.Attribute) and x.func.attr == 'reverse' and \
                isinstance(x.func.value, ast.Name) and x.func.value.id == acc:
            reversals += 1
        if isinstance(x, ast.Subscript) and isinstance(x.value, ast.Name) and x.value.id == acc and \
                isinstance(x.slice, ast.Slice) and x.slice.step is not None and unparse(x.slice.step) == '-1':
            reversals += 1
    # bijective base 26 (there is no zero letter): the digit AND the carry are taken from the same decremented number
    # (`n -= 1; d = n % 26; n //= 26` or `n, d = divmod(n - 1, 26)`); a digit from n - 1 with a carry from n labels row
    # 26 'AZ' instead of 'Z'
    decremented = set()     # names decremented by a statement of the loop body
    mods, divs = [], []
    for st in lp.body:
        if isinstance(st, ast.AugAssign) and isinstance(st.op, ast.Sub) and isinstance(st.target, ast.Name) and unparse(st.value) == '1':
            decremented.add(st.target.id)

    def norm(e):
        t = unparse(e).replace(' ', '')
        if isinstance(e, ast.Name) and e.id in decremented:
            return f"({e.id}-1)"
        if t.startswith('(') and t.endswith(')'):
            return t
        return f"({t})" if isinstance(e, ast.BinOp) else t
    for x in ast.walk(lp):
        if isinstance(x, ast.BinOp) and unparse(x.right) == '26':
            if isinstance(x.op, ast.Mod):
                mods.append(norm(x.left))
            elif isinstance(x.op, ast.FloorDiv):
                divs.append(norm(x.left))
        if isinstance(x, ast.AugAssign) and isinstance(x.op, ast.FloorDiv) and unparse(x.value) == '26':
            divs.append(norm(x.target) if not (isinstance(x.target, ast.Name) and x.target.id in decremented)
                        else f"({x.target.id}-1)")
        if isinstance(x, ast.Call) and getattr(x.func, 'id', '') == 'divmod' and len(x.args) == 2 and unparse(x.args[1]) == '26':
            mods.append(norm(x.args[0]))
            divs.append(norm(x.args[0]))
    if mods and divs:
        same = set(mods) == set(divs) and all('-1' in m_ for m_ in mods)
        ctx.ob(rule, pi, lp.lineno, 'digit and carry of a default row label come from the same decremented number', same,
               fact=f"digit from {sorted(set(mods))}, carry from {sorted(set(divs))}",
               why="bijective base 26 needs n - 1 for both: otherwise multiples of 26 get a wrong label ('AZ' for row 26)",
               key='row label digit and carry')
    ok = (order == 'lsd' and reversals % 2 == 1) or (order == 'msd' and reversals % 2 == 0)
    ctx.ob(rule, pi, lp.lineno, "default row labels are written most significant letter first ('AA', 'AB', ...)", ok,
           fact=f"letters are {'appended (least significant first)' if order == 'lsd' else 'prepended'} to `{acc}`, "
                f"{reversals} reversal(s) before the label is stored",
           why="labels beyond 'Z' come out reversed ('BA' instead of 'AB'): row 28 is addressed by the wrong label",
           key='row label letter order')


def _recursive_row_labels(ctx, rule):
    """The same numbering written recursively: `q, r = divmod(n, 26); return letter(r) if q == 0 else name(q ..) + letter(r)`.
    Bijective base 26 has no zero digit: on the way to the next letter the number is decremented exactly once - either
    before it is divided (`divmod(n - 1, 26)`, n counted from 1) or when the quotient is carried (`name(q - 1)`, n counted
    from 0).  Neither or both is plain base 26 ('BA' after 'Z') or skips a letter."""
    model = ctx.model.plain()
    for fi in model.functions('pyplate/pyplate.py'):
        if fi.parent is not None:
            continue
        src = unparse(fi.node, 4000)
        if '26' not in src or 'chr(' not in src:
            continue
        rec = [c for c in ast.walk(fi.node) if isinstance(c, ast.Call) and
               ((isinstance(c.func, ast.Attribute) and c.func.attr == fi.name) or (isinstance(c.func, ast.Name) and c.func.id == fi.name))]
        if not rec or any(isinstance(x, (ast.For, ast.While)) for x in ast.walk(fi.node)):
            continue
        divs = [c for c in ast.walk(fi.node) if (isinstance(c, ast.Call) and isinstance(c.func, ast.Name) and c.func.id == 'divmod' and
                                                 len(c.args) == 2 and isinstance(c.args[1], ast.Constant) and c.args[1].value == 26) or
                (isinstance(c, ast.BinOp) and isinstance(c.op, ast.FloorDiv) and isinstance(c.right, ast.Constant) and c.right.value == 26)]
        if not divs:
            continue

        def decremented(e):
            return isinstance(e, ast.BinOp) and isinstance(e.op, ast.Sub) and isinstance(e.right, ast.Constant) and e.right.value == 1
        dividend = divs[0].args[0] if isinstance(divs[0], ast.Call) else divs[0].left
        before = decremented(dividend)
        carried = all(c.args and decremented(c.args[0]) for c in rec)
        none_carried = not any(c.args and decremented(c.args[0]) for c in rec)
        ok = (before and none_carried) or (carried and not before)
        ctx.ob(rule, ctx.model.funcs.get(fi.qualname, fi), rec[0].lineno,
               f"{fi.qualname}: the number is decremented exactly once per letter (bijective base 26)", ok,
               fact=f"dividend `{unparse(dividend, 40)}` decremented: {before}; carried quotient decremented: {carried}",
               why="plain base 26 names the row after 'Z' 'BA' instead of 'AA': labels beyond the 26th row address other rows than documented",
               key='recursive row labels: decrement')
        return True
    return False
